#!/bin/bash
# Nothing to build: the framework is interpreted.  Verify the tool chain it relies on.
set -e
cd "$(dirname "$0")"
python3-vt -c "import z3; assert z3.get_version_string().startswith('5.'), z3.get_version_string()"
/venv/bin/python -c "import nutree, sys; assert sys.version_info[:2] == (3, 12)"
test -x /usr/bin/cvc5
mkdir -p evidence replays
echo "setup ok"
