"""C01 / C02 / C03 — the id index and the clone lists (Tree._register / _unregister),
Node.__init__, Tree.__init__."""
from __future__ import annotations

import z3
from z3 import And, Exists, ForAll, If, Implies, Not, Or

from pyvc import logic as L
from pyvc.contract import contract
from .vocab import *  # noqa: F401,F403
from .lookups import calc_id

TQ = "nutree.tree.Tree."
NQ = "nutree.node.Node."
NODE_FIELDS = ("_parent", "_children", "_tree", "_data", "_data_id", "_node_id", "_meta", "_kind")
TREE_FIELDS = ("_root", "_node_by_id", "_nodes_by_data_id", "_lock", "_calc_data_id_hook", "_node_factory", "_forward_attrs", "name")


def fields_same_except(x, fields, objs):
    """frame: for every pre-existing object other than `objs`, the listed fields are unchanged."""
    h0, h = x.h0, x.h
    o = L.fresh("o", L.Ref)
    cs = []
    for f in fields:
        if z3.eq(h0.f(f), h.f(f)):
            continue
        cs.append(ForAll([o], Implies(And(*[o != q for q in objs]), h.f(f)(o) == h0.f(f)(o)), patterns=[h.f(f)(o)]))
    return And(*cs) if cs else z3.BoolVal(True)


def lists_same_except(x, lists):
    """frame: the content of every list object other than `lists` is unchanged."""
    h0, h = x.h0, x.h
    l, i = L.fresh("l", L.LRef), L.fresh("i", L.I)
    if z3.eq(h0.llen, h.llen) and z3.eq(h0.litem, h.litem):
        return z3.BoolVal(True)
    return And(ForAll([l], Implies(And(*[l != q for q in lists]), h.llen(l) == h0.llen(l)), patterns=[h.llen(l)]),
               ForAll([l, i], Implies(And(*[l != q for q in lists]), h.litem(l, i) == h0.litem(l, i)), patterns=[h.litem(l, i)]))


def dicts_same_except(x, dicts):
    h0, h = x.h0, x.h
    d, k = L.fresh("d", L.DRef), L.fresh("k", L.Val)
    cs = []
    for comp in ("ddom", "dref", "dlst", "dval"):
        if not z3.eq(h0.f(comp), h.f(comp)):
            cs.append(ForAll([d, k], Implies(And(*[d != q for q in dicts]), h.f(comp)(d, k) == h0.f(comp)(d, k)), patterns=[h.f(comp)(d, k)]))
    if not z3.eq(h0.dcard, h.dcard):
        cs.append(ForAll([d], Implies(And(*[d != q for q in dicts]), h.dcard(d) == h0.dcard(d)), patterns=[h.dcard(d)]))
    return And(*cs) if cs else z3.BoolVal(True)


def alloc_monotone(x):
    h0, h = x.h0, x.h
    o, l, d = L.fresh("o", L.Ref), L.fresh("l", L.LRef), L.fresh("d", L.DRef)
    cs = []
    if not z3.eq(h0.alloc, h.alloc):
        cs.append(ForAll([o], Implies(h0.alloc(o), h.alloc(o)), patterns=[h.alloc(o)]))
    if not z3.eq(h0.lalloc, h.lalloc):
        cs.append(ForAll([l], Implies(h0.lalloc(l), h.lalloc(l)), patterns=[h.lalloc(l)]))
    if not z3.eq(h0.dalloc, h.dalloc):
        cs.append(ForAll([d], Implies(h0.dalloc(d), h.dalloc(d)), patterns=[h.dalloc(d)]))
    return And(*cs) if cs else z3.BoolVal(True)


# ------------------------------------------------------------------ _unregister
@contract(TQ + "_unregister", props=("C01", "C02"))
def _(c):
    c.param("self", "tree").param("node", "node").param("clear", "true", "false")
    c.result_tag = "none"
    c.modifies("_tree", "_parent", "_data", "_data_id", "_node_id", "_children", "_meta", "ddom", "dcard", "llen", "litem", "cpos")
    T = lambda x: x.a.self  # noqa: E731
    c.requires("index invariants", lambda x: And(wf(x.h0, T(x), only=("S1", "I1", "I2")), x.h0.mem(T(x), x.a.node)))

    def post(x):
        h0, h, n = x.h0, x.h, x.a.node
        Tr = T(x)
        nbi, nbd = h0._node_by_id(Tr), h0._nodes_by_data_id(Tr)
        did, nid = h0._data_id(n), h0._node_id(n)
        cl = h0.dlst(nbd, did)
        k = L.fresh("k", L.Val)
        i = L.fresh("i", L.I)
        me = h0.cpos(n)
        return And(
            wf(h, Tr, only=("S1", "I1", "I2")),
            # the id index loses exactly this node
            ForAll([k], h.ddom(nbi, k) == And(h0.ddom(nbi, k), k != nid), patterns=[h.ddom(nbi, k)]),
            h.dcard(nbi) == h0.dcard(nbi) - 1,
            # the clone list loses exactly this occurrence, order of the others kept
            h.llen(cl) == h0.llen(cl) - 1,
            ForAll([i], Implies(And(0 <= i, i < h0.llen(cl) - 1), h.litem(cl, i) == If(i < me, h0.litem(cl, i), h0.litem(cl, i + 1))), patterns=[h.litem(cl, i)]),
            ForAll([k], h.ddom(nbd, k) == And(h0.ddom(nbd, k), Or(k != did, h0.llen(cl) > 1)), patterns=[h.ddom(nbd, k)]),
            h.dcard(nbd) == h0.dcard(nbd) - If(h0.llen(cl) > 1, 0, 1),
            # the node is unlinked
            h._tree(n) == NONE, h._parent(n) == NONE,
            # frame
            fields_same_except(x, NODE_FIELDS, [n]), lists_same_except(x, [cl]), dicts_same_except(x, [nbi, nbd]),
            ForAll([k], Implies(k != nid, h.dref(nbi, k) == h0.dref(nbi, k)), patterns=[h.dref(nbi, k)]) if not z3.eq(h.dref, h0.dref) else True,
            ForAll([k], h.dlst(nbd, k) == h0.dlst(nbd, k), patterns=[h.dlst(nbd, k)]) if not z3.eq(h.dlst, h0.dlst) else True,
        )

    c.ensures("index exact for members minus node; node unlinked; frame", post)
    # ghost: positions inside the clone list shift down behind the removed occurrence
    c.ghost_exit["cpos"] = lambda x, o: If(And(x.h0._data_id(o) == x.h0._data_id(x.a.node), x.h0.cpos(o) > x.h0.cpos(x.a.node)), x.h0.cpos(o) - 1, x.h0.cpos(o))
    c.loop(1).invariant = lambda x: fa_int(0, x.k, lambda j: x.h0.litem(x.h0.dlst(x.h0._nodes_by_data_id(x.a.self), x.h0._data_id(x.a.node)), j) != x.a.node,
                                           lambda j: x.h0.litem(x.h0.dlst(x.h0._nodes_by_data_id(x.a.self), x.h0._data_id(x.a.node)), j))
    c.loop(1).modifies = ()


# ------------------------------------------------------------------ _register
def parentprop(h, c):
    """value of the `parent` property: None for children of a system root."""
    return If(h._parent(h._parent(c)) == NONE, NONE, h._parent(c))


def obs_unchanged(x):
    """observably unchanged: every field, list and dict is as before; dict *values* may
    differ only at keys outside the (unchanged) domain."""
    h0, h = x.h0, x.h
    cs = [fields_same_except(x, NODE_FIELDS + TREE_FIELDS, []), lists_same_except(x, [])]
    d, k = L.fresh("d", L.DRef), L.fresh("k", L.Val)
    if not z3.eq(h0.ddom, h.ddom):
        cs.append(ForAll([d, k], h.ddom(d, k) == h0.ddom(d, k), patterns=[h.ddom(d, k)]))
    for comp in ("dref", "dlst", "dval"):
        if not z3.eq(h0.f(comp), h.f(comp)):
            cs.append(ForAll([d, k], Implies(h0.ddom(d, k), h.f(comp)(d, k) == h0.f(comp)(d, k)), patterns=[h.f(comp)(d, k)]))
    if not z3.eq(h0.dcard, h.dcard):
        cs.append(ForAll([d], h.dcard(d) == h0.dcard(d), patterns=[h.dcard(d)]))
    return And(*cs)


def node_detached(h, T, n):
    """n is allocated, belongs to no child list and no clone list of T (it is not a member)."""
    return And(n != NONE, h.alloc(n), Not(h.mem(T, n)), n != h._root(T))


@contract(TQ + "_register", props=("C01", "C02", "C03"))
def _(c):
    c.param("self", "tree").param("node", "node")
    c.result_tag = "none"
    c.modifies("ddom", "dref", "dlst", "dcard", "llen", "litem", "lalloc", "cpos", "rank")
    T = lambda x: x.a.self  # noqa: E731
    c.requires("wf", lambda x: wf(x.h0, T(x)))
    c.requires("node is a fresh, unattached node whose parent belongs to the tree", lambda x: And(x.h0.alloc(x.a.node), x.h0.inP(T(x), x.h0._parent(x.a.node)), x.a.node != x.h0._root(T(x)), x.h0._children(x.a.node) == LNONE,
                                                                                                   Or(L.v_is_int(x.h0._data_id(x.a.node)), L.v_is_str(x.h0._data_id(x.a.node))),
                                                                                                   L.cls_of(x.a.node) == If(L.cls_of(T(x)) == L.CLS["TypedTree"], L.CLS["TypedNode"], L.CLS["Node"])))

    def clash(x):
        h0, n = x.h0, x.a.node
        nbd = h0._nodes_by_data_id(T(x))
        cl = h0.dlst(nbd, h0._data_id(n))
        return And(h0.ddom(nbd, h0._data_id(n)), ex_int(0, h0.llen(cl), lambda j: parentprop(h0, h0.litem(cl, j)) == parentprop(h0, n)))

    def bad_args(x):
        h0, n = x.h0, x.a.node
        return Or(h0._tree(n) != T(x), Not(And(h0._node_id(n) != VNONE, L.v_truthy(h0._node_id(n)))), h0.ddom(h0._node_by_id(T(x)), h0._node_id(n)))

    c.raises("AssertionError", when=bad_args, ensures=obs_unchanged, props=("C13",))
    c.raises("UniqueConstraintError", when=lambda x: And(Not(bad_args(x)), clash(x)), ensures=lambda x: And(obs_unchanged(x), wf(x.h, T(x))), props=("C03", "C13"))

    def post(x):
        h0, h, n = x.h0, x.h, x.a.node
        Tr = T(x)
        nbi, nbd = h0._node_by_id(Tr), h0._nodes_by_data_id(Tr)
        did, nid = h0._data_id(n), h0._node_id(n)
        cl0 = h0.dlst(nbd, did)
        cl = h.dlst(nbd, did)
        k = L.fresh("k", L.Val)
        m = L.fresh("m", L.Ref)
        had = h0.ddom(nbd, did)
        return And(
            wf(h, Tr, pending=n),
            h.mem(Tr, n),
            ForAll([k], h.ddom(nbi, k) == Or(h0.ddom(nbi, k), k == nid), patterns=[h.ddom(nbi, k)]),
            h.dref(nbi, nid) == n,
            h.dcard(nbi) == h0.dcard(nbi) + 1,
            ForAll([k], h.ddom(nbd, k) == Or(h0.ddom(nbd, k), k == did), patterns=[h.ddom(nbd, k)]),
            h.dcard(nbd) == h0.dcard(nbd) + If(had, 0, 1),
            If(had, And(cl == cl0, h.llen(cl) == h0.llen(cl0) + 1, h.litem(cl, h0.llen(cl0)) == n, fa_int(0, h0.llen(cl0), lambda i: h.litem(cl, i) == h0.litem(cl0, i), lambda i: h.litem(cl, i))),
               And(Not(h0.lalloc(cl)), cl != LNONE, h.llen(cl) == 1, h.litem(cl, 0) == n)),
            # no member with this data_id shares the node's parent (C03: the insertion that follows keeps U)
            ForAll([m], Implies(And(h0.mem(Tr, m), h0._data_id(m) == did), h0._parent(m) != h0._parent(n)), patterns=[h0._data_id(m)]),
            lists_same_except(x, [cl]), dicts_same_except(x, [nbi, nbd]), alloc_monotone(x),
            ForAll([m], h.rank(m) == If(m == n, h0.rank(h0._parent(n)) + 1, h0.rank(m)), patterns=[h.rank(m)]),
            ForAll([m], Implies(m != n, h.cpos(m) == h0.cpos(m)), patterns=[h.cpos(m)]),
            ForAll([k], Implies(k != nid, h.dref(nbi, k) == h0.dref(nbi, k)), patterns=[h.dref(nbi, k)]),
            ForAll([k], Implies(k != did, h.dlst(nbd, k) == h0.dlst(nbd, k)), patterns=[h.dlst(nbd, k)]),
        )

    c.ensures("node registered: index exact for members + node (pending insertion), no sibling clash", post)
    c.ghost_exit["cpos"] = lambda x, o: If(o == x.a.node, If(x.h0.ddom(x.h0._nodes_by_data_id(x.a.self), x.h0._data_id(x.a.node)), x.h0.llen(x.h0.dlst(x.h0._nodes_by_data_id(x.a.self), x.h0._data_id(x.a.node))), 0), x.h0.cpos(o))
    c.ghost_exit["rank"] = lambda x, o: If(o == x.a.node, x.h0.rank(x.h0._parent(x.a.node)) + 1, x.h0.rank(o))

    def inv(x):
        h0, n = x.h0, x.a.node
        cl = h0.dlst(h0._nodes_by_data_id(x.a.self), h0._data_id(n))
        return fa_int(0, x.k, lambda j: parentprop(h0, h0.litem(cl, j)) != parentprop(h0, n), lambda j: h0.litem(cl, j))

    c.loop(1).invariant = inv
    c.loop(1).modifies = ()


# ------------------------------------------------------------------ Node.__init__
def init_id(x):
    """C02: the explicit id the node was given, else the tree's callback / hash applied to its data."""
    T = x.h0._tree(x.a.parent)
    if x.a.tag("data_id") != "none":
        return x.a.data_id
    return calc_id(x.h0, T, x.a.data)


def new_node_pre(x):
    h0, s, p = x.h0, x.a.self, x.a.parent
    T = h0._tree(p)
    return And(wf(h0, T), h0.inP(T, p), h0.alloc(s), s != h0._root(T), Not(h0.mem(T, s)), s != p,
               L.cls_of(s) == If(L.cls_of(T) == L.CLS["TypedTree"], L.CLS["TypedNode"], L.CLS["Node"]),
               # a freshly allocated object: nobody refers to it yet
               fa_ref_not_referenced(h0, T, s))


def fa_ref_not_referenced(h, T, s):
    p, i = L.fresh("p", L.Ref), L.fresh("i", L.I)
    d = L.fresh("d", L.Val)
    nbd = h._nodes_by_data_id(T)
    return And(ForAll([p, i], Implies(And(h.inP(T, p), 0 <= i, i < h.clen(p)), h.child(p, i) != s), patterns=[h.litem(h._children(p), i)]),
               ForAll([d, i], Implies(And(h.ddom(nbd, d), 0 <= i, i < h.llen(h.dlst(nbd, d))), h.litem(h.dlst(nbd, d), i) != s), patterns=[h.litem(h.dlst(nbd, d), i)]))


def init_contract(c, typed: bool):
    c.result_tag = "none"
    c.modifies("_data", "_parent", "_tree", "_children", "_data_id", "_node_id", "_meta", "_kind", "ddom", "dref", "dlst", "dcard", "llen", "litem", "lalloc", "cpos", "rank")
    c.requires("wf(tree of parent); self is a fresh object", new_node_pre)
    c.requires("an explicit node_id is an int", lambda x: L.v_is_int(x.a.node_id) if x.a.tag("node_id") != "none" else True)
    if typed:
        c.requires("kind is given", lambda x: x.a.kind != VNONE)
    Tof = lambda x: x.h0._tree(x.a.parent)  # noqa: E731

    def others_unchanged(x):
        return And(fields_same_except(x, NODE_FIELDS + TREE_FIELDS, [x.a.self]), lists_same_except(x, []), obs_dicts_unchanged(x))

    def nid_of(x):
        return x.a.node_id if x.a.tag("node_id") != "none" else z3.Function("py_id", L.Ref, L.Val)(x.a.self)

    def bad_nid(x):
        h0 = x.h0
        nid = nid_of(x)
        return Or(Not(And(nid != VNONE, L.v_truthy(nid))), h0.ddom(h0._node_by_id(Tof(x)), nid))

    def clash(x):
        h0, p = x.h0, x.a.parent
        did = init_id(x)
        i = L.fresh("i", L.I)
        return Exists([i], And(0 <= i, i < h0.clen(p), h0._data_id(h0.child(p, i)) == did))

    if typed:
        c.raises("AssertionError", when=lambda x: Or(Not(L.v_is_str(x.a.kind)), x.a.kind == ANY_KIND, bad_nid(x)), ensures=others_unchanged, props=("C13",))
        # CPython: the message of the failing `assert ... , f"{node}"` in Tree._register calls TypedNode.__repr__ on the half-built
        # node (no _kind yet), so the refusal surfaces as AttributeError.  The executor does not evaluate assert messages
        # (DESIGN §8); found by the run-time cross-check.  Same guarantee on both.
        c.may_raise("AttributeError", when=bad_nid, ensures=others_unchanged, props=("C13",), name="AttributeError (repr of the half-built node in the assert message)")
    else:
        c.raises("AssertionError", when=bad_nid, ensures=others_unchanged, props=("C13",))
    c.raises("UniqueConstraintError", when=lambda x: And(Not(bad_nid(x)), clash(x), True if not typed else And(L.v_is_str(x.a.kind), x.a.kind != ANY_KIND)), ensures=lambda x: And(others_unchanged(x), wf(x.h, Tof(x))), props=("C03", "C13"))
    c.may_raise("Callback", ensures=others_unchanged, props=("C13",), name="calc_data_id callback raises", when=lambda x: z3.BoolVal(x.a.tag("data_id") == "none"))

    def post(x):
        h0, h, s, p = x.h0, x.h, x.a.self, x.a.parent
        T = Tof(x)
        did = init_id(x)
        nbi, nbd = h0._node_by_id(T), h0._nodes_by_data_id(T)
        k = L.fresh("k", L.Val)
        m = L.fresh("m", L.Ref)
        cs = [
            wf(h, T, pending=s), h.mem(T, s),
            h._data(s) == x.a.data, h._parent(s) == p, h._tree(s) == T, h._children(s) == LNONE, h._data_id(s) == did, h._node_id(s) == nid_of(x),
            h._meta(s) == (x.a.meta if x.a.tag("meta") != "none" else DNONE),
            h.rank(s) == h0.rank(p) + 1,
            fields_same_except(x, NODE_FIELDS + TREE_FIELDS, [s]),
            ForAll([m], h.mem(T, m) == Or(h0.mem(T, m), m == s), patterns=[h.mem(T, m)]) if False else True,
            ForAll([k], h.ddom(nbi, k) == Or(h0.ddom(nbi, k), k == h._node_id(s)), patterns=[h.ddom(nbi, k)]),
            ForAll([k], Implies(k != h._node_id(s), h.dref(nbi, k) == h0.dref(nbi, k)), patterns=[h.dref(nbi, k)]),
            h.dref(nbi, h._node_id(s)) == s,
            h.dcard(nbi) == h0.dcard(nbi) + 1,
            # child lists are untouched (the node is not inserted yet); no sibling carries its id
            fa_childlists_same(x, T),
            Not(clash(x)),
            alloc_monotone(x), dicts_same_except(x, [nbi, nbd]),
            ForAll([m], Implies(m != s, And(h.rank(m) == h0.rank(m), h.pos(m) == h0.pos(m))), patterns=[h.rank(m)]),
        ]
        if typed:
            cs += [h._kind(s) == x.a.kind, L.v_is_str(x.a.kind), x.a.kind != ANY_KIND]
        return And(*cs)

    c.ensures("node initialised and registered (pending insertion); tree otherwise unchanged", post)


def fa_childlists_same(x, T):
    h0, h = x.h0, x.h
    p, i = L.fresh("p", L.Ref), L.fresh("i", L.I)
    return And(ForAll([p], Implies(h0.inP(T, p), And(h._children(p) == h0._children(p), h.clen(p) == h0.clen(p))), patterns=[h._children(p)]),
               ForAll([p, i], Implies(And(h0.inP(T, p), 0 <= i, i < h0.clen(p)), h.child(p, i) == h0.child(p, i)), patterns=[h.litem(h._children(p), i)]))


def obs_dicts_unchanged(x, pre_existing_only=False):
    """every dict is as before (with pre_existing_only: every dict that existed at entry; fresh dicts are free)"""
    h0, h = x.h0, x.h
    cs = []
    d, k = L.fresh("d", L.DRef), L.fresh("k", L.Val)
    ex = (lambda f: Implies(h0.dalloc(d), f)) if pre_existing_only else (lambda f: f)
    if not z3.eq(h0.ddom, h.ddom):
        cs.append(ForAll([d, k], ex(h.ddom(d, k) == h0.ddom(d, k)), patterns=[h.ddom(d, k)]))
    for comp in ("dref", "dlst", "dval"):
        if not z3.eq(h0.f(comp), h.f(comp)):
            cs.append(ForAll([d, k], Implies(And(h0.ddom(d, k), h0.dalloc(d)) if pre_existing_only else h0.ddom(d, k), h.f(comp)(d, k) == h0.f(comp)(d, k)), patterns=[h.f(comp)(d, k)]))
    if not z3.eq(h0.dcard, h.dcard):
        cs.append(ForAll([d], ex(h.dcard(d) == h0.dcard(d)), patterns=[h.dcard(d)]))
    return And(*cs) if cs else z3.BoolVal(True)


@contract(NQ + "__init__", props=("C01", "C02", "C03", "C13"))
def _(c):
    c.param("self", "node").param("data", "data").param("parent", "node").param("data_id", "none", "id").param("node_id", "none", "id").param("meta", "none", "dref")
    c.families = ("plain",)
    init_contract(c, typed=False)


@contract("nutree.typed_tree.TypedNode.__init__", props=("C01", "C02", "C03", "C13"))
def _(c):
    c.param("self", "node").param("kind", "kind").param("data", "data").param("parent", "node").param("data_id", "none", "id").param("node_id", "none", "id").param("meta", "none", "dref")
    c.families = ("typed",)
    init_contract(c, typed=True)
