"""C06 — depth-first iterators against recursive spec sequences (nutree/node.py)."""
from __future__ import annotations

import z3
from z3 import And, If, Implies, Not, Or

from pyvc import logic as L
from pyvc.contract import contract
from .vocab import *  # noqa: F401,F403

NQ = "nutree.node.Node."


def seq_members(x, seq, also_self=False):
    """every element of the sequence is a registered node of the tree (so it is not None and wf speaks about it)"""
    j = L.fresh("j", L.I)
    ok = (lambda e: Or(x.h0.mem(x.T, e), e == x.a.self)) if also_self else (lambda e: x.h0.mem(x.T, e))
    return z3.ForAll([j], Implies(And(0 <= j, j < L.Len(seq)), ok(L.At(seq, j))), patterns=[L.At(seq, j)])


MEMBERS = "every yielded node is a registered node of the tree"


def gen_contract(c):
    c.param("self", "node")
    c.result_tag = "pseq"
    c.is_generator = True
    c.pure()
    c.requires("wf", lambda x: And(wf0(x), self_in_P(x)))


@contract(NQ + "_iter_pre", props=("C06",))
def _(c):
    gen_contract(c)
    c.ensures("yields Pre(self): each child followed by its own pre-order, children in list order", lambda x: L.SeqEq(x.r, L.pre_post(x.h0)[0](x.a.self)))
    c.ensures(MEMBERS, lambda x: seq_members(x, x.r))
    c.loop(1).invariant = lambda x: And(x.p.ghost["yielded"] == L.pre_post(x.h0)[1](x.a.self, x.k), seq_members(x, x.p.ghost["yielded"]))
    c.loop(1).modifies = ()


@contract(NQ + "_iter_post", props=("C06",))
def _(c):
    gen_contract(c)
    c.ensures("yields Post(self): each child preceded by its own post-order", lambda x: L.SeqEq(x.r, L.pre_post(x.h0)[2](x.a.self)))
    c.ensures(MEMBERS, lambda x: seq_members(x, x.r))
    c.loop(1).invariant = lambda x: And(x.p.ghost["yielded"] == L.pre_post(x.h0)[3](x.a.self, x.k), seq_members(x, x.p.ghost["yielded"]))
    c.loop(1).modifies = ()


LEVEL_FLAGS = {"level": (False, False), "level_rtl": (True, False), "zigzag": (False, True), "zigzag_rtl": (True, True)}


def order_post(x, s, m, add_self, callee):
    """x.r is the documented order `m` of the branch below s (with s itself first -- last for post-order -- if add_self)."""
    h0 = x.h0
    import contracts.vocab as V

    if m in LEVEL_FLAGS and V.RT_EVAL is not None:
        E = V.RT_EVAL
        Kids = L.level_spec(h0)[0]
        kids_of = E.seq_fn(Kids.name())
        rev, tog = LEVEL_FLAGS[m]
        lvl, out = list(E.value(Kids(s))), ([E.value(s)] if add_self else [])
        while lvl:
            out += list(reversed(lvl)) if rev else lvl
            rev = (not rev) if tog else rev
            lvl = [c for n in lvl for c in kids_of(n)]
        got = E.value(x.r)
        return z3.BoolVal(len(got) == len(out) and all(a is b for a, b in zip(got, out)))
    side = []
    if m in ("pre", "post"):
        Pre, _, Post, _ = L.pre_post(h0)
        body = Pre(s) if m == "pre" else Post(s)
    else:
        Kids, CML, Lvl, RevAt, LOP = L.level_spec(h0)
        rev, tog = (z3.BoolVal(b) for b in LEVEL_FLAGS[m])
        J = callee_wit(x, callee, "lastJ", (L.I, L.I))(0)
        j = L.fresh("j", L.I)
        body = LOP(s, J, rev, tog)
        side = [J >= 0, L.Len(Lvl(s, J)) == 0, z3.ForAll([j], Implies(And(0 <= j, j < J), L.Len(Lvl(s, j)) > 0), patterns=[Lvl(s, j)])]
    if add_self:
        exp = L.App(body, L.Single(s)) if m == "post" else L.App(L.Single(s), body)
    else:
        exp = body
    return And(L.SeqEq(x.r, exp), *side)


@contract(NQ + "iterator", props=("C06",))
def _(c):
    c.param("self", "node").param("method", "enum:pre", "enum:post", "enum:level", "enum:level_rtl", "enum:zigzag", "enum:zigzag_rtl").param("add_self", "true", "false")
    c.result_tag = "pseq"
    c.is_generator = True
    c.pure()
    c.requires("wf", lambda x: And(wf0(x), self_in_P(x)))

    def post(x):
        return order_post(x, x.a.self, x.a.sv("method").z, z3.is_true(x.a.add_self), "Node._iter_level")

    c.ensures("yields the documented order; add_self puts the start node first (last for post-order)", post)
    c.ensures(MEMBERS + " (or the start node itself)", lambda x: seq_members(x, x.r, also_self=z3.is_true(x.a.add_self)))


@contract("nutree.typed_tree.TypedNode.iterator", props=("C06",))
def _(c):
    c.param("self", "node").param("method", "enum:pre", "enum:post", "enum:level", "enum:level_rtl", "enum:zigzag", "enum:zigzag_rtl").param("add_self", "true", "false")
    c.families = ("typed",)
    c.result_tag = "pseq"
    c.pure()
    c.requires("wf", lambda x: And(wf0(x), self_in_P(x)))

    def post(x):
        return order_post(x, x.a.self, x.a.sv("method").z, z3.is_true(x.a.add_self), "Node.iterator")

    c.ensures("same order as the untyped iterator", post)
    c.ensures(MEMBERS + " (or the start node itself)", lambda x: seq_members(x, x.r, also_self=z3.is_true(x.a.add_self)))


@contract(NQ + "count_descendants", props=("C10",))
def _(c):
    c.param("self", "node").param("leaves_only", "false", "true")
    c.families = ("plain", "typed")
    c.result_tag = "int"
    c.pure()
    c.requires("wf", lambda x: And(wf0(x), self_in_P(x)))

    def post(x):
        seq = L.pre_post(x.h0)[0](x.a.self)
        if z3.is_true(x.a.leaves_only):
            return x.r == L.leaf_count(x.h0)(seq, L.Len(seq))
        return x.r == L.Len(seq)

    c.ensures("result == number of nodes in the pre-order of the branch (leaves_only: of those without children)", post)
    c.loop(1).invariant = lambda x: x.v.i == (L.leaf_count(x.h0)(L.pre_post(x.h0)[0](x.a.self), x.k) if z3.is_true(x.a.leaves_only) else x.k)
    c.loop(1).modifies = ()


@contract("nutree.tree.Tree.iterator", props=("C06",))
def _(c):
    """`for n in tree` / tree.iterator(method): the root's iterator without the root itself."""
    c.param("self", "tree").param("method", "enum:pre", "enum:post", "enum:level", "enum:level_rtl", "enum:zigzag", "enum:zigzag_rtl")
    c.families = ("plain", "typed")
    c.result_tag = "pseq"
    c.pure()
    c.requires("wf", lambda x: wf0(x))

    def post(x):
        return order_post(x, x.h0._root(x.a.self), x.a.sv("method").z, False, "Node.iterator")

    c.ensures("yields the documented order of the whole tree: every node once, the invisible root never", post)

    def members(x):
        j = L.fresh("j", L.I)
        return z3.ForAll([j], Implies(And(0 <= j, j < L.Len(x.r)), x.h0.mem(x.a.self, L.At(x.r, j))), patterns=[L.At(x.r, j)])

    c.ensures(MEMBERS, members)


@contract("nutree.typed_tree.TypedTree.iter_by_type", props=("C15",))
def _(c):
    """yields the nodes of that kind in iteration (pre-)order: the kind-filter of Pre(root), a recursive spec
    sequence (logic.filt_kind); with ANY_KIND every node."""
    c.param("self", "tree").param("kind", "kind", "anykind")
    c.families = ("typed",)
    c.result_tag = "pseq"
    c.is_generator = True
    c.pure()
    c.requires("wf", lambda x: wf0(x))
    c.requires("kind is a str", lambda x: kind_is_str(x) if not z3.eq(x.a.kind, ANY_KIND) else True)

    def post(x):
        h0 = x.h0
        seq = L.pre_post(h0)[0](h0._root(x.a.self))
        if z3.eq(x.a.kind, ANY_KIND):
            return L.SeqEq(x.r, seq)
        return L.SeqEq(x.r, L.filt_kind(h0)(seq, x.a.kind, L.Len(seq)))

    c.ensures("yields exactly the nodes of that kind, in pre-order (every node for ANY_KIND)", post)
    c.loop(1).invariant = lambda x: x.p.ghost["yielded"] == L.filt_kind(x.h0)(L.pre_post(x.h0)[0](x.h0._root(x.a.self)), x.a.kind, x.k)
    c.loop(1).modifies = ()


@contract(NQ + "_search", props=("C09",))
def _(c):
    """The generator behind pattern / predicate searches.  Proved for a *callable* match (the user predicate is a pure
    oracle): it yields the nodes of ([self] +) Pre(self) for which the predicate is true, in order, and stops right
    after the k-th match.  The regex forms (str / (str, flags)) go through `re` and are assumed (bounded tier)."""
    c.param("self", "node").param("match", "cb", "val").param("max_results", "none", "int").param("add_self", "true", "false")
    c.families = ("plain", "typed")
    c.result_tag = "pseq"
    c.is_generator = True
    c.pure()
    c.assumed_variants = lambda tags: tags["match"] != "cb"
    c.prune = True  # a callable match never reaches the regex branches
    c.assumed_variants_reason = "Node._search with a pattern: re.compile / fullmatch on node.name; checked by the bounded tier (native/props/c09.py)"
    c.requires("wf, self in P(T)", lambda x: And(wf0(x), self_in_P(x)))
    c.requires("limit >= 0", lambda x: x.a.max_results >= 0 if x.a.tag("max_results") == "int" else True)
    c.may_raise("Callback", ensures=lambda x: z3.BoolVal(not (x.h0.changed(x.h) - set(L.GHOST))), props=("C13",), name="the predicate raises: nothing was written")

    def seq_of(x):
        Pre = L.pre_post(x.h0)[0]
        s = x.a.self
        return L.App(L.Single(s), Pre(s)) if z3.is_true(x.a.add_self) else Pre(s)

    def post(x):
        if x.a.tag("match") != "val":
            return z3.BoolVal(True)
        return Implies(L.v_callable(x.a.match), predicate_sem(x))  # a pattern (str / tuple) is not callable: nothing is claimed

    def predicate_sem(x):
        seq = seq_of(x)
        n = L.Len(seq)
        F = L.filt_cb()
        cb = x.a.match
        lim = x.a.max_results if x.a.tag("max_results") == "int" else None
        import contracts.vocab as V

        if V.RT_EVAL is not None:
            E = V.RT_EVAL
            if not callable(E.consts["match"]):
                return z3.BoolVal(True)
            want = [e for e in E.value(seq) if E.consts["match"](e)]
            if lim is not None and E.value(lim) > 0:
                want = want[: E.value(lim)]
            got = E.value(x.r)
            return z3.BoolVal(len(got) == len(want) and all(a is b for a, b in zip(got, want)))
        full = And(L.SeqEq(x.r, F(seq, cb, n)), (Implies(lim > 0, L.Len(x.r) < lim) if lim is not None else True))
        if lim is None:
            return full
        # index of the element after which the generator stopped: the loop's ghost counter while this contract is proved,
        # an existential witness (attached to the result) where it is used
        J = x.p.ghost.get("loopghost", {}).get("j") if getattr(x, "p", None) is not None else None
        if J is None:
            J = wit(x, "cutJ", (L.I, L.I))(0)
        phi_J = L.v_truthy(L.oracle_fn("r")(cb, L.At(seq, J)))
        # ... the J-th element is the k-th match: it is the last one yielded, and k-1 matches precede it
        cut = And(lim > 0, L.Len(x.r) == lim, 0 <= J, J < n, L.SeqEq(x.r, F(seq, cb, J + 1)), phi_J,
                  L.At(x.r, lim - 1) == L.At(seq, J), L.Len(F(seq, cb, J)) == lim - 1)
        return Or(full, cut)

    c.ensures("yields [n in ([self] +) Pre(self) | match(n)] in order, stopping right after the k-th match", post)
    lp = c.loop(1)
    lp.ghost["j"] = (lambda x: z3.IntVal(0), lambda x: x.g.j + 1)

    def inv(x):
        seq = seq_of(x)
        F = L.filt_cb()
        y = x.p.ghost["yielded"]
        cs = [y == F(seq, x.a.match, x.k), x.v.count == L.Len(y), x.g.j == x.k, x.v.cb_match == x.a.match]
        if x.a.tag("max_results") == "int":
            cs.append(Implies(x.a.max_results > 0, x.v.count < x.a.max_results))
        return And(*cs)

    lp.invariant = inv
    lp.modifies = ()


# ------------------------------------------------------------------ breadth-first orders
def rep(h, l, S):
    """list object l (content in heap h) holds the sequence S; None stands for the empty sequence"""
    i = L.fresh("i", L.I)
    return If(l == LNONE, L.Len(S) == 0, And(h.llen(l) == L.Len(S), z3.ForAll([i], Implies(And(0 <= i, i < L.Len(S)), h.litem(l, i) == L.At(S, i)), patterns=[h.litem(l, i)])))


def members_of(x, S):
    j = L.fresh("j", L.I)
    return z3.ForAll([j], Implies(And(0 <= j, j < L.Len(S)), x.h0.mem(x.T, L.At(S, j))), patterns=[L.At(S, j)])


@contract(NQ + "_iter_level", props=("C06",))
def _(c):
    """Level order, level by level: level j (Lvl(self, j)) as a whole, reversed when RevAt(revert, toggle, j); stops at
    the first empty level J.  The result is LOP(self, J, revert, toggle) (logic.level_spec)."""
    c.param("self", "node").param("revert", "true", "false").param("toggle", "true", "false")
    c.families = ("plain", "typed")
    c.result_tag = "pseq"
    c.is_generator = True
    c.pure()
    c.modifies("llen", "litem", "lalloc")
    c.requires("wf, self in P(T)", lambda x: And(wf0(x), self_in_P(x)))

    def post(x):
        h0, s = x.h0, x.a.self
        Kids, CML, Lvl, RevAt, LOP = L.level_spec(h0)
        import contracts.vocab as V

        if V.RT_EVAL is not None:
            E = V.RT_EVAL
            kids_of = E.seq_fn(Kids.name())  # the interpretation of Kids on concrete nodes
            lvl, out, rev = list(E.value(Kids(s))), [], z3.is_true(x.a.revert)
            while lvl:
                out += list(reversed(lvl)) if rev else lvl
                if z3.is_true(x.a.toggle):
                    rev = not rev
                lvl = [c for n in lvl for c in kids_of(n)]
            got = E.value(x.r)
            return z3.BoolVal(len(got) == len(out) and all(a is b for a, b in zip(got, out)))
        J = x.p.ghost.get("loopghost", {}).get("j") if getattr(x, "p", None) is not None else None
        if J is None:
            J = wit(x, "lastJ", (L.I, L.I))(0)
        j = L.fresh("j", L.I)
        return And(J >= 0, L.SeqEq(x.r, LOP(s, J, x.a.revert, x.a.toggle)), L.Len(Lvl(s, J)) == 0,
                   z3.ForAll([j], Implies(And(0 <= j, j < J), L.Len(Lvl(s, j)) > 0), patterns=[Lvl(s, j)]))

    c.ensures("yields the levels below self one after the other (level j reversed iff RevAt(revert, toggle, j)) up to the first empty level", post)
    c.ensures("pre-existing lists are unchanged", lambda x: unchanged_lists(x))
    c.ensures(MEMBERS, lambda x: seq_members(x, x.r))
    w = c.loop(1)
    w.ghost["j"] = (lambda x: z3.IntVal(0), lambda x: x.g.j + 1)

    def inv_while(x):
        h0, h, s = x.h0, x.h, x.a.self
        Kids, CML, Lvl, RevAt, LOP = L.level_spec(h0)
        j = x.g.j
        jj = L.fresh("jj", L.I)
        S = Lvl(s, j)
        return And(j >= 0, L.SeqEq(x.p.ghost["yielded"], LOP(s, j, x.a.revert, x.a.toggle)), x.v.revert == RevAt(x.a.revert, x.a.toggle, j),
                   rep(h, x.v.children, S), members_of(x, S), unchanged_lists(x), seq_members(x, x.p.ghost["yielded"]),
                   z3.ForAll([jj], Implies(And(0 <= jj, jj < j), L.Len(Lvl(s, jj)) > 0), patterns=[Lvl(s, jj)]))

    w.invariant = inv_while
    w.modifies = ("llen", "litem", "lalloc")
    f = c.loop(2)

    def inv_for(x):
        h0, h, s = x.h0, x.h, x.a.self
        Kids, CML, Lvl, RevAt, LOP = L.level_spec(h0)
        S = Lvl(s, x.g.j) if hasattr(x.g, "j") else Lvl(s, x.p.ghost["loopghost"]["j"])
        nl = x.v.next_level
        return And(nl != LNONE, Not(h0.lalloc(nl)), h.lalloc(nl), nl != x.v.children, rep(h, nl, CML(S, x.k)), members_of(x, CML(S, x.k)),
                   rep(h, x.v.children, S), x.v.children != LNONE, unchanged_lists(x))

    f.invariant = inv_for
    f.modifies = ("llen", "litem")


for _w in ("_iter_level_rtl", "_iter_zigzag", "_iter_zigzag_rtl"):
    @contract(NQ + _w)
    def _(c):
        """one-line delegations to _iter_level(revert=, toggle=): executed in place"""
        c.param("self", "node")
        c.inline = True


# ------------------------------------------------------------------ calc_height: a nested recursive function with a `nonlocal` accumulator
def _max(a, b):
    return If(a >= b, a, b)


@contract(NQ + "calc_height.<locals>._ch", props=("C10",))
def _(c):
    """_ch(n, h): visits the branch below n at depth h and raises the captured `height` to h + Ht(n) if that is larger
    (Ht: longest downward path, logic.height_spec).  The loop variable shadows the parameter `n`; clauses speak
    about the entry value x.a.n.  Termination of the recursion is not proved (no measure that is bounded without Ht >= 0)."""
    c.param("n", "node").param("h", "int")
    c.captures = {"height": ("int", "inout")}
    c.families = ("plain", "typed")
    c.result_tag = "none"
    c.pure()
    T = lambda x: x.h0._tree(x.a.n)  # noqa: E731
    c.requires("wf(tree of n), n in P", lambda x: And(wf(x.h0, T(x)), x.h0.inP(T(x), x.a.n)))

    def post(x):
        Ht, _ = L.height_spec(x.h0)
        return x.a.height__out == _max(x.a.height__in, x.a.h + Ht(x.a.n))

    c.ensures("height' == max(height, h + Ht(n))", post)

    def inv(x):
        _, HtL = L.height_spec(x.h0)
        return x.v.height == If(x.k == 0, x.a.height__in, _max(x.a.height__in, x.a.h + HtL(x.a.n, x.k)))

    c.loop(1).invariant = inv
    c.loop(1).modifies = ()


@contract(NQ + "calc_height", props=("C10",))
def _(c):
    c.param("self", "node")
    c.families = ("plain", "typed")
    c.result_tag = "int"
    c.pure()
    c.requires("wf", lambda x: And(wf0(x), self_in_P(x)))
    c.ensures("result == max(0, Ht(self)): the longest downward path (0 for leaves)", lambda x: x.r == _max(0, L.height_spec(x.h0)[0](x.a.self)))


@contract("nutree.tree.Tree.calc_height", props=("C10",))
def _(c):
    c.param("self", "tree")
    c.families = ("plain", "typed")
    c.result_tag = "int"
    c.pure()
    c.requires("wf", lambda x: wf0(x))
    c.ensures("result == max(0, Ht(root)): the maximum depth of all nodes", lambda x: x.r == _max(0, L.height_spec(x.h0)[0](x.h0._root(x.a.self))))


# ------------------------------------------------------------------ visit helpers: the callback's event trace against the visit grammar
def _others_untouched(x, cb):
    cbv = L.fresh("cbv", L.Val)
    return z3.ForAll([cbv], Implies(cbv != cb, x.h.tlen(cbv) == x.h0.tlen(cbv)), patterns=[x.h.tlen(cbv)])


def _visit_helper(name, which):
    """_visit_pre / _visit_post(self, callback, memo): the events appended to the callback's trace are exactly a pre- /
    post-order visit of the branch `self` (logic.visit_spec): normal return = ran to completion; StopTraversal = ended by a
    stop event; any other exception = ended by an error event.  The tree is not written."""
    @contract(NQ + name, props=("C06",))
    def _(c):
        c.param("self", "node").param("callback", "cb").param("memo", "val", "dref")
        c.families = ("plain", "typed")
        c.result_tag = "none"
        c.modifies("tlen")
        c.requires("wf", lambda x: And(wf0(x), self_in_P(x)))

        def seg(x, st):
            V = L.visit_spec(x.h0)[0 if which == "pre" else 2]
            cb = x.a.callback
            return And(V(cb, x.a.self, x.h0.tlen(cb), x.h.tlen(cb), st), _others_untouched(x, cb))

        c.ensures(f"the new events are the complete {which}-order visit of the branch", lambda x: seg(x, L.ST_DONE))
        stop = c.may_raise("StopTraversal", ensures=lambda x: seg(x, L.EV_STOP), name="ended by a stop event")
        for exc in ("ValueError", "TypeError", "UserError", "SelectBranch"):
            c.may_raise(exc, ensures=lambda x: seg(x, L.EV_ERR), name=f"ended by an error event ({exc})")
        for r in c.raises_:
            r.havoc = ("tlen",)

        def inv(x):
            VK = L.visit_spec(x.h0)[1 if which == "pre" else 3]
            cb = x.a.callback
            first = x.h0.tlen(cb) + (1 if which == "pre" else 0)
            return And(VK(cb, x.a.self, x.k, first, x.h.tlen(cb)), _others_untouched(x, cb))

        c.loop(1).invariant = inv
        c.loop(1).modifies = ("tlen",)
    return _


_visit_helper("_visit_pre", "pre")
_visit_helper("_visit_post", "post")


@contract(NQ + "visit", props=("C06", "C13"))
def _(c):
    """visit(callback, add_self, method, memo): the events of the callback's trace are the documented visit -- with add_self
    the pre- / post-order visit of the branch `self` itself, without it the visit of its children in order (logic.visit_spec:
    VPre / VPost, VKp / VKq) -- run to completion, or ended by a stop event (then the call still returns normally: the
    StopTraversal is caught), or ended by an error event (the exception escapes).  A method without a handler
    (level_rtl, zigzag, ..., random, unordered) is refused with NotImplementedError before any callback is made.
    LEVEL_ORDER is an assumed variant (bounded tier).  The tree is not written."""
    c.param("self", "node").param("callback", "cb").param("add_self", "true", "false")
    c.param("method", "enum:pre", "enum:post", "enum:level", "enum:level_rtl", "enum:zigzag", "enum:zigzag_rtl", "enum:random", "enum:unordered").param("memo", "none", "val")
    c.families = ("plain", "typed")
    c.result_tag = "any"
    c.result_alternatives = ("none", "val")
    c.modifies("tlen", "dalloc", "ddom", "dcard")
    c.assumed_variants = lambda tags: tags["method"] == "enum:level"
    c.assumed_variants_reason = "Node.visit(method=LEVEL_ORDER): _visit_level has no contract (a level-order grammar with skip sets was not built); decided by the bounded tier (native/props/c06.py)"
    c.requires("wf", lambda x: And(wf0(x), self_in_P(x)))
    handled = lambda x: x.a.sv("method").z in ("pre", "post", "level")  # noqa: E731

    def seg(x, sts):
        m = x.a.sv("method").z
        if m not in ("pre", "post"):
            return z3.BoolVal(True)
        VPre, _VKp, VPost, _VKq, VKpS, VKqS = L.visit_spec(x.h0)
        cb, s = x.a.callback, x.a.self
        i0, j = x.h0.tlen(cb), x.h.tlen(cb)
        if z3.is_true(x.a.add_self):
            V = VPre if m == "pre" else VPost
        else:
            V = VKpS if m == "pre" else VKqS
        return And(Or(*[V(cb, s, i0, j, st) for st in sts]), _others_untouched(x, cb))

    c.ensures("the new events are the documented visit, complete or ended by a stop event", lambda x: seg(x, (L.ST_DONE, L.EV_STOP)) if handled(x) else z3.BoolVal(True))
    c.ensures("never returns normally for a method without a handler", lambda x: z3.BoolVal(handled(x)))
    c.raises("NotImplementedError", when=lambda x: z3.BoolVal(not handled(x)), ensures=lambda x: z3.BoolVal(not (x.h0.changed(x.h) - {"lalloc", "dalloc", "alloc"})), props=("C06", "C13"))
    for exc in ("ValueError", "TypeError", "UserError", "SelectBranch"):
        r = c.may_raise(exc, ensures=lambda x: seg(x, (L.EV_ERR,)), name=f"ended by an error event ({exc})", when=lambda x: z3.BoolVal(handled(x)))
    for r in c.raises_:
        if r.exc != "NotImplementedError":
            r.havoc = ("tlen",)

    def inv(x):
        m = x.a.sv("method").z
        VK = L.visit_spec(x.h0)[1 if m == "pre" else 3]
        cb = x.a.callback
        first = x.h0.tlen(cb) + (1 if (z3.is_true(x.a.add_self) and m == "pre") else 0)
        return And(VK(cb, x.a.self, x.k, first, x.h.tlen(cb)), _others_untouched(x, cb), x.g.kk == x.k, x.g.mm == x.h.tlen(cb))

    c.loop(1).invariant = inv
    c.loop(1).modifies = ("tlen",)
    # ghost: index of the child being visited and of the first event of its visit (read where an exception leaves the loop)
    c.loop(1).ghost["kk"] = (lambda x: z3.IntVal(0), lambda x: x.g.kk + 1)
    c.loop(1).ghost["mm"] = (lambda x: x.h.tlen(x.a.callback), lambda x: x.h.tlen(x.a.callback))


@contract("nutree.tree.Tree.visit", props=("C06", "C13"))
def _(c):
    """Tree.visit = the root's visit without the root itself."""
    c.param("self", "tree").param("callback", "cb").param("method", "enum:pre", "enum:post", "enum:level", "enum:level_rtl", "enum:zigzag", "enum:zigzag_rtl", "enum:random", "enum:unordered").param("memo", "none", "val")
    c.families = ("plain", "typed")
    c.result_tag = "any"
    c.result_alternatives = ("none", "val")
    c.modifies("tlen", "dalloc", "ddom", "dcard")
    c.assumed_variants = lambda tags: tags["method"] == "enum:level"
    c.assumed_variants_reason = "Tree.visit(method=LEVEL_ORDER): see Node.visit"
    c.requires("wf", lambda x: wf0(x))
    handled = lambda x: x.a.sv("method").z in ("pre", "post", "level")  # noqa: E731

    def seg(x, sts):
        m = x.a.sv("method").z
        if m not in ("pre", "post"):
            return z3.BoolVal(True)
        V = L.visit_spec(x.h0)[4 if m == "pre" else 5]
        cb, s = x.a.callback, x.h0._root(x.a.self)
        return And(Or(*[V(cb, s, x.h0.tlen(cb), x.h.tlen(cb), st) for st in sts]), _others_untouched(x, cb))

    c.ensures("the new events are the visit of all top-level branches in order, complete or ended by a stop event", lambda x: seg(x, (L.ST_DONE, L.EV_STOP)) if handled(x) else z3.BoolVal(True))
    c.ensures("never returns normally for a method without a handler", lambda x: z3.BoolVal(handled(x)))
    c.raises("NotImplementedError", when=lambda x: z3.BoolVal(not handled(x)), ensures=lambda x: z3.BoolVal(not (x.h0.changed(x.h) - {"lalloc", "dalloc", "alloc"})), props=("C06", "C13"))
    for exc in ("ValueError", "TypeError", "UserError", "SelectBranch"):
        c.may_raise(exc, ensures=lambda x: seg(x, (L.EV_ERR,)), name=f"ended by an error event ({exc})", when=lambda x: z3.BoolVal(handled(x)))
    for r in c.raises_:
        if r.exc != "NotImplementedError":
            r.havoc = ("tlen",)
