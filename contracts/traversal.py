"""C06 — depth-first iterators against recursive spec sequences (nutree/node.py)."""
from __future__ import annotations

import z3
from z3 import And, If, Implies, Not, Or

from pyvc import logic as L
from pyvc.contract import contract
from .vocab import *  # noqa: F401,F403

NQ = "nutree.node.Node."


def gen_contract(c):
    c.param("self", "node")
    c.result_tag = "pseq"
    c.is_generator = True
    c.pure()
    c.requires("wf", lambda x: And(wf0(x), self_in_P(x)))


@contract(NQ + "_iter_pre", props=("C06",))
def _(c):
    gen_contract(c)
    c.ensures("yields Pre(self): each child followed by its own pre-order, children in list order", lambda x: L.SeqEq(x.r, L.pre_post(x.h0)[0](x.a.self)))
    c.loop(1).invariant = lambda x: x.p.ghost["yielded"] == L.pre_post(x.h0)[1](x.a.self, x.k)
    c.loop(1).modifies = ()


@contract(NQ + "_iter_post", props=("C06",))
def _(c):
    gen_contract(c)
    c.ensures("yields Post(self): each child preceded by its own post-order", lambda x: L.SeqEq(x.r, L.pre_post(x.h0)[2](x.a.self)))
    c.loop(1).invariant = lambda x: x.p.ghost["yielded"] == L.pre_post(x.h0)[3](x.a.self, x.k)
    c.loop(1).modifies = ()


@contract(NQ + "iterator", props=("C06",))
def _(c):
    c.param("self", "node").param("method", "enum:pre", "enum:post").param("add_self", "true", "false")
    c.result_tag = "pseq"
    c.is_generator = True
    c.pure()
    c.requires("wf", lambda x: And(wf0(x), self_in_P(x)))

    def post(x):
        Pre, _, Post, _ = L.pre_post(x.h0)
        s = x.a.self
        m = x.a.sv("method").z
        body = Pre(s) if m == "pre" else Post(s)
        if z3.is_true(x.a.add_self):
            exp = L.App(L.Single(s), body) if m == "pre" else L.App(body, L.Single(s))
        else:
            exp = body
        return L.SeqEq(x.r, exp)

    c.ensures("yields the documented order; add_self puts the start node first (last for post-order)", post)


@contract("nutree.typed_tree.TypedNode.iterator", props=("C06",))
def _(c):
    c.param("self", "node").param("method", "enum:pre", "enum:post").param("add_self", "true", "false")
    c.families = ("typed",)
    c.result_tag = "pseq"
    c.pure()
    c.requires("wf", lambda x: And(wf0(x), self_in_P(x)))

    def post(x):
        Pre, _, Post, _ = L.pre_post(x.h0)
        s = x.a.self
        m = x.a.sv("method").z
        body = Pre(s) if m == "pre" else Post(s)
        if z3.is_true(x.a.add_self):
            exp = L.App(L.Single(s), body) if m == "pre" else L.App(body, L.Single(s))
        else:
            exp = body
        return L.SeqEq(x.r, exp)

    c.ensures("same order as the untyped iterator", post)


@contract(NQ + "count_descendants", props=("C10",))
def _(c):
    c.param("self", "node").param("leaves_only", "false")
    c.families = ("plain",)
    c.result_tag = "int"
    c.pure()
    c.requires("wf", lambda x: And(wf0(x), self_in_P(x)))
    c.ensures("result == number of nodes in the pre-order of the branch", lambda x: x.r == L.Len(L.pre_post(x.h0)[0](x.a.self)))
    c.loop(1).invariant = lambda x: x.v.i == x.k
    c.loop(1).modifies = ()


@contract("nutree.tree.Tree.iterator", props=("C06",))
def _(c):
    """`for n in tree` / tree.iterator(method): the root's iterator without the root itself."""
    c.param("self", "tree").param("method", "enum:pre", "enum:post")
    c.families = ("plain",)
    c.result_tag = "pseq"
    c.pure()
    c.requires("wf", lambda x: wf0(x))

    def post(x):
        Pre, _, Post, _ = L.pre_post(x.h0)
        root = x.h0._root(x.a.self)
        return L.SeqEq(x.r, Pre(root) if x.a.sv("method").z == "pre" else Post(root))

    c.ensures("yields Pre(root) / Post(root): every node once, the invisible root never", post)
