"""Shared specification vocabulary (DESIGN §4) for the sidecar contracts."""
from __future__ import annotations

import z3
from z3 import And, BoolVal, Exists, ForAll, If, Implies, IntVal, Not, Or

from pyvc import logic as L
from pyvc.logic import wf, wf_clauses, NONE, LNONE, DNONE, VNONE, ANY_KIND

I = L.I


def T_of(x):
    """tree of `self` in the entry heap (self may be a Tree or a Node)."""
    return x.T


def wf0(x, only=None):
    return wf(x.h0, x.T, only=only)


def wf1(x, only=None):
    return wf(x.h, x.T, only=only)


def self_in_P(x):
    return x.h0.inP(x.T, x.a.self)


def self_member(x):
    return x.h0.mem(x.T, x.a.self)


def kind_is_str(x, name="kind"):
    k = getattr(x.a, name)
    return And(L.v_is_str(k), k != ANY_KIND, k != VNONE)


def fa_int(lo, hi, body, pat=None, name="i"):
    """forall i in [lo, hi): body(i)   with an explicit trigger pat(i)."""
    i = L.fresh(name, I)
    b = body(i)
    pats = pat(i) if pat else None
    if pats is not None and not isinstance(pats, (list, tuple)):
        pats = [pats]
    if pats:
        return ForAll([i], Implies(And(lo <= i, i < hi), b), patterns=pats)
    return ForAll([i], Implies(And(lo <= i, i < hi), b))


def ex_int(lo, hi, body, name="j"):
    j = L.fresh(name, I)
    return Exists([j], And(lo <= j, j < hi, body(j)))


RT_EVAL = None  # set by pyvc/rtdrive.py while contracts are evaluated on concrete snapshots


def is_filter(h_res, res, n, src_item, phi, emb, inv, h_src=None):
    """`res` (a list object, content read in heap h_res) is the order-preserving filter of
    the sequence (n, src_item) by predicate phi, witnessed by the strictly increasing
    embedding emb and its partial inverse inv."""
    if RT_EVAL is not None:
        # run-time cross-check (pyvc/rtcheck.py): the witnesses are existential; on concrete snapshots the statement
        # "res is the order-preserving filter of (n, src_item) by phi" is decided directly
        E = RT_EVAL
        nn = E.value(n)
        keep = [E.value(src_item(IntVal(kk))) for kk in range(nn) if E.holds(phi(src_item(IntVal(kk))))]
        r = E.value(res)
        got = [E.value(h_res.litem(res, IntVal(ii))) for ii in range(E.value(h_res.llen(res)))]
        return BoolVal(r is not None and len(got) == len(keep) and all(a is b for a, b in zip(got, keep)))
    ln = h_res.llen(res)
    i, j, k = L.fresh("i", I), L.fresh("j", I), L.fresh("k", I)
    return And(
        res != LNONE, ln >= 0, ln <= n,
        ForAll([i], Implies(And(0 <= i, i < ln), And(0 <= emb(i), emb(i) < n, h_res.litem(res, i) == src_item(emb(i)), phi(src_item(emb(i))), inv(emb(i)) == i)), patterns=[h_res.litem(res, i), emb(i)]),
        ForAll([i, j], Implies(And(0 <= i, i < j, j < ln), emb(i) < emb(j)), patterns=[z3.MultiPattern(emb(i), emb(j))]),
        ForAll([k], Implies(And(0 <= k, k < n, phi(src_item(k))), And(0 <= inv(k), inv(k) < ln, emb(inv(k)) == k, h_res.litem(res, inv(k)) == src_item(k))), patterns=[inv(k), src_item(k)]),
        # ground consequences that E-matching would not reach by itself
        Implies(ln > 0, And(0 <= emb(0), emb(0) < n, phi(src_item(emb(0))), h_res.litem(res, 0) == src_item(emb(0)))),
        Implies(ln > 0, And(0 <= emb(ln - 1), emb(ln - 1) < n, phi(src_item(emb(ln - 1))), h_res.litem(res, ln - 1) == src_item(emb(ln - 1)))),
    )


def wit(x, name, sorts):
    """Ghost witness function attached to a result: the executor's actual witness when the
    contract is *proved*, a fresh symbol when the contract is *used* at a call site."""
    res = x.res
    if res is not None and isinstance(res.extra, dict) and name in res.extra:
        return res.extra[name]
    cache = x.__dict__.setdefault("_wit", {})
    if name not in cache:
        cache[name] = z3.Function(f"{name}!{L.fresh_id()}", *sorts)
        if res is not None:
            if not isinstance(res.extra, dict):
                res.extra = {}
            res.extra[name] = cache[name]
    return cache[name]


def callee_wit(x, callee, name, sorts):
    """Witness `name` that the contract of `callee` (short name, e.g. 'Node._search') introduced at the most recent call
    on this path; a fresh symbol when this clause is itself only *used* (no path) or no such call happened."""
    p = getattr(x, "p", None)
    if p is not None:
        w = p.ghost.get("callee_wits", {}).get(callee, {})
        if name in w:
            return w[name]
    return wit(x, name, sorts)


def unchanged_lists(x):
    """no pre-existing list object changed (content frame for pure functions that allocate)."""
    l = L.fresh("l", L.LRef)
    i = L.fresh("i", I)
    cs = [
        ForAll([l], Implies(x.h0.lalloc(l), x.h.llen(l) == x.h0.llen(l)), patterns=[x.h.llen(l)]),
        ForAll([l, i], Implies(x.h0.lalloc(l), x.h.litem(l, i) == x.h0.litem(l, i)), patterns=[x.h.litem(l, i)]),
    ]
    if not z3.eq(x.h0.lalloc, x.h.lalloc):
        cs.append(ForAll([l], Implies(x.h0.lalloc(l), x.h.lalloc(l)), patterns=[x.h.lalloc(l)]))
    return And(*cs)


def fresh_list(x, l):
    return And(l != LNONE, Not(x.h0.lalloc(l)))
