"""Ghost lemmas (sidecar source, parsed by pyvc like the real modules, never executed as part of
nutree).  A lemma is a recursive ghost function whose body consists of case splits and calls to
itself; verifying it against its contract with a `decreases` measure is an induction proof.
The verified statement (forall params. requires -> ensures) may then be assumed by contracts
that declare `uses_lemmas`."""


def lemma_desc_rank(x, a):
    # x is a proper descendant of a  ==>  rank(x) > rank(a)     (induction on rank(x))
    p = x._parent
    if p is a:
        return
    lemma_desc_rank(p, a)
