"""C14 / C12 / C05 — the parts of (de)serialisation within the engine's reach."""
from __future__ import annotations

import z3
from z3 import And, If, Implies, Not, Or

from pyvc import logic as L
from pyvc.contract import contract
from .vocab import *  # noqa: F401,F403
from .registry import NODE_FIELDS, TREE_FIELDS, fields_same_except, obs_dicts_unchanged
from .mutators import obs_unchanged_but_fresh

NQ = "nutree.node.Node."
TQ = "nutree.tree.Tree."


@contract(NQ + "to_dict", props=("C14",))
def _(c):
    """ASSUMED here (recursion building nested JSON values), checked by the bounded tier (c14)."""
    c.param("self", "node").param("mapper", "none", "cb")
    c.result_tag = "dref"
    c.modifies("ddom", "dval", "dcard", "dalloc", "llen", "litem", "lalloc")
    c.assumed = True
    c.assumed_reason = "nested JSON value construction; decided by native/props/c14.py"
    c.requires("self is a member", lambda x: And(wf0(x), self_member(x)))
    c.ensures("the tree is not modified; the result is a fresh dict", lambda x: And(obs_unchanged_but_fresh(x), x.r != DNONE, Not(x.h0.dalloc(x.r))))
    c.may_raise("Callback", ensures=lambda x: obs_unchanged_but_fresh(x), name="mapper raises")


@contract(TQ + "to_dict_list", props=("C14", "C13"))
def _(c):
    c.param("self", "tree").param("mapper", "none", "cb")
    c.result_tag = "lref"
    c.modifies("ddom", "dval", "dcard", "dalloc", "llen", "litem", "lalloc", "held")
    c.requires("wf", lambda x: wf0(x))
    c.may_raise("Callback", ensures=lambda x: obs_unchanged_but_fresh(x), props=("C13",), name="mapper raises")
    c.ensures("one entry per top-level node; the tree is not modified; no exception on any well-formed tree (incl. an emptied one)",
              lambda x: And(obs_unchanged_but_fresh(x), x.r != LNONE, x.h.llen(x.r) == x.h0.clen(x.h0._root(x.a.self))))
    c.loop(1).invariant = lambda x: And(x.h.llen(x.v.res) == x.k, Not(x.h0.lalloc(x.v.res)), x.h.lalloc(x.v.res), x.v.res != LNONE, obs_unchanged_but_fresh(x), wf(x.h, x.a.self))


def _lock_contract(qual, delta):
    @contract(qual, props=("C18",))
    def _(c):
        c.param("self", "tree")
        if delta < 0:
            c.param("type", "none", "data").param("value", "none", "data").param("traceback", "none", "data")
        c.result_tag = "tree" if delta > 0 else "none"
        c.modifies("held")
        c.assumed = True
        c.assumed_reason = "body (self._lock.acquire()/release()) is decided by the effect checker pyvc/lockcheck.py; threading.RLock assumed"
        o = L.fresh("o", L.Ref)
        c.ensures("held depth of self._lock changes by %+d; nothing else" % delta,
                  lambda x: And(x.h.held(x.h0._lock(x.a.self)) == x.h0.held(x.h0._lock(x.a.self)) + delta,
                                z3.ForAll([o], Implies(o != x.h0._lock(x.a.self), x.h.held(o) == x.h0.held(o)), patterns=[x.h.held(o)]),
                                (x.r == x.a.self) if delta > 0 else True))
    return _


_lock_contract(TQ + "__enter__", +1)
_lock_contract(TQ + "__exit__", -1)


@contract(NQ + "_make_list_entry", props=("C12", "C05"))
def _(c):
    """payload of one node in the flat (save) format, before the mapper and the key/value maps:
    a plain-string node with the default id is the string itself; otherwise a fresh dict holding 'str' (string data
    only) and 'data_id' exactly when the id is not hash(data) -- a *falsy* custom id (0, '') included."""
    c.param("cls", "cls:Node").param("node", "node")
    c.families = ("plain",)
    c.result_tag = "any"
    c.result_alternatives = ("val", "dref")
    c.modifies("ddom", "dval", "dcard", "dalloc")
    c.requires("node is allocated", lambda x: x.a.node != NONE)

    def post(x):
        h0, h, n = x.h0, x.h, x.a.node
        data, did = h0._data(n), h0._data_id(n)
        custom = Not(L.v_eq(did, L.v_hash(data)))
        is_str = L.v_is_str(data)
        from pyvc.exprs import str_const

        kS, kI = str_const("str"), str_const("data_id")
        k = L.fresh("k", L.Val)
        if x.res.tag != "dref":  # the plain string
            return And(is_str, Not(custom), x.r == data)
        d = x.r
        return And(d != DNONE, Not(h0.dalloc(d)), Or(Not(is_str), custom),
                   h.ddom(d, kS) == is_str, Implies(is_str, h.dval(d, kS) == data),
                   h.ddom(d, kI) == custom, Implies(custom, h.dval(d, kI) == did),
                   ForAll([k], Implies(h.ddom(d, k), Or(k == kS, k == kI)), patterns=[h.ddom(d, k)]))

    c.ensures("str node with default id -> the string; else fresh dict with 'str' iff string data and 'data_id' iff custom id", post)
    c.ensures("dicts that existed are unchanged", lambda x: obs_dicts_unchanged(x, pre_existing_only=True))


@contract("nutree.typed_tree.TypedNode._make_list_entry", props=("C12", "C05"))
def _(c):
    """typed payload: always a fresh dict; 'str' iff string data, 'data_id' iff the id is not hash(data), 'kind' = the node's kind"""
    c.param("cls", "cls:TypedNode").param("node", "node")
    c.families = ("typed",)
    c.prune = True  # the base entry of non-string data is never the plain-string form
    c.result_tag = "dref"
    c.modifies("ddom", "dval", "dcard", "dalloc")
    c.requires("node is a typed node with a kind", lambda x: And(x.a.node != NONE, L.cls_of(x.a.node) == L.CLS["TypedNode"], x.h0._kind(x.a.node) != ANY_KIND, x.h0._kind(x.a.node) != VNONE, L.v_is_str(x.h0._kind(x.a.node))))

    def post(x):
        h0, h, n = x.h0, x.h, x.a.node
        data, did = h0._data(n), h0._data_id(n)
        custom = Not(L.v_eq(did, L.v_hash(data)))
        is_str = L.v_is_str(data)
        from pyvc.exprs import str_const

        kS, kI, kK = str_const("str"), str_const("data_id"), str_const("kind")
        k = L.fresh("k", L.Val)
        d = x.r
        return And(d != DNONE, Not(h0.dalloc(d)),
                   h.ddom(d, kS) == is_str, Implies(is_str, h.dval(d, kS) == data),
                   h.ddom(d, kI) == custom, Implies(custom, h.dval(d, kI) == did),
                   h.ddom(d, kK), h.dval(d, kK) == h0._kind(n),
                   ForAll([k], Implies(h.ddom(d, k), Or(k == kS, k == kI, k == kK)), patterns=[h.ddom(d, k)]))

    c.ensures("fresh dict with 'str' iff string data, 'data_id' iff custom id, 'kind'", post)
    c.ensures("dicts that existed are unchanged", lambda x: obs_dicts_unchanged(x, pre_existing_only=True))
