"""C14 / C12 / C05 — the parts of (de)serialisation within the engine's reach."""
from __future__ import annotations

import z3
from z3 import And, If, Implies, Not, Or

from pyvc import logic as L
from pyvc.contract import contract
from .vocab import *  # noqa: F401,F403
from .registry import NODE_FIELDS, TREE_FIELDS, fields_same_except
from .mutators import obs_unchanged_but_fresh

NQ = "nutree.node.Node."
TQ = "nutree.tree.Tree."


@contract(NQ + "to_dict", props=("C14",))
def _(c):
    """ASSUMED here (recursion building nested JSON values), checked by the bounded tier (c14)."""
    c.param("self", "node").param("mapper", "none", "cb")
    c.result_tag = "dref"
    c.modifies("ddom", "dval", "dcard", "dalloc", "llen", "litem", "lalloc")
    c.assumed = True
    c.assumed_reason = "nested JSON value construction; decided by native/props/c14.py"
    c.requires("self is a member", lambda x: And(wf0(x), self_member(x)))
    c.ensures("the tree is not modified; the result is a fresh dict", lambda x: And(obs_unchanged_but_fresh(x), x.r != DNONE, Not(x.h0.dalloc(x.r))))
    c.may_raise("Callback", ensures=lambda x: obs_unchanged_but_fresh(x), name="mapper raises")


@contract(TQ + "to_dict_list", props=("C14", "C13"))
def _(c):
    c.param("self", "tree").param("mapper", "none", "cb")
    c.result_tag = "lref"
    c.modifies("ddom", "dval", "dcard", "dalloc", "llen", "litem", "lalloc", "held")
    c.requires("wf", lambda x: wf0(x))
    c.may_raise("Callback", ensures=lambda x: obs_unchanged_but_fresh(x), props=("C13",), name="mapper raises")
    c.ensures("one entry per top-level node; the tree is not modified; no exception on any well-formed tree (incl. an emptied one)",
              lambda x: And(obs_unchanged_but_fresh(x), x.r != LNONE, x.h.llen(x.r) == x.h0.clen(x.h0._root(x.a.self))))
    c.loop(1).invariant = lambda x: And(x.h.llen(x.v.res) == x.k, Not(x.h0.lalloc(x.v.res)), x.h.lalloc(x.v.res), x.v.res != LNONE, obs_unchanged_but_fresh(x), wf(x.h, x.a.self))


def _lock_contract(qual, delta):
    @contract(qual, props=("C18",))
    def _(c):
        c.param("self", "tree")
        if delta < 0:
            c.param("type", "none", "data").param("value", "none", "data").param("traceback", "none", "data")
        c.result_tag = "tree" if delta > 0 else "none"
        c.modifies("held")
        c.assumed = True
        c.assumed_reason = "body (self._lock.acquire()/release()) is decided by the effect checker pyvc/lockcheck.py; threading.RLock assumed"
        o = L.fresh("o", L.Ref)
        c.ensures("held depth of self._lock changes by %+d; nothing else" % delta,
                  lambda x: And(x.h.held(x.h0._lock(x.a.self)) == x.h0.held(x.h0._lock(x.a.self)) + delta,
                                z3.ForAll([o], Implies(o != x.h0._lock(x.a.self), x.h.held(o) == x.h0.held(o)), patterns=[x.h.held(o)]),
                                (x.r == x.a.self) if delta > 0 else True))
    return _


_lock_contract(TQ + "__enter__", +1)
_lock_contract(TQ + "__exit__", -1)
