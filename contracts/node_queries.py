"""C10 — relationship queries of Node / Tree (nutree/node.py, tree.py).  Every result is
pinned to the abstract view (parent / children / pos / rank / upk) of the entry heap."""
from __future__ import annotations

import z3
from z3 import And, Exists, ForAll, If, Implies, Not, Or

from pyvc import logic as L
from pyvc.contract import contract
from .vocab import *  # noqa: F401,F403

NQ = "nutree.node.Node."
TQ = "nutree.tree.Tree."
C10 = ("C10",)


def res_is(x, term, none=NONE):
    """result (possibly the None literal) equals `term` where NONE stands for None."""
    if x.res.tag == "none":
        return term == none
    return x.r == term


def member_pre(c):
    c.requires("wf", lambda x: And(wf0(x), self_member(x)))


def inP_pre(c):
    c.requires("wf", lambda x: And(wf0(x), self_in_P(x)))


# ------------------------------------------------------------------ trivial accessors (inlined)
for _name in ("children", "data", "data_id", "node_id", "meta", "tree"):
    @contract(NQ + _name)
    def _(c):
        c.param("self", "node")
        c.inline = True


@contract(NQ + "parent", props=C10)
def _(c):
    c.param("self", "node")
    c.result_tag = "node?"
    c.pure()
    # deliberately weak: Tree._register calls it on a node that is not attached yet
    c.requires("self has a parent object", lambda x: x.h0._parent(x.a.self) != NONE)
    c.ensures("result == parent, None when the parent is a system root", lambda x: res_is(x, If(x.h0._parent(x.h0._parent(x.a.self)) == NONE, NONE, x.h0._parent(x.a.self))))


@contract(NQ + "get_children", props=C10)
def _(c):
    c.param("self", "node")
    c.families = ("plain",)
    c.result_tag = "lref"
    c.modifies("llen", "litem", "lalloc")
    inP_pre(c)
    c.ensures("result lists the children in order", lambda x: And(x.r != LNONE, x.h.llen(x.r) == x.h0.clen(x.a.self), If(x.h0._children(x.a.self) == LNONE, fresh_list(x, x.r), x.r == x.h0._children(x.a.self)), unchanged_lists(x)))


def child_at(which):
    def post(x):
        h0, s = x.h0, x.a.self
        n = h0.clen(s)
        return res_is(x, If(n == 0, NONE, h0.child(s, 0 if which == "first" else n - 1)))

    return post


@contract(NQ + "first_child", props=C10)
def _(c):
    c.param("self", "node")
    c.families = ("plain",)
    c.result_tag = "node?"
    c.pure()
    inP_pre(c)
    c.ensures("result == first child or None", child_at("first"))


@contract(NQ + "last_child", props=C10)
def _(c):
    c.param("self", "node")
    c.families = ("plain",)
    c.result_tag = "node?"
    c.pure()
    inP_pre(c)
    c.ensures("result == last child or None", child_at("last"))


def sib_at(offset_fn, none_when=None):
    def post(x):
        h0, s = x.h0, x.a.self
        p = h0._parent(s)
        n = h0.clen(p)
        me = h0.pos(s)
        idx = offset_fn(me, n)
        if none_when is None:
            return x.r == h0.child(p, idx)
        return res_is(x, If(none_when(me, n), NONE, h0.child(p, idx)))

    return post


@contract(NQ + "first_sibling", props=C10)
def _(c):
    c.param("self", "node")
    c.families = ("plain",)
    c.result_tag = "node"
    c.pure()
    member_pre(c)
    c.ensures("result == first child of the parent", sib_at(lambda me, n: 0))


@contract(NQ + "last_sibling", props=C10)
def _(c):
    c.param("self", "node")
    c.families = ("plain",)
    c.result_tag = "node"
    c.pure()
    member_pre(c)
    c.ensures("result == last child of the parent", sib_at(lambda me, n: n - 1))


@contract(NQ + "prev_sibling", props=C10)
def _(c):
    c.param("self", "node")
    c.families = ("plain",)
    c.result_tag = "node?"
    c.pure()
    member_pre(c)
    c.ensures("result == sibling at pos-1 (identity position) or None", sib_at(lambda me, n: me - 1, lambda me, n: me == 0))


@contract(NQ + "next_sibling", props=C10)
def _(c):
    c.param("self", "node")
    c.families = ("plain",)
    c.result_tag = "node?"
    c.pure()
    member_pre(c)
    c.ensures("result == sibling at pos+1 (identity position) or None", sib_at(lambda me, n: me + 1, lambda me, n: me == n - 1))


@contract(NQ + "get_index", props=C10)
def _(c):
    c.param("self", "node")
    c.families = ("plain",)
    c.result_tag = "int"
    c.pure()
    member_pre(c)
    c.ensures("result == identity position among the siblings", lambda x: x.r == x.h0.pos(x.a.self))


@contract(NQ + "is_first_sibling", props=C10)
def _(c):
    c.param("self", "node")
    c.families = ("plain",)
    c.result_tag = "bool"
    c.pure()
    member_pre(c)
    c.ensures("result <=> pos == 0", lambda x: x.r == (x.h0.pos(x.a.self) == 0))


@contract(NQ + "is_last_sibling", props=C10)
def _(c):
    c.param("self", "node")
    c.families = ("plain",)
    c.result_tag = "bool"
    c.pure()
    member_pre(c)
    c.ensures("result <=> pos == len-1", lambda x: x.r == (x.h0.pos(x.a.self) == x.h0.clen(x.h0._parent(x.a.self)) - 1))


@contract(NQ + "is_system_root", props=C10)
def _(c):
    c.param("self", "node")
    c.result_tag = "bool"
    c.pure()
    inP_pre(c)
    c.ensures("result <=> self is the invisible root", lambda x: x.r == (x.a.self == x.h0._root(x.T)))


@contract(NQ + "is_top", props=C10)
def _(c):
    c.param("self", "node")
    c.result_tag = "bool"
    c.pure()
    member_pre(c)
    c.ensures("result <=> parent is the root (rank 1)", lambda x: And(x.r == (x.h0._parent(x.a.self) == x.h0._root(x.T)), x.r == (x.h0.rank(x.a.self) == 1)))


@contract(NQ + "is_leaf", props=C10)
def _(c):
    c.param("self", "node")
    c.result_tag = "bool"
    c.pure()
    inP_pre(c)
    c.ensures("result <=> no children", lambda x: x.r == (x.h0.clen(x.a.self) == 0))


@contract(NQ + "has_children", props=C10)
def _(c):
    c.param("self", "node")
    c.families = ("plain",)
    c.result_tag = "bool"
    c.pure()
    inP_pre(c)
    c.ensures("result <=> at least one child", lambda x: x.r == (x.h0.clen(x.a.self) > 0))


# ------------------------------------------------------------------ ancestry
@contract(NQ + "calc_depth", props=C10)
def _(c):
    c.param("self", "node")
    c.result_tag = "int"
    c.pure()
    member_pre(c)
    c.ensures("result == rank (distance to the root)", lambda x: x.r == x.h0.rank(x.a.self))

    def inv(x):
        h0, s = x.h0, x.a.self
        pe = x.v.pe
        return If(pe == NONE, x.v.depth == h0.rank(s), And(h0.inP(x.T, pe), x.v.depth + h0.rank(pe) + 1 == h0.rank(s)))

    c.loop(1).invariant = inv


@contract(NQ + "depth", props=C10)
def _(c):
    c.param("self", "node")
    c.result_tag = "int"
    c.pure()
    member_pre(c)
    c.ensures("result == rank", lambda x: x.r == x.h0.rank(x.a.self))


@contract(NQ + "up", props=C10)
def _(c):
    c.param("self", "node").param("level", "int")
    c.result_tag = "node"
    c.pure()
    member_pre(c)
    c.raises("ValueError", when=lambda x: Or(x.a.level < 1, x.a.level > x.h0.rank(x.a.self)), ensures=None)
    c.ensures("result == level-th ancestor", lambda x: And(x.r == L.upk(x.h0)(x.a.self, x.a.level), x.h0.inP(x.T, x.r), x.h0.rank(x.r) == x.h0.rank(x.a.self) - x.a.level))

    def inv(x):
        h0, s = x.h0, x.a.self
        j = x.a.level - x.v.level
        return And(x.a.level >= 1, 0 <= j, x.v.level >= 0, x.v.p == L.upk(h0)(s, j), h0.inP(x.T, x.v.p), h0.rank(x.v.p) == h0.rank(s) - j)

    c.loop(1).invariant = inv


@contract(NQ + "get_top", props=C10)
def _(c):
    c.param("self", "node")
    c.result_tag = "node"
    c.pure()
    member_pre(c)
    c.ensures("result == the ancestor-or-self at rank 1", lambda x: And(x.h0.mem(x.T, x.r), x.h0.rank(x.r) == 1, x.r == L.upk(x.h0)(x.a.self, x.h0.rank(x.a.self) - 1)))
    lp = c.loop(1)
    lp.ghost["j"] = (lambda x: z3.IntVal(0), lambda x: x.g.j + 1)
    lp.invariant = lambda x: And(x.g.j >= 0, x.v.root == L.upk(x.h0)(x.a.self, x.g.j), x.h0.mem(x.T, x.v.root), x.h0.rank(x.v.root) == x.h0.rank(x.a.self) - x.g.j)


@contract(NQ + "is_descendant_of", props=C10)
def _(c):
    c.param("self", "node").param("other", "node")
    c.result_tag = "bool"
    c.pure()
    inP_pre(c)
    c.ensures("result <=> other is a proper (non-root) ancestor of self", lambda x: x.r == L.is_desc(x.h0, x.a.self, x.a.other))
    # E(parent(self), other) == E(cur, other): what is still to be decided lies above `cur`
    c.loop(1).invariant = lambda x: And(L.anc_chain(x.h0)(x.h0._parent(x.a.self), x.a.other) == L.anc_chain(x.h0)(x.v.parent, x.a.other), Or(x.v.parent == NONE, x.h0.inP(x.T, x.v.parent)))


@contract(NQ + "is_ancestor_of", props=C10)
def _(c):
    c.param("self", "node").param("other", "node")
    c.result_tag = "bool"
    c.pure()
    c.requires("wf", lambda x: And(wf0(x), self_in_P(x), x.h0.inP(x.T, x.a.other)))
    c.ensures("result <=> self is a proper (non-root) ancestor of other", lambda x: x.r == L.is_desc(x.h0, x.a.other, x.a.self))


# ------------------------------------------------------------------ Tree level
@contract(TQ + "children", props=C10)
def _(c):
    c.param("self", "tree")
    c.result_tag = "lref"
    c.modifies("llen", "litem", "lalloc")
    c.requires("wf", lambda x: wf0(x))
    c.ensures("result lists the top-level nodes", lambda x: And(x.r != LNONE, x.h.llen(x.r) == x.h0.clen(x.h0._root(x.T)), If(x.h0._children(x.h0._root(x.T)) == LNONE, fresh_list(x, x.r), x.r == x.h0._children(x.h0._root(x.T))), unchanged_lists(x)))


@contract(TQ + "get_toplevel_nodes", props=C10)
def _(c):
    c.param("self", "tree")
    c.result_tag = "lref"
    c.modifies("llen", "litem", "lalloc")
    c.requires("wf", lambda x: wf0(x))
    c.ensures("result lists the top-level nodes", lambda x: And(x.r != LNONE, x.h.llen(x.r) == x.h0.clen(x.h0._root(x.T)), If(x.h0._children(x.h0._root(x.T)) == LNONE, fresh_list(x, x.r), x.r == x.h0._children(x.h0._root(x.T))), unchanged_lists(x)))


@contract(TQ + "first_child", props=C10)
def _(c):
    c.param("self", "tree")
    c.families = ("plain",)
    c.result_tag = "node?"
    c.pure()
    c.requires("wf", lambda x: wf0(x))
    c.ensures("result == first top-level node or None", lambda x: res_is(x, If(x.h0.clen(x.h0._root(x.T)) == 0, NONE, x.h0.child(x.h0._root(x.T), 0))))


@contract(TQ + "last_child", props=C10)
def _(c):
    c.param("self", "tree")
    c.families = ("plain",)
    c.result_tag = "node?"
    c.pure()
    c.requires("wf", lambda x: wf0(x))
    c.ensures("result == last top-level node or None", lambda x: res_is(x, If(x.h0.clen(x.h0._root(x.T)) == 0, NONE, x.h0.child(x.h0._root(x.T), x.h0.clen(x.h0._root(x.T)) - 1))))


@contract(TQ + "count", props=("C10", "C01", "C02"))
def _(c):
    c.param("self", "tree")
    c.result_tag = "int"
    c.pure()
    c.requires("wf", lambda x: wf0(x))
    c.ensures("result == number of registered nodes", lambda x: x.r == x.h0.dcard(x.h0._node_by_id(x.T)))


@contract(TQ + "count_unique", props=("C02",))
def _(c):
    c.param("self", "tree")
    c.result_tag = "int"
    c.pure()
    c.requires("wf", lambda x: wf0(x))
    c.ensures("result == number of distinct data ids", lambda x: x.r == x.h0.dcard(x.h0._nodes_by_data_id(x.T)))


@contract(TQ + "__len__", props=("C10", "C01"))
def _(c):
    c.param("self", "tree")
    c.result_tag = "int"
    c.pure()
    c.requires("wf", lambda x: wf0(x))
    c.ensures("result == count", lambda x: x.r == x.h0.dcard(x.h0._node_by_id(x.T)))


# ------------------------------------------------------------------ ancestor list / nearest common ancestor
def anc_count(h, s, add_self):
    """number of non-root nodes on the way from s (inclusive iff add_self) up to the top level"""
    return h.rank(s) - (0 if add_self else 1)


@contract(NQ + "get_parent_list", props=C10)
def _(c):
    c.param("self", "node").param("add_self", "true", "false").param("bottom_up", "true", "false")
    c.result_tag = "lref"
    c.modifies("llen", "litem", "lalloc")
    member_pre(c)

    def post(x):
        h0, h, s = x.h0, x.h, x.a.self
        add_self, bottom_up = z3.is_true(x.a.add_self), z3.is_true(x.a.bottom_up)
        off = 0 if add_self else 1
        n = anc_count(h0, s, add_self)
        up = L.upk(h0)
        idx = (lambda i: i + off) if bottom_up else (lambda i: n - 1 - i + off)
        inv = (lambda m: m - off) if bottom_up else (lambda m: n - 1 - m + off)  # list position of the ancestor at distance m
        return And(fresh_list(x, x.r), unchanged_lists(x), h.llen(x.r) == n,
                   fa_int(0, n, lambda i: And(h.litem(x.r, i) == up(s, idx(i)), h0.mem(x.T, h.litem(x.r, i)), h0.rank(h.litem(x.r, i)) == h0.rank(s) - idx(i)), lambda i: h.litem(x.r, i)),
                   # the same, read from the spec side: the ancestor at distance m sits at position inv(m)
                   fa_int(off, h0.rank(s), lambda m: h.litem(x.r, inv(m)) == up(s, m), lambda m: up(s, m), name="m"))

    c.ensures("result == [self,] parent, grandparent, ... (top level last), reversed unless bottom_up; the root is never included", post)
    lp = c.loop(1)
    lp.ghost["j"] = (lambda x: z3.IntVal(0), lambda x: x.g.j + 1)

    def inv(x):
        h0, h, s = x.h0, x.h, x.a.self
        off = 0 if z3.is_true(x.a.add_self) else 1
        up = L.upk(h0)
        res, par = x.v.res, x.v.parent
        return And(x.g.j >= 0, res != LNONE, Not(h0.lalloc(res)), h.lalloc(res), h.llen(res) == x.g.j, par == up(s, x.g.j + off), up(s, 0) == s,
                   par != NONE, h0.inP(x.T, par), h0.rank(par) == h0.rank(s) - (x.g.j + off),
                   fa_int(0, x.g.j, lambda i: And(h.litem(res, i) == up(s, i + off), h0.mem(x.T, h.litem(res, i)), h0.rank(h.litem(res, i)) == h0.rank(s) - (i + off)), lambda i: h.litem(res, i)),
                   fa_int(off, x.g.j + off, lambda m: h.litem(res, m - off) == up(s, m), lambda m: up(s, m), name="m"),
                   unchanged_lists(x))

    lp.invariant = inv
    lp.modifies = ("llen", "litem")


@contract(NQ + "get_common_ancestor", props=C10)
def _(c):
    c.param("self", "node").param("other", "node")
    c.result_tag = "any"
    c.modifies("llen", "litem", "lalloc")
    member_pre(c)
    c.requires("other is a node of the same tree", lambda x: x.h0.mem(x.T, x.a.other))

    def disjoint_upto(x, k):
        """no ancestor-or-self of self at distance < k is an ancestor-or-self of other"""
        h0, s, o = x.h0, x.a.self, x.a.other
        up = L.upk(h0)
        i, m = L.fresh("i", L.I), L.fresh("m", L.I)
        return ForAll([i, m], Implies(And(0 <= i, i < k, i < h0.rank(s), 0 <= m, m < h0.rank(o)), up(s, i) != up(o, m)), patterns=[z3.MultiPattern(up(s, i), up(o, m))])

    def post(x):
        h0, s, o = x.h0, x.a.self, x.a.other
        up = L.upk(h0)
        if x.res.tag == "none":
            return disjoint_upto(x, h0.rank(s))
        r = x.r
        return And(h0.mem(x.T, r), h0.rank(r) >= 1, h0.rank(r) <= h0.rank(s), h0.rank(r) <= h0.rank(o),
                   up(s, h0.rank(s) - h0.rank(r)) == r, up(o, h0.rank(o) - h0.rank(r)) == r,
                   disjoint_upto(x, h0.rank(s) - h0.rank(r)))

    c.ensures("result is an ancestor-or-self of both and no nearer ancestor-or-self of self is one of other; None iff they share none (never the root)", post)
    c.ensures("no tree or list of the entry state is changed", lambda x: unchanged_lists(x))
    lp = c.loop(1)
    lp.invariant = lambda x: disjoint_upto(x, x.k)
    lp.modifies = ()
