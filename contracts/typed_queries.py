"""C15 — kind-aware queries of TypedNode / TypedTree (nutree/typed_tree.py).
Postconditions are 'filter the child / sibling list by kind', taken from the property."""
from __future__ import annotations

import z3
from z3 import And, Exists, ForAll, If, Implies, Not, Or

from pyvc import logic as L
from pyvc.contract import contract
from .vocab import *  # noqa: F401,F403

Q = "nutree.typed_tree.TypedNode."
C15 = ("C15",)


def kmatch(h, n, kind):
    return h._kind(n) == kind


def children_seq(h, p):
    """(length, item function) of the child list of p in heap h."""
    return h.clen(p), (lambda i: h.child(p, i))


# ------------------------------------------------------------------ helper from node.py
@contract("nutree.node._index_of", props=("C10", "C15", "C01", "C04"))
def _(c):
    c.param("node_list", "lref").param("node", "node", "node?")
    c.families = ("plain",)
    c.result_tag = "int"
    c.pure()
    c.requires("list allocated", lambda x: And(x.a.node_list != LNONE, x.h0.llen(x.a.node_list) >= 0))
    notin = lambda x: fa_int(0, x.h0.llen(x.a.node_list), lambda j: x.h0.litem(x.a.node_list, j) != x.a.node, lambda j: x.h0.litem(x.a.node_list, j))  # noqa: E731
    c.raises("ValueError", when=notin, ensures=None)
    c.ensures("result is the identity index", lambda x: And(0 <= x.r, x.r < x.h0.llen(x.a.node_list), x.h0.litem(x.a.node_list, x.r) == x.a.node,
                                                             fa_int(0, x.r, lambda j: x.h0.litem(x.a.node_list, j) != x.a.node, lambda j: x.h0.litem(x.a.node_list, j))))
    c.loop(1).invariant = lambda x: fa_int(0, x.k, lambda j: x.h0.litem(x.a.node_list, j) != x.a.node, lambda j: x.h0.litem(x.a.node_list, j))


# ------------------------------------------------------------------ kind accessor (inlined)
@contract(Q + "kind")
def _(c):
    c.param("self", "node")
    c.families = ("typed",)
    c.inline = True


@contract(Q + "parent")
def _(c):
    c.param("self", "node")
    c.families = ("typed",)
    c.inline = True


@contract(Q + "children")
def _(c):
    c.param("self", "node")
    c.families = ("typed",)
    c.inline = True


# ------------------------------------------------------------------ get_children(kind)
@contract(Q + "get_children", props=C15)
def _(c):
    c.param("self", "node").param("kind", "kind", "anykind")
    c.families = ("typed",)
    c.result_tag = "lref"
    c.modifies("llen", "litem", "lalloc")
    c.requires("wf", lambda x: And(wf0(x), self_in_P(x)))
    c.requires("kind is a str", lambda x: kind_is_str(x) if x.a.tag("kind") == "val" and not z3.eq(x.a.kind, ANY_KIND) else True)

    def post(x):
        h0, h, s = x.h0, x.h, x.a.self
        n, item = children_seq(h0, s)
        if z3.eq(x.a.kind, ANY_KIND):
            # any kind: all children, in order (the internal list or an empty list)
            return And(x.r != LNONE, h.llen(x.r) == n, fa_int(0, n, lambda i: h.litem(x.r, i) == item(i), lambda i: h.litem(x.r, i)), unchanged_lists(x))
        emb, inv = wit(x, "emb", (L.I, L.I)), wit(x, "inv", (L.I, L.I))
        return And(is_filter(h, x.r, n, item, lambda y: kmatch(h0, y, x.a.kind), emb, inv), fresh_list(x, x.r), unchanged_lists(x))

    c.ensures("result == [c for c in children if c.kind == kind]", post)


# ------------------------------------------------------------------ first_child / last_child
def first_last(which):
    def post(x):
        h0, s = x.h0, x.a.self
        n, item = children_seq(h0, s)
        anyk = z3.eq(x.a.kind, ANY_KIND)
        ok = (lambda y: z3.BoolVal(True)) if anyk else (lambda y: kmatch(h0, y, x.a.kind))
        none_case = fa_int(0, n, lambda i: Not(ok(item(i))), lambda i: h0.litem(h0._children(s), i))
        if x.res.tag == "none":
            return none_case
        r = x.r
        m = L.fresh("m", L.I)
        if which == "first":
            hit = Exists([m], And(0 <= m, m < n, item(m) == r, ok(r), fa_int(0, m, lambda i: Not(ok(item(i))), lambda i: h0.litem(h0._children(s), i))))
        else:
            hit = Exists([m], And(0 <= m, m < n, item(m) == r, ok(r), fa_int(m + 1, n, lambda i: Not(ok(item(i))), lambda i: h0.litem(h0._children(s), i))))
        return If(r == NONE, none_case, hit)

    return post


@contract(Q + "first_child", props=C15)
def _(c):
    c.param("self", "node").param("kind", "kind", "anykind")
    c.families = ("typed",)
    c.result_tag = "node?"
    c.pure()
    c.requires("wf", lambda x: And(wf0(x), self_in_P(x)))
    c.requires("kind is a str", lambda x: kind_is_str(x) if not z3.eq(x.a.kind, ANY_KIND) else True)
    c.ensures("result == first child of that kind or None", first_last("first"))
    c.loop(1).invariant = lambda x: fa_int(0, x.k, lambda i: Not(kmatch(x.h0, x.h0.child(x.a.self, i), x.a.kind)), lambda i: x.h0.litem(x.h0._children(x.a.self), i))


@contract(Q + "last_child", props=C15)
def _(c):
    c.param("self", "node").param("kind", "kind", "anykind")
    c.families = ("typed",)
    c.result_tag = "node?"
    c.pure()
    c.requires("wf", lambda x: And(wf0(x), self_in_P(x)))
    c.requires("kind is a str", lambda x: kind_is_str(x) if not z3.eq(x.a.kind, ANY_KIND) else True)
    c.ensures("result == last child of that kind or None", first_last("last"))
    # range(len-1, -1, -1): iteration k looks at index len-1-k
    c.loop(1).invariant = lambda x: fa_int(x.h0.clen(x.a.self) - x.k, x.h0.clen(x.a.self), lambda i: Not(kmatch(x.h0, x.h0.child(x.a.self, i), x.a.kind)), lambda i: x.h0.litem(x.h0._children(x.a.self), i))


# ------------------------------------------------------------------ has_children
@contract(Q + "has_children", props=C15)
def _(c):
    c.param("self", "node").param("kind", "kind", "anykind")
    c.families = ("typed",)
    c.result_tag = "bool"
    c.modifies("llen", "litem", "lalloc")
    c.requires("wf", lambda x: And(wf0(x), self_in_P(x)))
    c.requires("kind is a str", lambda x: kind_is_str(x) if not z3.eq(x.a.kind, ANY_KIND) else True)

    def post(x):
        h0, s = x.h0, x.a.self
        n, item = children_seq(h0, s)
        if z3.eq(x.a.kind, ANY_KIND):
            return And(x.r == (n > 0), unchanged_lists(x))
        return And(x.r == ex_int(0, n, lambda j: kmatch(h0, item(j), x.a.kind)), unchanged_lists(x))

    c.ensures("result <=> some child has that kind", post)
