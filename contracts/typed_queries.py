"""C15 — kind-aware queries of TypedNode / TypedTree (nutree/typed_tree.py).
Postconditions are 'filter the child / sibling list by kind', taken from the property."""
from __future__ import annotations

import z3
from z3 import And, Exists, ForAll, If, Implies, Not, Or

from pyvc import logic as L
from pyvc.contract import contract
from .vocab import *  # noqa: F401,F403

Q = "nutree.typed_tree.TypedNode."
C15 = ("C15",)


def kmatch(h, n, kind):
    return h._kind(n) == kind


def children_seq(h, p):
    """(length, item function) of the child list of p in heap h."""
    return h.clen(p), (lambda i: h.child(p, i))


# ------------------------------------------------------------------ helper from node.py
@contract("nutree.node._index_of", props=("C10", "C15", "C01", "C04"))
def _(c):
    c.param("node_list", "lref").param("node", "node", "node?")
    c.families = ("plain",)
    c.result_tag = "int"
    c.pure()
    c.requires("list allocated", lambda x: And(x.a.node_list != LNONE, x.h0.llen(x.a.node_list) >= 0))
    notin = lambda x: fa_int(0, x.h0.llen(x.a.node_list), lambda j: x.h0.litem(x.a.node_list, j) != x.a.node, lambda j: x.h0.litem(x.a.node_list, j))  # noqa: E731
    c.raises("ValueError", when=notin, ensures=None)
    c.ensures("result is the identity index", lambda x: And(0 <= x.r, x.r < x.h0.llen(x.a.node_list), x.h0.litem(x.a.node_list, x.r) == x.a.node,
                                                             fa_int(0, x.r, lambda j: x.h0.litem(x.a.node_list, j) != x.a.node, lambda j: x.h0.litem(x.a.node_list, j))))
    c.loop(1).invariant = lambda x: fa_int(0, x.k, lambda j: x.h0.litem(x.a.node_list, j) != x.a.node, lambda j: x.h0.litem(x.a.node_list, j))


# ------------------------------------------------------------------ kind accessor (inlined)
@contract(Q + "kind")
def _(c):
    c.param("self", "node")
    c.families = ("typed",)
    c.inline = True


@contract(Q + "parent")
def _(c):
    c.param("self", "node")
    c.families = ("typed",)
    c.inline = True


@contract(Q + "children")
def _(c):
    c.param("self", "node")
    c.families = ("typed",)
    c.inline = True


# ------------------------------------------------------------------ get_children(kind)
@contract(Q + "get_children", props=C15)
def _(c):
    c.param("self", "node").param("kind", "kind", "anykind")
    c.families = ("typed",)
    c.result_tag = "lref"
    c.modifies("llen", "litem", "lalloc")
    c.requires("wf", lambda x: And(wf0(x), self_in_P(x)))
    c.requires("kind is a str", lambda x: kind_is_str(x) if x.a.tag("kind") == "val" and not z3.eq(x.a.kind, ANY_KIND) else True)

    def post(x):
        h0, h, s = x.h0, x.h, x.a.self
        n, item = children_seq(h0, s)
        if z3.eq(x.a.kind, ANY_KIND):
            # any kind: all children, in order (the internal list or an empty list)
            return And(x.r != LNONE, h.llen(x.r) == n, fa_int(0, n, lambda i: h.litem(x.r, i) == item(i), lambda i: h.litem(x.r, i)), unchanged_lists(x))
        emb, inv = wit(x, "emb", (L.I, L.I)), wit(x, "inv", (L.I, L.I))
        return And(is_filter(h, x.r, n, item, lambda y: kmatch(h0, y, x.a.kind), emb, inv), fresh_list(x, x.r), unchanged_lists(x))

    c.ensures("result == [c for c in children if c.kind == kind]", post)


# ------------------------------------------------------------------ first_child / last_child
def first_last(which):
    def post(x):
        h0, s = x.h0, x.a.self
        n, item = children_seq(h0, s)
        anyk = z3.eq(x.a.kind, ANY_KIND)
        ok = (lambda y: z3.BoolVal(True)) if anyk else (lambda y: kmatch(h0, y, x.a.kind))
        none_case = fa_int(0, n, lambda i: Not(ok(item(i))), lambda i: h0.litem(h0._children(s), i))
        if x.res.tag == "none":
            return none_case
        r = x.r
        m = L.fresh("m", L.I)
        if which == "first":
            hit = Exists([m], And(0 <= m, m < n, item(m) == r, ok(r), fa_int(0, m, lambda i: Not(ok(item(i))), lambda i: h0.litem(h0._children(s), i))))
        else:
            hit = Exists([m], And(0 <= m, m < n, item(m) == r, ok(r), fa_int(m + 1, n, lambda i: Not(ok(item(i))), lambda i: h0.litem(h0._children(s), i))))
        return If(r == NONE, none_case, hit)

    return post


@contract(Q + "first_child", props=C15)
def _(c):
    c.param("self", "node").param("kind", "kind", "anykind")
    c.families = ("typed",)
    c.result_tag = "node?"
    c.pure()
    c.requires("wf", lambda x: And(wf0(x), self_in_P(x)))
    c.requires("kind is a str", lambda x: kind_is_str(x) if not z3.eq(x.a.kind, ANY_KIND) else True)
    c.ensures("result == first child of that kind or None", first_last("first"))
    c.loop(1).invariant = lambda x: fa_int(0, x.k, lambda i: Not(kmatch(x.h0, x.h0.child(x.a.self, i), x.a.kind)), lambda i: x.h0.litem(x.h0._children(x.a.self), i))


@contract(Q + "last_child", props=C15)
def _(c):
    c.param("self", "node").param("kind", "kind", "anykind")
    c.families = ("typed",)
    c.result_tag = "node?"
    c.pure()
    c.requires("wf", lambda x: And(wf0(x), self_in_P(x)))
    c.requires("kind is a str", lambda x: kind_is_str(x) if not z3.eq(x.a.kind, ANY_KIND) else True)
    c.ensures("result == last child of that kind or None", first_last("last"))
    # range(len-1, -1, -1): iteration k looks at index len-1-k
    c.loop(1).invariant = lambda x: fa_int(x.h0.clen(x.a.self) - x.k, x.h0.clen(x.a.self), lambda i: Not(kmatch(x.h0, x.h0.child(x.a.self, i), x.a.kind)), lambda i: x.h0.litem(x.h0._children(x.a.self), i))


# ------------------------------------------------------------------ has_children
@contract(Q + "has_children", props=C15)
def _(c):
    c.param("self", "node").param("kind", "kind", "anykind")
    c.families = ("typed",)
    c.result_tag = "bool"
    c.modifies("llen", "litem", "lalloc")
    c.requires("wf", lambda x: And(wf0(x), self_in_P(x)))
    c.requires("kind is a str", lambda x: kind_is_str(x) if not z3.eq(x.a.kind, ANY_KIND) else True)

    def post(x):
        h0, s = x.h0, x.a.self
        n, item = children_seq(h0, s)
        if z3.eq(x.a.kind, ANY_KIND):
            return And(x.r == (n > 0), unchanged_lists(x))
        return And(x.r == ex_int(0, n, lambda j: kmatch(h0, item(j), x.a.kind)), unchanged_lists(x))

    c.ensures("result <=> some child has that kind", post)


# ------------------------------------------------------------------ sibling queries
def sibs(h, s):
    """(parent, length, item) of the sibling list of s."""
    p = h._parent(s)
    return p, h.clen(p), (lambda i: h.child(p, i))


def same_kind(h, s):
    return lambda y: h._kind(y) == h._kind(s)


def last_filter(x):
    """Ghost witnesses (emb, inv) of the most recent list filter on this path; fresh symbols
    when the contract is used at a call site."""
    fl = getattr(getattr(x, "p", None), "ghost", {}).get("filters") if getattr(x, "p", None) is not None else None
    if fl:
        return fl[-1][2], fl[-1][3]
    return wit(x, "emb", (L.I, L.I)), wit(x, "inv", (L.I, L.I))


NQ = "nutree.node.Node."


@contract(NQ + "get_siblings", props=("C10", "C15"))
def _(c):
    c.param("self", "node").param("add_self", "true", "false")
    c.result_tag = "lref"
    c.modifies("llen", "litem", "lalloc")
    c.requires("wf", lambda x: And(wf0(x), self_member(x)))

    def post(x):
        h0, h, s = x.h0, x.h, x.a.self
        p, n, item = sibs(h0, s)
        if z3.is_true(x.a.add_self):
            return And(x.r == h0._children(p), unchanged_lists(x))
        emb, inv = wit(x, "emb", (L.I, L.I)), wit(x, "inv", (L.I, L.I))
        return And(is_filter(h, x.r, n, item, lambda y: y != s, emb, inv), fresh_list(x, x.r), unchanged_lists(x))

    c.ensures("result == siblings (identity filter)", post)


@contract(Q + "get_siblings", props=C15)
def _(c):
    c.param("self", "node").param("add_self", "true", "false").param("any_kind", "true", "false")
    c.families = ("typed",)
    c.result_tag = "lref"
    c.modifies("llen", "litem", "lalloc")
    c.requires("wf", lambda x: And(wf0(x), self_member(x)))

    def post(x):
        h0, h, s = x.h0, x.h, x.a.self
        p, n, item = sibs(h0, s)
        addself, anyk = z3.is_true(x.a.add_self), z3.is_true(x.a.any_kind)
        if anyk and addself:
            return And(x.r == h0._children(p), unchanged_lists(x))
        emb, inv = wit(x, "emb", (L.I, L.I)), wit(x, "inv", (L.I, L.I))
        if anyk:
            phi = lambda y: y != s  # noqa: E731
        elif addself:
            phi = same_kind(h0, s)
        else:
            phi = lambda y: And(y != s, h0._kind(y) == h0._kind(s))  # noqa: E731
        return And(is_filter(h, x.r, n, item, phi, emb, inv), fresh_list(x, x.r), unchanged_lists(x))

    c.ensures("result == siblings filtered by kind", post)


def first_last_sibling(which):
    def post(x):
        h0, s = x.h0, x.a.self
        p, n, item = sibs(h0, s)
        if z3.is_true(x.a.any_kind):
            return x.r == item(0 if which == "first" else n - 1)
        ok = same_kind(h0, s)
        m = L.fresh("m", L.I)
        pat = lambda i: h0.litem(h0._children(p), i)  # noqa: E731
        if which == "first":
            return Exists([m], And(0 <= m, m < n, item(m) == x.r, ok(x.r), fa_int(0, m, lambda i: Not(ok(item(i))), pat)))
        return Exists([m], And(0 <= m, m < n, item(m) == x.r, ok(x.r), fa_int(m + 1, n, lambda i: Not(ok(item(i))), pat)))

    return post


@contract(Q + "first_sibling", props=C15)
def _(c):
    c.param("self", "node").param("any_kind", "true", "false")
    c.families = ("typed",)
    c.result_tag = "node"
    c.pure()
    c.requires("wf", lambda x: And(wf0(x), self_member(x)))
    c.ensures("result == first sibling of own kind", first_last_sibling("first"))
    c.loop(1).invariant = lambda x: fa_int(0, x.k, lambda i: x.h0._kind(x.h0.child(x.h0._parent(x.a.self), i)) != x.h0._kind(x.a.self), lambda i: x.h0.litem(x.h0._children(x.h0._parent(x.a.self)), i))


@contract(Q + "last_sibling", props=C15)
def _(c):
    c.param("self", "node").param("any_kind", "true", "false")
    c.families = ("typed",)
    c.result_tag = "node"
    c.pure()
    c.requires("wf", lambda x: And(wf0(x), self_member(x)))
    c.ensures("result == last sibling of own kind", first_last_sibling("last"))

    def inv(x):
        p = x.h0._parent(x.a.self)
        n = x.h0.clen(p)
        return fa_int(n - x.k, n, lambda i: x.h0._kind(x.h0.child(p, i)) != x.h0._kind(x.a.self), lambda i: x.h0.litem(x.h0._children(p), i))

    c.loop(1).invariant = inv


def neighbour(which):
    def post(x):
        h0, s = x.h0, x.a.self
        p, n, item = sibs(h0, s)
        me = h0.pos(s)
        ok = (lambda y: z3.BoolVal(True)) if z3.is_true(x.a.any_kind) else same_kind(h0, s)
        pat = lambda i: h0.litem(h0._children(p), i)  # noqa: E731
        if z3.is_true(x.a.any_kind):  # plain neighbour by identity position
            none_case = (me + 1 >= n) if which == "next" else (me <= 0)
            if x.res.tag == "none":
                return none_case
            return If(x.r == NONE, none_case, And(Not(none_case), x.r == item(me + 1 if which == "next" else me - 1)))
        if which == "next":
            none_case = fa_int(me + 1, n, lambda i: Not(ok(item(i))), pat)
        else:
            none_case = fa_int(0, me, lambda i: Not(ok(item(i))), pat)
        if x.res.tag == "none":
            return none_case
        m = L.fresh("m", L.I)
        if which == "next":
            hit = Exists([m], And(me < m, m < n, item(m) == x.r, ok(x.r), fa_int(me + 1, m, lambda i: Not(ok(item(i))), pat)))
        else:
            hit = Exists([m], And(0 <= m, m < me, item(m) == x.r, ok(x.r), fa_int(m + 1, me, lambda i: Not(ok(item(i))), pat)))
        return If(x.r == NONE, none_case, hit)

    return post


@contract(Q + "next_sibling", props=C15)
def _(c):
    c.param("self", "node").param("any_kind", "true", "false")
    c.families = ("typed",)
    c.result_tag = "node?"
    c.pure()
    c.requires("wf", lambda x: And(wf0(x), self_member(x)))
    c.ensures("result == nearest right sibling of own kind or None", neighbour("next"))

    def inv(x):
        h0, s = x.h0, x.a.self
        p = h0._parent(s)
        ok = (lambda y: z3.BoolVal(True)) if z3.is_true(x.a.any_kind) else same_kind(h0, s)
        if z3.is_true(x.a.any_kind):
            return And(x.v.own_idx == h0.pos(s), x.k == 0)
        return And(x.v.own_idx == h0.pos(s), fa_int(h0.pos(s) + 1, h0.pos(s) + 1 + x.k, lambda i: Not(ok(h0.child(p, i))), lambda i: h0.litem(h0._children(p), i)))

    c.loop(1).invariant = inv


@contract(Q + "prev_sibling", props=C15)
def _(c):
    c.param("self", "node").param("any_kind", "true", "false")
    c.families = ("typed",)
    c.result_tag = "node?"
    c.pure()
    c.requires("wf", lambda x: And(wf0(x), self_member(x)))
    c.ensures("result == nearest left sibling of own kind or None", neighbour("prev"))

    def inv(x):
        h0, s = x.h0, x.a.self
        p = h0._parent(s)
        ok = (lambda y: z3.BoolVal(True)) if z3.is_true(x.a.any_kind) else same_kind(h0, s)
        if z3.is_true(x.a.any_kind):
            return And(x.v.own_idx == h0.pos(s), x.k == 0)
        return And(x.v.own_idx == h0.pos(s), fa_int(h0.pos(s) - x.k, h0.pos(s), lambda i: Not(ok(h0.child(p, i))), lambda i: h0.litem(h0._children(p), i)))

    c.loop(1).invariant = inv


@contract(Q + "get_index", props=C15)
def _(c):
    c.param("self", "node").param("any_kind", "true", "false")
    c.families = ("typed",)
    c.result_tag = "int"
    c.modifies("llen", "litem", "lalloc")
    c.requires("wf", lambda x: And(wf0(x), self_member(x)))

    def post(x):
        h0, s = x.h0, x.a.self
        p, n, item = sibs(h0, s)
        if z3.is_true(x.a.any_kind):
            return And(x.r == h0.pos(s), unchanged_lists(x))
        import contracts.vocab as V

        if V.RT_EVAL is not None:  # run-time cross-check: the witnessed statement decided directly on the snapshot
            E = V.RT_EVAL
            me = E.value(h0.pos(s))
            same = sum(1 for kk in range(me) if E.holds(h0._kind(item(z3.IntVal(kk))) == h0._kind(s)))
            return And(unchanged_lists(x), z3.BoolVal(E.value(x.r) == same))
        # position of self inside the kind-filtered sibling list: witnessed by the filter's embedding
        emb, inv = last_filter(x)
        F = L.fresh("F", L.LRef)
        return And(unchanged_lists(x), 0 <= x.r, emb(x.r) == h0.pos(s), inv(h0.pos(s)) == x.r,
                   fa_int(0, n, lambda k: Implies(h0._kind(item(k)) == h0._kind(s), And(0 <= inv(k), emb(inv(k)) == k)), lambda k: inv(k)),
                   fa_int(0, x.r + 1, lambda i: And(0 <= emb(i), emb(i) <= h0.pos(s), h0._kind(item(emb(i))) == h0._kind(s), inv(emb(i)) == i), lambda i: emb(i)),
                   )

    c.ensures("result == index among the siblings of own kind", post)


@contract(Q + "is_first_sibling", props=C15)
def _(c):
    c.param("self", "node").param("any_kind", "true", "false")
    c.families = ("typed",)
    c.result_tag = "bool"
    c.pure()
    c.requires("wf", lambda x: And(wf0(x), self_member(x)))

    def post(x):
        h0, s = x.h0, x.a.self
        p, n, item = sibs(h0, s)
        ok = (lambda y: z3.BoolVal(True)) if z3.is_true(x.a.any_kind) else same_kind(h0, s)
        return x.r == fa_int(0, h0.pos(s), lambda i: Not(ok(item(i))), lambda i: h0.litem(h0._children(p), i))

    c.ensures("result <=> no earlier sibling of own kind", post)


@contract(Q + "is_last_sibling", props=C15)
def _(c):
    c.param("self", "node").param("any_kind", "true", "false")
    c.families = ("typed",)
    c.result_tag = "bool"
    c.pure()
    c.requires("wf", lambda x: And(wf0(x), self_member(x)))

    def post(x):
        h0, s = x.h0, x.a.self
        p, n, item = sibs(h0, s)
        ok = (lambda y: z3.BoolVal(True)) if z3.is_true(x.a.any_kind) else same_kind(h0, s)
        return x.r == fa_int(h0.pos(s) + 1, n, lambda i: Not(ok(item(i))), lambda i: h0.litem(h0._children(p), i))

    c.ensures("result <=> no later sibling of own kind", post)


# ------------------------------------------------------------------ TypedTree.first_child / last_child: the root's query
def _tree_first_last(which):
    def post(x):
        h0 = x.h0
        s = h0._root(x.a.self)
        n, item = children_seq(h0, s)
        anyk = z3.eq(x.a.kind, ANY_KIND)
        if anyk:  # every kind matches: the untyped answer
            want = item(0) if which == "first" else item(n - 1)
            if x.res.tag == "none":
                return n == 0
            return x.r == If(n == 0, NONE, want)
        ok = lambda y: kmatch(h0, y, x.a.kind)  # noqa: E731
        none_case = fa_int(0, n, lambda i: Not(ok(item(i))), lambda i: h0.litem(h0._children(s), i))
        if x.res.tag == "none":
            return none_case
        r = x.r
        m = L.fresh("m", L.I)
        rng = (lambda m: (0, m)) if which == "first" else (lambda m: (m + 1, n))
        hit = Exists([m], And(0 <= m, m < n, item(m) == r, ok(r), fa_int(*rng(m), lambda i: Not(ok(item(i))), lambda i: h0.litem(h0._children(s), i))))
        return If(r == NONE, none_case, hit)

    return post


for _which in ("first", "last"):
    @contract(f"nutree.typed_tree.TypedTree.{_which}_child", props=C15)
    def _(c, _which=_which):
        c.param("self", "tree").param("kind", "kind", "anykind")
        c.families = ("typed",)
        c.result_tag = "node?"
        c.pure()
        c.requires("wf", lambda x: wf0(x))
        c.requires("kind is a str", lambda x: kind_is_str(x) if not z3.eq(x.a.kind, ANY_KIND) else True)
        c.ensures(f"result == {_which} top-level node of that kind or None", _tree_first_last(_which))


# ------------------------------------------------------------------ TypedNode.move_to: not supported, refused before anything is touched
@contract(Q + "move_to", props=("C13",))
def _(c):
    """Typed nodes cannot be moved: every call is refused with NotImplementedError and nothing is written
    (C13: an unsupported move leaves the tree observably unchanged)."""
    c.param("self", "node").param("new_parent", "node", "tree").param("before", "none", "true", "int", "node")
    c.families = ("typed",)
    c.result_tag = "none"
    c.pure()
    c.requires("wf, self is a member", lambda x: And(wf0(x), x.h0.mem(x.T, x.a.self)))
    c.raises("NotImplementedError", when=lambda x: z3.BoolVal(True), ensures=lambda x: z3.BoolVal(not (x.h0.changed(x.h) - set(L.GHOST))), props=("C13",))
    c.ensures("never returns normally", lambda x: z3.BoolVal(False))
