"""Sidecar contracts, one module per source module / theme.  Importing this package
registers every contract in pyvc.contract.REGISTRY."""
from . import typed_queries, node_queries, lookups, callbacks, registry, mutators, lemmas, traversal, serial  # noqa: F401
