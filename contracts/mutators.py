"""C01 / C03 / C04 / C13 — mutators of Node (nutree/node.py): add_child (data path), ...
Positions follow the documented `before` rules (taken from the docstring, not the code)."""
from __future__ import annotations

import z3
from z3 import And, Exists, ForAll, If, Implies, Not, Or

from pyvc import logic as L
from pyvc.contract import contract
from .vocab import *  # noqa: F401,F403
from .lookups import calc_id
from pyvc.exprs import str_const
from .registry import NODE_FIELDS, TREE_FIELDS, fields_same_except, lists_same_except, dicts_same_except, alloc_monotone, obs_unchanged, obs_dicts_unchanged

NQ = "nutree.node.Node."
TN = "nutree.typed_tree.TypedNode."


def insert_pos(x, h0):
    """documented position of the new child: None/False append, True/0 prepend, int before that
    index, Node before that child."""
    s = x.a.self
    t = x.a.tag("before")
    n = h0.clen(s)
    if t == "none":
        return n
    if t == "bool":
        return If(x.a.before, 0, n)
    if t == "int":
        return If(x.a.before > n, n, x.a.before)  # an index behind the last child appends (list.insert)
    return h0.pos(x.a.before)


def inserted(h0, h, p, idx, new):
    """children'(p) == Take(old, idx) ++ [new] ++ Drop(old, idx)."""
    n = h0.clen(p)
    i = L.fresh("i", L.I)
    return And(h._children(p) != LNONE, h.llen(h._children(p)) == n + 1, h.child(p, idx) == new,
               ForAll([i], Implies(And(0 <= i, i < idx), h.child(p, i) == h0.child(p, i)), patterns=[h.litem(h._children(p), i)]),
               ForAll([i], Implies(And(idx < i, i <= n), h.child(p, i) == h0.child(p, i - 1)), patterns=[h.litem(h._children(p), i)]))


def other_childlists_same(x, T, *except_):
    h0, h = x.h0, x.h
    p, i = L.fresh("p", L.Ref), L.fresh("i", L.I)
    ne = lambda q: And(*[q != e for e in except_])  # noqa: E731
    return And(ForAll([p], Implies(And(h0.inP(T, p), ne(p)), And(h._children(p) == h0._children(p), h.clen(p) == h0.clen(p))), patterns=[h._children(p)]),
               ForAll([p, i], Implies(And(h0.inP(T, p), ne(p), 0 <= i, i < h0.clen(p)), h.child(p, i) == h0.child(p, i)), patterns=[h.litem(h._children(p), i)]))


def add_child_contract(c, typed, pos_fn=None, target_fn=None, kind_fn=None, has_before=True):
    """pos_fn(x, h0): documented insertion index; target_fn(x, h0): the parent that receives the child
    (default: self); kind_fn(x): the documented kind of the new node (typed trees)."""
    pos_fn = pos_fn or insert_pos
    target_fn = target_fn or (lambda x, h0: x.a.self)
    c.result_tag = "node"
    c.modifies("_data", "_parent", "_tree", "_children", "_data_id", "_node_id", "_meta", "_kind", "ddom", "dref", "dlst", "dcard", "llen", "litem", "lalloc", "alloc", "cpos", "rank", "pos")
    if has_before:
        c.requires("wf, self in P(T)", lambda x: And(wf0(x), self_in_P(x)))
        c.requires("an int position is not negative", lambda x: 0 <= x.a.before if x.a.tag("before") == "int" else True)
        c.requires("a `before` node belongs to the same tree", lambda x: x.h0.mem(x.T, x.a.before) if x.a.tag("before") == "ref" else True)
    c.requires("an explicit node_id is an int", lambda x: L.v_is_int(x.a.node_id) if x.a.tag("node_id") != "none" else True)
    if typed:
        c.requires("kind is a str or None", lambda x: And(L.v_is_str(x.a.kind), x.a.kind != ANY_KIND) if (x.a.has("kind") and x.a.tag("kind") != "none") else True)

    def is_node_child(x):
        return x.a.tag("child") == "ref"

    def data_of(x):
        """data object of the new node: the argument itself, or -- for a node argument -- the *same*
        data object as the source node (C07)."""
        return x.h0._data(x.a.child) if is_node_child(x) else x.a.child

    def did(x):
        if is_node_child(x):
            return x.h0._data_id(x.a.child)  # C07: a copy is filed under its source's data_id
        return x.a.data_id if x.a.tag("data_id") != "none" else calc_id(x.h0, x.T, x.a.child)

    def id_conflict(x):
        """an explicit data_id that differs from the source node's is refused (uniqueness error)"""
        if is_node_child(x) and x.a.tag("data_id") != "none":
            return And(L.v_truthy(x.a.data_id), Not(L.v_eq(x.a.data_id, x.h0._data_id(x.a.child))))
        return z3.BoolVal(False)

    c.requires("a node argument is a member of a well-formed tree", lambda x: And(wf(x.h0, x.h0._tree(x.a.child)), x.h0.mem(x.h0._tree(x.a.child), x.a.child)) if x.a.has("child") and is_node_child(x) else True)

    def clash(x):
        h0, s = x.h0, target_fn(x, x.h0)
        return ex_int(0, h0.clen(s), lambda i: h0._data_id(h0.child(s, i)) == did(x))

    def bad_before(x):
        if not has_before:
            return z3.BoolVal(False)
        return x.h0._parent(x.a.before) != x.a.self if x.a.tag("before") == "ref" else z3.BoolVal(False)

    def bad_nid(x):
        if x.a.tag("node_id") == "none":
            return z3.BoolVal(False)  # id(new object): collisions with user-supplied ids are covered by may_raise below
        return Or(Not(L.v_truthy(x.a.node_id)), x.h0.ddom(x.h0._node_by_id(x.T), x.a.node_id))

    c.raises("ValueError", when=bad_before, ensures=lambda x: And(obs_unchanged(x), wf1(x)), props=("C13", "C04"))
    def own_child(x):
        """the source node already is a child of the target (a special case of `clash`, stated for the prover)"""
        return And(x.h0._tree(x.a.child) == x.T, x.h0._parent(x.a.child) == target_fn(x, x.h0)) if is_node_child(x) else z3.BoolVal(False)

    c.raises("UniqueConstraintError", when=lambda x: And(Not(bad_before(x)), Or(own_child(x), id_conflict(x), And(Not(bad_nid(x)), clash(x)))), ensures=lambda x: And(obs_unchanged_but_fresh(x), wf1(x)), props=("C03", "C13"))
    c.may_raise("AssertionError", ensures=lambda x: And(obs_unchanged_but_fresh(x), wf1(x)), props=("C13",), name="node_id refused")
    if typed:  # see TypedNode.__init__: CPython reports the refused node id through the repr of the half-built node
        c.may_raise("AttributeError", ensures=lambda x: And(obs_unchanged_but_fresh(x), wf1(x)), props=("C13",), name="node_id refused (AttributeError from the assert message)")
    # only the data path calls the user's calc_data_id callback (a node argument brings its id along)
    c.may_raise("Callback", ensures=lambda x: And(obs_unchanged_but_fresh(x), wf1(x)), props=("C13",), name="calc_data_id callback raises",
                when=lambda x: z3.BoolVal(not is_node_child(x) and x.a.tag("data_id") == "none"))

    def post(x):
        h0, h, s, n = x.h0, x.h, target_fn(x, x.h0), x.r
        T = x.T
        idx = pos_fn(x, h0)
        o = L.fresh("o", L.Ref)
        cs = [
            wf1(x),
            n != NONE, Not(h0.alloc(n)), h.mem(T, n),
            inserted(h0, h, s, idx, n),
            h._data(n) == data_of(x), h._data_id(n) == did(x), h._parent(n) == s, h._tree(n) == T, h._children(n) == LNONE, h._meta(n) == DNONE,
            other_childlists_same(x, T, s),
            fields_same_except(x, tuple(f for f in NODE_FIELDS if f != "_children") + TREE_FIELDS, [n]),
            ForAll([o], Implies(And(o != s, o != n), h._children(o) == h0._children(o)), patterns=[h._children(o)]),
            Implies(h0._children(s) != LNONE, h._children(s) == h0._children(s)),
            ForAll([o], Implies(h0.mem(T, o), h.mem(T, o)), patterns=[h.mem(T, o)]) if False else True,
        ]
        if typed:
            cs.append(h._kind(n) == (kind_fn(x) if kind_fn else (x.a.kind if (x.a.has("kind") and x.a.tag("kind") != "none") else str_const("child"))))
        return And(*cs)

    c.ensures("new node at the documented position, same data object / data_id as a source node; wf; nothing else changed (source untouched)", post, props=("C01", "C02", "C03", "C04", "C07"))
    # ghost: sibling positions behind the insertion point shift up
    c.ghost_exit["pos"] = lambda x, o: If(o == x.r, pos_fn(x, x.h0), If(And(x.h0._parent(o) == target_fn(x, x.h0), x.h0.mem(x.T, o), x.h0.pos(o) >= pos_fn(x, x.h0)), x.h0.pos(o) + 1, x.h0.pos(o)))


def obs_unchanged_but_fresh(x):
    """observably unchanged: all pre-existing objects, lists and dicts are as before (a fresh,
    unreachable node object may have been initialised)."""
    h0, h = x.h0, x.h
    o = L.fresh("o", L.Ref)
    cs = []
    for f in NODE_FIELDS + TREE_FIELDS:
        if not z3.eq(h0.f(f), h.f(f)):
            cs.append(ForAll([o], Implies(h0.alloc(o), h.f(f)(o) == h0.f(f)(o)), patterns=[h.f(f)(o)]))
    l, i = L.fresh("l", L.LRef), L.fresh("i", L.I)
    if not (z3.eq(h0.llen, h.llen) and z3.eq(h0.litem, h.litem)):
        cs += [ForAll([l], Implies(h0.lalloc(l), h.llen(l) == h0.llen(l)), patterns=[h.llen(l)]), ForAll([l, i], Implies(h0.lalloc(l), h.litem(l, i) == h0.litem(l, i)), patterns=[h.litem(l, i)])]
    cs.append(obs_dicts_unchanged(x, pre_existing_only=True))
    cs.append(alloc_monotone(x))
    return And(*cs)


@contract(NQ + "add_child", props=("C01", "C02", "C03", "C04", "C07", "C13"))
def _(c):
    c.param("self", "node").param("child", "data", "node").param("before", "none", "bool", "int", "node").param("deep", "none", "false").param("data_id", "none", "id").param("node_id", "none", "id")
    c.families = ("plain",)
    add_child_contract(c, typed=False)


@contract(TN + "add_child", props=("C01", "C02", "C03", "C04", "C13"))
def _(c):
    c.param("self", "node").param("child", "data").param("kind", "none", "kind").param("before", "none", "bool", "int", "node").param("deep", "none").param("data_id", "none", "id").param("node_id", "none", "id")
    c.families = ("typed",)
    add_child_contract(c, typed=True)


# ------------------------------------------------------------------ metadata API (C04)
def meta_frame(x):
    """only self._meta (and the content of self's meta dict / a fresh dict) may change."""
    h0, h, s = x.h0, x.h, x.a.self
    m0 = h0._meta(s)
    d, k = L.fresh("d", L.DRef), L.fresh("k", L.Val)
    cs = [fields_same_except(x, NODE_FIELDS + TREE_FIELDS, [s]), fields_same_except(x, tuple(f for f in NODE_FIELDS if f != "_meta"), []), lists_same_except(x, [])]
    for comp in ("ddom", "dval", "dref", "dlst"):
        if not z3.eq(h0.f(comp), h.f(comp)):
            cs.append(ForAll([d, k], Implies(And(h0.dalloc(d), d != m0), h.f(comp)(d, k) == h0.f(comp)(d, k)), patterns=[h.f(comp)(d, k)]))
    if not z3.eq(h0.dcard, h.dcard):
        cs.append(ForAll([d], Implies(And(h0.dalloc(d), d != m0), h.dcard(d) == h0.dcard(d)), patterns=[h.dcard(d)]))
    return And(*cs)


def meta_has(h, s, k):
    return And(h._meta(s) != DNONE, h.ddom(h._meta(s), k))


def meta_pre(c):
    c.requires("self is an allocated node whose meta dict (if any) is allocated", lambda x: And(x.h0.alloc(x.a.self), Implies(x.h0._meta(x.a.self) != DNONE, And(x.h0.dalloc(x.h0._meta(x.a.self)), x.h0.dcard(x.h0._meta(x.a.self)) >= 1, meta_card_sound(x.h0, x.h0._meta(x.a.self))))))


def meta_card_sound(h, m):
    """dict contract: len(d) == 0 iff no key (the only cardinality fact the meta API relies on)."""
    k = L.fresh("k", L.Val)
    return ForAll([k], Implies(h.ddom(m, k), h.dcard(m) >= 1), patterns=[h.ddom(m, k)])


@contract(NQ + "get_meta", props=("C04",))
def _(c):
    c.param("self", "node").param("key", "data").param("default", "none", "data")
    c.result_tag = "val"
    c.pure()
    meta_pre(c)

    def post(x):
        h0, s = x.h0, x.a.self
        dflt = x.a.default if x.a.tag("default") != "none" else VNONE
        exp = If(meta_has(h0, s, x.a.key), h0.dval(h0._meta(s), x.a.key), dflt)
        return (exp == VNONE) if x.res.tag == "none" else (x.r == exp)

    c.ensures("result == meta[key] if present else default", post)


@contract(NQ + "clear_meta", props=("C04",))
def _(c):
    c.param("self", "node").param("key", "none", "data")
    c.result_tag = "none"
    c.modifies("_meta", "ddom", "dcard")
    meta_pre(c)

    def post(x):
        h0, h, s = x.h0, x.h, x.a.self
        m0 = h0._meta(s)
        if x.a.tag("key") == "none":
            return And(h._meta(s) == DNONE, meta_frame(x))
        k = L.fresh("k", L.Val)
        removed = And(ForAll([k], h.ddom(m0, k) == And(h0.ddom(m0, k), k != x.a.key), patterns=[h.ddom(m0, k)]),
                      h.dcard(m0) == h0.dcard(m0) - If(h0.ddom(m0, x.a.key), 1, 0))
        return And(meta_frame(x), If(m0 == DNONE, h._meta(s) == DNONE, And(removed, h._meta(s) == If(h.dcard(m0) == 0, DNONE, m0))))

    c.ensures("entry (or everything) removed; meta is None when empty", post)


@contract(NQ + "set_meta", props=("C04",))
def _(c):
    c.param("self", "node").param("key", "data").param("value", "none", "data")
    c.result_tag = "none"
    c.modifies("_meta", "ddom", "dval", "dcard", "dalloc")
    meta_pre(c)

    def post(x):
        h0, h, s = x.h0, x.h, x.a.self
        m0 = h0._meta(s)
        k = L.fresh("k", L.Val)
        if x.a.tag("value") == "none":  # == clear_meta(key)
            removed = And(ForAll([k], h.ddom(m0, k) == And(h0.ddom(m0, k), k != x.a.key), patterns=[h.ddom(m0, k)]), h.dcard(m0) == h0.dcard(m0) - If(h0.ddom(m0, x.a.key), 1, 0))
            return And(meta_frame(x), If(m0 == DNONE, h._meta(s) == DNONE, And(removed, h._meta(s) == If(h.dcard(m0) == 0, DNONE, m0))))
        m = h._meta(s)
        return And(meta_frame(x), m != DNONE, If(m0 == DNONE, Not(h0.dalloc(m)), m == m0),
                   h.ddom(m, x.a.key), h.dval(m, x.a.key) == x.a.value,
                   ForAll([k], Implies(k != x.a.key, And(h.ddom(m, k) == If(m0 == DNONE, False, h0.ddom(m0, k)), Implies(h.ddom(m, k), h.dval(m, k) == h0.dval(m0, k)))), patterns=[h.ddom(m, k)]))

    c.ensures("meta[key] == value afterwards (value None removes), other entries untouched", post)


@contract(NQ + "update_meta", props=("C04",))
def _(c):
    c.param("self", "node").param("values", "dref").param("replace", "true", "false")
    c.result_tag = "none"
    c.modifies("_meta", "ddom", "dval", "dcard", "dalloc")
    meta_pre(c)
    c.requires("values is a dict other than the node's own meta dict", lambda x: And(x.a.values != x.h0._meta(x.a.self), meta_card_sound(x.h0, x.a.values)))

    def post(x):
        h0, h, s, v = x.h0, x.h, x.a.self, x.a.values
        m0, m = h0._meta(s), h._meta(s)
        k = L.fresh("k", L.Val)
        fresh_copy = And(Not(h0.dalloc(m)), ForAll([k], And(h.ddom(m, k) == h0.ddom(v, k), Implies(h0.ddom(v, k), h.dval(m, k) == h0.dval(v, k))), patterns=[h.ddom(m, k)]))
        merged = And(m == m0, ForAll([k], And(h.ddom(m, k) == Or(h0.ddom(m0, k), h0.ddom(v, k)), Implies(h0.ddom(v, k), h.dval(m, k) == h0.dval(v, k)), Implies(And(h0.ddom(m0, k), Not(h0.ddom(v, k))), h.dval(m, k) == h0.dval(m0, k))), patterns=[h.ddom(m, k)]))
        replace = z3.is_true(x.a.replace)
        new_case = If(h0.dcard(v) == 0, m == DNONE, And(m != DNONE, fresh_copy))
        body = new_case if replace else If(m0 == DNONE, new_case, And(m != DNONE, merged))
        # the argument dict itself is never modified
        arg_same = ForAll([k], And(h.ddom(v, k) == h0.ddom(v, k), h.dval(v, k) == h0.dval(v, k)), patterns=[h.ddom(v, k)])
        return And(meta_frame_upd(x), body, arg_same)

    c.ensures("meta == values (replace) or meta | values; None when empty; argument untouched", post)


def meta_frame_upd(x):
    h0, h, s = x.h0, x.h, x.a.self
    m0 = h0._meta(s)
    d, k = L.fresh("d", L.DRef), L.fresh("k", L.Val)
    cs = [fields_same_except(x, NODE_FIELDS + TREE_FIELDS, [s]), fields_same_except(x, tuple(f for f in NODE_FIELDS if f != "_meta"), []), lists_same_except(x, [])]
    for comp in ("ddom", "dval"):
        if not z3.eq(h0.f(comp), h.f(comp)):
            cs.append(ForAll([d, k], Implies(And(h0.dalloc(d), d != m0), h.f(comp)(d, k) == h0.f(comp)(d, k)), patterns=[h.f(comp)(d, k)]))
    return And(*cs)


# ------------------------------------------------------------------ move_to (C01 C03 C04 C13)
def target_of(x, h):
    """the node that becomes the new parent: new_parent itself, or the root of the tree passed."""
    np_ = x.a.sv("new_parent")
    return h._root(np_.z) if np_.cls == "Tree" else np_.z


def in_subtree(h, y, s):
    """y == s or y is a proper descendant of s."""
    return Or(y == s, L.is_desc(h, y, s))


@contract(NQ + "move_to", props=("C01", "C02", "C03", "C04", "C13"))
def _(c):
    c.param("self", "node").param("new_parent", "node", "othertree").param("before", "none", "bool", "int", "node")
    c.families = ("plain",)
    c.result_tag = "none"
    c.modifies("_parent", "_children", "llen", "litem", "lalloc", "pos", "rank")
    c.uses_lemmas = ("lemma.lemma_desc_rank",)
    c.requires("wf, self is a member", lambda x: And(wf0(x), self_member(x)))
    c.requires("the target belongs to a well-formed tree", lambda x: (x.h0.inP(x.h0._tree(x.a.new_parent), x.a.new_parent) if x.a.sv("new_parent").cls != "Tree" else z3.BoolVal(True)))
    c.requires("a tree argument is well-formed", lambda x: wf(x.h0, x.a.new_parent) if x.a.sv("new_parent").cls == "Tree" else wf(x.h0, x.h0._tree(x.a.new_parent)))
    c.requires("a `before` node belongs to the same tree", lambda x: x.h0.mem(x.T, x.a.before) if x.a.tag("before") == "ref" else True)

    def q0(x):
        return target_of(x, x.h0)

    def other_tree(x):
        np_ = x.a.sv("new_parent")
        return (np_.z != x.T) if np_.cls == "Tree" else (x.h0._tree(np_.z) != x.T)

    def below_itself(x):
        return in_subtree(x.h0, q0(x), x.a.self)

    def clash(x):
        h0, s, q = x.h0, x.a.self, q0(x)
        return And(q != h0._parent(s), ex_int(0, h0.clen(q), lambda i: h0._data_id(h0.child(q, i)) == h0._data_id(s)))

    def bad_before(x):
        return (x.h0._parent(x.a.before) != q0(x)) if x.a.tag("before") == "ref" else z3.BoolVal(False)

    def len_after_removal(x):
        h0, s, q = x.h0, x.a.self, q0(x)
        return h0.clen(q) - If(q == h0._parent(s), 1, 0)

    c.requires("an int position is not negative", lambda x: 0 <= x.a.before if x.a.tag("before") == "int" else True)

    unchanged = lambda x: And(obs_unchanged(x), wf1(x))  # noqa: E731
    c.raises("NotImplementedError", when=other_tree, ensures=unchanged, props=("C13",))
    c.raises("ValueError", when=lambda x: And(Not(other_tree(x)), Or(below_itself(x), And(Not(clash(x)), bad_before(x)))), ensures=unchanged, props=("C01", "C13"))
    c.raises("UniqueConstraintError", when=lambda x: And(Not(other_tree(x)), Not(below_itself(x)), clash(x)), ensures=unchanged, props=("C03", "C13"))

    def pos_after_removal(x, o):
        h0, s = x.h0, x.a.self
        return If(And(o != s, h0._parent(o) == h0._parent(s), h0.pos(o) > h0.pos(s)), h0.pos(o) - 1, h0.pos(o))

    def idx(x):
        t = x.a.tag("before")
        if t == "none":
            return len_after_removal(x)
        if t == "bool":
            return If(x.a.before, 0, len_after_removal(x))
        if t == "int":
            return If(x.a.before > len_after_removal(x), len_after_removal(x), x.a.before)  # behind the end: append
        return pos_after_removal(x, x.a.before)

    def noop(x):
        return And(x.a.before == x.a.self) if x.a.tag("before") == "ref" else z3.BoolVal(False)

    def post(x):
        h0, h, s = x.h0, x.h, x.a.self
        T, q, op = x.T, q0(x), x.h0._parent(x.a.self)
        me = h0.pos(s)
        i = L.fresh("i", L.I)
        o = L.fresh("o", L.Ref)
        k = idx(x)
        n_op = h0.clen(op)
        # children of the old parent (when it is not also the new one): old list without self
        removed = And(h.clen(op) == n_op - 1,
                      ForAll([i], Implies(And(0 <= i, i < n_op - 1), h.child(op, i) == If(i < me, h0.child(op, i), h0.child(op, i + 1))), patterns=[h.litem(h._children(op), i)]))
        nq = len_after_removal(x)
        old_q = lambda j: If(q == op, If(j < me, h0.child(q, j), h0.child(q, j + 1)), h0.child(q, j))  # noqa: E731  target list without self
        inserted_q = And(h.clen(q) == nq + 1, h.child(q, k) == s,
                         ForAll([i], Implies(And(0 <= i, i < k), h.child(q, i) == old_q(i)), patterns=[h.litem(h._children(q), i)]),
                         ForAll([i], Implies(And(k < i, i <= nq), h.child(q, i) == old_q(i - 1)), patterns=[h.litem(h._children(q), i)]))
        moved = And(
            wf1(x),
            h._parent(s) == q,
            Implies(q != op, removed), inserted_q,
            other_childlists_same(x, T, op, q),
            ForAll([o], Implies(o != s, h._parent(o) == h0._parent(o)), patterns=[h._parent(o)]),
            ForAll([o], Implies(And(o != op, o != q), h._children(o) == h0._children(o)), patterns=[h._children(o)]),
        )
        return If(noop(x), And(obs_unchanged(x), wf1(x)), moved)

    c.may_raise("AssertionError", ensures=unchanged, props=("C13",), name="a tree of another class as target")
    c.ensures("self is the child of the target at the documented position, removed from its old parent; wf; frame", post)

    def hint_index_of(x):
        # the list searched is the target's list after self was taken out: `before` sits at its shifted position
        if x.call_args.tag("node") != "ref" or x.a.tag("before") != "ref":
            return z3.BoolVal(True)
        lst = x.call_args.node_list
        return If(x.call_args.node == x.a.before, x.h.litem(lst, pos_after_removal(x, x.a.before)) == x.a.before, True)

    c.call_hints["_index_of"] = hint_index_of
    c.ghost_exit["pos"] = lambda x, o: If(noop(x), x.h0.pos(o), If(o == x.a.self, idx(x), If(And(o != x.a.self, x.h0._parent(o) == q0(x), x.h0.mem(x.T, o), pos_after_removal(x, o) >= idx(x)), pos_after_removal(x, o) + 1, pos_after_removal(x, o))))
    c.ghost_exit["rank"] = lambda x, o: If(And(Not(noop(x)), in_subtree(x.h0, o, x.a.self), x.h0.mem(x.T, o)), x.h0.rank(o) - x.h0.rank(x.a.self) + x.h0.rank(q0(x)) + 1, x.h0.rank(o))
    # loop 1: `for n in new_parent._children or ()` -- no child of the target carries self's data_id
    c.loop(1).invariant = lambda x: fa_int(0, x.k, lambda j: x.h0._data_id(x.h0.child(target_of(x, x.h0), j)) != x.h0._data_id(x.a.self), lambda j: x.h0.litem(x.h0._children(target_of(x, x.h0)), j))
    c.loop(1).modifies = ()


# ------------------------------------------------------------------ remove / remove_children (C01 C02 C04)
def removed_set(h0, T, s, with_self):
    """x is removed: a proper descendant of s (or s itself)."""
    if with_self:
        return lambda o: in_subtree(h0, o, s)
    # E / is_desc walk through non-root nodes only: below the invisible root, every member is a descendant
    return lambda o: Or(L.is_desc(h0, o, s), And(s == h0._root(T), h0.mem(T, o)))


def survivors_frame(x, T, gone, extra_lists=()):
    """every surviving node keeps identity, data, id, meta, kind, parent; every surviving parent
    other than those in `extra_lists` keeps its child list (object and content)."""
    h0, h = x.h0, x.h
    o, i = L.fresh("o", L.Ref), L.fresh("i", L.I)
    cs = []
    for f in NODE_FIELDS:
        if f == "_children" or z3.eq(h0.f(f), h.f(f)):
            continue
        cs.append(ForAll([o], Implies(Not(gone(o)), h.f(f)(o) == h0.f(f)(o)), patterns=[h.f(f)(o)]))
    ne = lambda q: And(*[q != e for e in extra_lists]) if extra_lists else z3.BoolVal(True)  # noqa: E731
    cs.append(ForAll([o], Implies(And(Not(gone(o)), ne(o)), h._children(o) == h0._children(o)), patterns=[h._children(o)]))
    cs.append(ForAll([o], Implies(And(h0.inP(T, o), Not(gone(o)), ne(o)), h.clen(o) == h0.clen(o)), patterns=[h._children(o)]))
    cs.append(ForAll([o, i], Implies(And(h0.inP(T, o), Not(gone(o)), ne(o), 0 <= i, i < h0.clen(o)), h.child(o, i) == h0.child(o, i)), patterns=[h.litem(h._children(o), i)]))
    cs.append(fields_same_except(x, TREE_FIELDS, []))
    return And(*cs)


def members_minus(x, T, gone):
    h0, h = x.h0, x.h
    o = L.fresh("o", L.Ref)
    return ForAll([o], h.mem(T, o) == And(h0.mem(T, o), Not(gone(o))), patterns=[h.mem(T, o)]) if False else \
        And(ForAll([o], Implies(And(h0.mem(T, o), Not(gone(o))), h.mem(T, o)), patterns=[h0._node_id(o)]),
            ForAll([o], Implies(h.mem(T, o), And(h0.mem(T, o), Not(gone(o)))), patterns=[h._node_id(o)]))


@contract(NQ + "remove_children", props=("C01", "C02", "C04"))
def _(c):
    """ASSUMED here, decided by the bounded tier: the loop consumes the generator _iter_post()
    while _unregister clears the yielded nodes (generator under mutation, DESIGN §3.2)."""
    c.param("self", "node")
    c.result_tag = "none"
    c.modifies("_tree", "_parent", "_data", "_data_id", "_node_id", "_children", "_meta", "ddom", "dcard", "llen", "litem", "cpos")
    c.assumed = True
    c.assumed_reason = "generator consumed under mutation; contract checked by the bounded tier (native/props/mut.py, op remove_children)"
    c.requires("wf", lambda x: And(wf0(x), self_in_P(x)))

    def post(x):
        h0, h, s, T = x.h0, x.h, x.a.self, x.T
        gone = removed_set(h0, T, s, with_self=False)
        o = L.fresh("o", L.Ref)
        return And(wf1(x), h._children(s) == LNONE, members_minus(x, T, gone), survivors_frame(x, T, gone, extra_lists=(s,)),
                   ForAll([o], Implies(Not(gone(o)), And(h.pos(o) == h0.pos(o), h.rank(o) == h0.rank(o))), patterns=[h.pos(o)]),
                   ForAll([o], Implies(And(h0.mem(T, o), gone(o)), h._tree(o) == NONE), patterns=[h._tree(o)]))

    c.ensures("all descendants unregistered, self is a leaf, everything else unchanged", post)


@contract(NQ + "remove", props=("C01", "C02", "C03", "C04", "C13"))
def _(c):
    c.param("self", "node").param("keep_children", "false", "true").param("with_clones", "false")
    c.families = ("plain", "typed")
    c.uses_lemmas = ("lemma.lemma_desc_rank",)
    c.prune = True
    c.result_tag = "none"
    c.modifies("_tree", "_parent", "_data", "_data_id", "_node_id", "_children", "_meta", "ddom", "dcard", "llen", "litem", "lalloc", "cpos", "pos", "rank")
    c.requires("wf, self is a member", lambda x: And(wf0(x), self_member(x)))
    keep = lambda x: z3.is_true(x.a.keep_children)  # noqa: E731

    def clash(x):
        """un-nesting would put a child of self next to a sibling of self that carries the same data_id"""
        if not keep(x):
            return z3.BoolVal(False)
        h0, s = x.h0, x.a.self
        op = h0._parent(s)
        i, t = L.fresh("i", L.I), L.fresh("t", L.I)
        return z3.Exists([i, t], And(0 <= i, i < h0.clen(s), 0 <= t, t < h0.clen(op), h0.child(op, t) != s, h0._data_id(h0.child(s, i)) == h0._data_id(h0.child(op, t))))

    c.raises("UniqueConstraintError", when=clash, ensures=lambda x: And(obs_unchanged_but_fresh(x), wf1(x)), props=("C03", "C13"))

    def post(x):
        h0, h, s, T = x.h0, x.h, x.a.self, x.T
        op, me = h0._parent(s), h0.pos(s)
        i = L.fresh("i", L.I)
        o = L.fresh("o", L.Ref)
        n_op = h0.clen(op)
        if not keep(x):
            gone = removed_set(h0, T, s, with_self=True)
            return And(
                wf1(x), members_minus(x, T, gone),
                h.clen(op) == n_op - 1,
                ForAll([i], Implies(And(0 <= i, i < n_op - 1), h.child(op, i) == If(i < me, h0.child(op, i), h0.child(op, i + 1))), patterns=[h.litem(h._children(op), i)]),
                survivors_frame(x, T, gone, extra_lists=(op,)),
                h._tree(s) == NONE, h._parent(s) == NONE,
            )
        # keep_children: the children are spliced in at the removed node's position, in order
        m = h0.clen(s)
        gone = lambda y: y == s  # noqa: E731
        cs = [
            wf1(x), members_minus(x, T, gone),
            h.clen(op) == n_op - 1 + m,
            ForAll([i], Implies(And(0 <= i, i < n_op - 1 + m), h.child(op, i) == If(i < me, h0.child(op, i), If(i < me + m, h0.child(s, i - me), h0.child(op, i - m + 1)))), patterns=[h.litem(h._children(op), i)]),
            ForAll([o], Implies(o != s, h._parent(o) == If(And(h0.mem(T, o), h0._parent(o) == s), op, h0._parent(o))), patterns=[h._parent(o)]),
            h._tree(s) == NONE, h._parent(s) == NONE,
            fields_same_except(x, tuple(f for f in NODE_FIELDS if f not in ("_children", "_parent")) + TREE_FIELDS, [s]),
            ForAll([o], Implies(And(o != s, o != op), h._children(o) == h0._children(o)), patterns=[h._children(o)]),
            other_childlists_same(x, T, op, s),
        ]
        return And(*cs)

    c.ensures("self (and, unless keep_children, its branch) is gone; the old parent's list lost exactly self / got self's children in its place; everything else unchanged", post)

    def pos_exit(x, o):
        h0, s = x.h0, x.a.self
        me, m = h0.pos(s), h0.clen(s)
        if keep(x):
            return If(And(h0._parent(o) == s, h0.mem(x.T, o)), me + h0.pos(o), If(And(o != s, h0._parent(o) == h0._parent(s), h0.pos(o) > me), h0.pos(o) + m - 1, h0.pos(o)))
        return If(And(o != s, h0._parent(o) == h0._parent(s), h0.pos(o) > me), h0.pos(o) - 1, h0.pos(o))

    c.ghost_exit["pos"] = pos_exit
    c.ghost_exit["rank"] = lambda x, o: (If(And(L.is_desc(x.h0, o, x.a.self), x.h0.mem(x.T, o)), x.h0.rank(o) - 1, x.h0.rank(o)) if keep(x) else x.h.rank(o))
    # ghost assert before `_index_of(pc, self)`: self sits at its position of the parent's list (shifted by the splice)
    def hint_index_of(x):
        h0, s = x.h0, x.a.self
        lst = x.call_args.node_list
        me, m = h0.pos(s), (h0.clen(s) if keep(x) else 0)
        n_op = h0.clen(h0._parent(s))
        at = lambda k: And(0 <= k, k < x.h.llen(lst), x.h.litem(lst, k) == s)  # noqa: E731
        return Or(at(me), at(me + m))  # before / after the splice (either order of splicing around self is fine)

    c.call_hints["_index_of"] = hint_index_of

    # ---- loops (ordinals in source order): 1 validation over [self] | clones, 2 children of n, 3+4 nested-clone check (with_clones only: not reached here), 5 clones, 6 re-parenting
    def no_clash_for(x, n, upto=None):
        h0 = x.h0
        i, t = L.fresh("i", L.I), L.fresh("t", L.I)
        hi = h0.clen(n) if upto is None else upto
        sib = h0.litem(h0._children(h0._parent(n)), t)
        return ForAll([i, t], Implies(And(0 <= i, i < hi, 0 <= t, t < h0.clen(h0._parent(n)), sib != n), h0._data_id(h0.child(n, i)) != h0._data_id(sib)), patterns=[z3.MultiPattern(h0.litem(h0._children(n), i), sib)])

    c.loop(1).invariant = lambda x: And(x.h.llen(x.it.z) == 1, x.h.litem(x.it.z, 0) == x.a.self, Implies(x.k >= 1, no_clash_for(x, x.a.self)))
    c.loop(1).modifies = ()
    c.loop(1).exit_facts = [lambda x: no_clash_for(x, x.a.self)]
    c.loop(2).invariant = lambda x: And(x.v.n == x.a.self, no_clash_for(x, x.a.self, upto=x.k))
    c.loop(2).modifies = ()
    c.loop(5).invariant = lambda x: z3.BoolVal(True)

    def inv_reparent(x):
        h0, h, s, T = x.h0, x.h, x.a.self, x.T
        op = h0._parent(s)
        o = L.fresh("o", L.Ref)
        return And(ForAll([o], h._parent(o) == If(And(h0.mem(T, o), h0._parent(o) == s, h0.pos(o) < x.k), op, h0._parent(o)), patterns=[h._parent(o)]),
                   Implies(h0._children(s) != LNONE, x.it.z == h0._children(s)))

    c.loop(6).invariant = inv_reparent
    c.loop(6).modifies = ("_parent",)


# ------------------------------------------------------------------ shortcuts (C04): instances of add_child's contract
def shortcut(qual, typed, pos_fn, target_fn=None, kind_fn=None, member=False, with_kind=False):
    @contract(qual, props=("C01", "C03", "C04", "C13"))
    def _(c):
        c.param("self", "node").param("child", "data")
        if with_kind:
            c.param("kind", "none", "kind")
        c.param("deep", "none").param("data_id", "none", "id").param("node_id", "none")
        c.families = ("typed",) if typed else ("plain",)
        c.requires("wf", (lambda x: And(wf0(x), self_member(x))) if member else (lambda x: And(wf0(x), self_in_P(x))))
        add_child_contract(c, typed, pos_fn=pos_fn, target_fn=target_fn, kind_fn=kind_fn, has_before=False)
        c.ghost_exit.pop("pos", None)  # the witnesses established by the delegate's contract are kept
    return _


par = lambda x, h0: h0._parent(x.a.self)  # noqa: E731
shortcut(NQ + "append_child", False, lambda x, h0: h0.clen(x.a.self))
shortcut(NQ + "prepend_child", False, lambda x, h0: z3.IntVal(0))
shortcut(NQ + "prepend_sibling", False, lambda x, h0: h0.pos(x.a.self), target_fn=par, member=True)
shortcut(NQ + "append_sibling", False, lambda x, h0: h0.pos(x.a.self) + 1, target_fn=par, member=True)
shortcut(TN + "append_child", True, lambda x, h0: h0.clen(x.a.self), with_kind=True)
shortcut(TN + "prepend_child", True, lambda x, h0: z3.IntVal(0), with_kind=True)
shortcut(TN + "prepend_sibling", True, lambda x, h0: h0.pos(x.a.self), target_fn=par, member=True, kind_fn=lambda x: x.h0._kind(x.a.self))
shortcut(TN + "append_sibling", True, lambda x, h0: h0.pos(x.a.self) + 1, target_fn=par, member=True, kind_fn=lambda x: x.h0._kind(x.a.self))


# ------------------------------------------------------------------ Tree-level delegates
root_target = lambda x, h0: h0._root(x.a.self)  # noqa: E731


def tree_add_child(qual, typed):
    @contract(qual, props=("C01", "C02", "C03", "C04", "C13"))
    def _(c):
        c.param("self", "tree").param("child", "data")
        if typed:
            c.param("kind", "none", "kind")
        c.param("before", "none", "bool", "int", "node").param("deep", "none").param("data_id", "none", "id").param("node_id", "none", "id")
        c.families = ("typed",) if typed else ("plain",)
        c.requires("wf", lambda x: wf0(x))
        c.requires("an int position is not negative", lambda x: 0 <= x.a.before if x.a.tag("before") == "int" else True)
        c.requires("a `before` node belongs to the same tree", lambda x: x.h0.mem(x.T, x.a.before) if x.a.tag("before") == "ref" else True)

        def pos(x, h0):
            r = h0._root(x.a.self)
            t = x.a.tag("before")
            n = h0.clen(r)
            if t == "none":
                return n
            if t == "bool":
                return If(x.a.before, 0, n)
            if t == "int":
                return If(x.a.before > n, n, x.a.before)
            return h0.pos(x.a.before)

        add_child_contract(c, typed, pos_fn=pos, target_fn=root_target, has_before=False)
        c.ghost_exit.pop("pos", None)
        # `before=<node>` that is not a top-level node is refused
        c.raises_.insert(0, __import__("pyvc.contract", fromlist=["Raises"]).Raises("ValueError", (lambda x: (x.h0._parent(x.a.before) != x.h0._root(x.a.self)) if x.a.tag("before") == "ref" else z3.BoolVal(False)), (lambda x: And(obs_unchanged(x), wf1(x))), ("C13", "C04"), "ValueError"))
    return _


tree_add_child("nutree.tree.Tree.add_child", False)
tree_add_child("nutree.typed_tree.TypedTree.add_child", True)


@contract("nutree.tree.Tree.clear", props=("C01", "C02", "C04"))
def _(c):
    c.param("self", "tree")
    c.result_tag = "none"
    c.modifies("_tree", "_parent", "_data", "_data_id", "_node_id", "_children", "_meta", "ddom", "dcard", "llen", "litem", "cpos")
    c.requires("wf", lambda x: wf0(x))
    o = L.fresh("o", L.Ref)
    c.ensures("no members left, root has no children, tree well-formed", lambda x: And(wf1(x), x.h._children(x.h._root(x.a.self)) == LNONE, x.h.clen(x.h._root(x.a.self)) == 0,
                                                                                     ForAll([o], Not(x.h.mem(x.a.self, o)), patterns=[x.h._node_id(o)])))


@contract("nutree.tree.Tree.__delitem__", props=("C01", "C02", "C04", "C09"))
def _(c):
    c.param("self", "tree").param("data", "data")
    c.families = ("plain",)
    c.result_tag = "none"
    c.uses_lemmas = ("lemma.lemma_desc_rank",)
    c.modifies("_tree", "_parent", "_data", "_data_id", "_node_id", "_children", "_meta", "ddom", "dcard", "llen", "litem", "lalloc", "cpos", "pos")
    c.requires("wf", lambda x: wf0(x))
    c.requires("bool keys excluded", lambda x: Not(L.v_is_bool(x.a.data)))
    c.may_raise("KeyError", ensures=lambda x: unchanged_lists(x), props=("C09", "C13"))
    c.may_raise("AmbiguousMatchError", ensures=lambda x: unchanged_lists(x), props=("C09", "C13"))
    c.may_raise("Callback", ensures=None, name="callback raises")
    c.ensures("tree well-formed afterwards", lambda x: wf1(x))


# ------------------------------------------------------------------ set_data / rename (C02 C03 C04 C13)
@contract(NQ + "set_data", props=("C01", "C02", "C03", "C04", "C13"))
def _(c):
    c.param("self", "node").param("data", "none", "data").param("data_id", "none", "id").param("with_clones", "none", "true", "false")
    c.families = ("plain", "typed")
    c.prune = True  # correlated branch conditions: infeasible paths are cut at every `if`
    c.result_tag = "none"
    c.modifies("_data", "_data_id", "ddom", "dlst", "dcard", "llen", "litem", "lalloc", "cpos")
    c.requires("wf, self is a member", lambda x: And(wf0(x), self_member(x)))

    def new_data(x):
        """(changes?, value)"""
        if x.a.tag("data") == "none":
            return z3.BoolVal(False), None
        d = x.a.data
        same = If(Or(L.v_is_str(d), L.v_is_int(d), L.v_is_str(x.h0._data(x.a.self)), L.v_is_int(x.h0._data(x.a.self))), L.v_same(d, x.h0._data(x.a.self)), d == x.h0._data(x.a.self))
        return Not(same), d

    def new_id(x):
        """(changes?, value): explicit id, else calc(data) when the data changes"""
        h0, s = x.h0, x.a.self
        chg_d, d = new_data(x)
        if x.a.tag("data_id") != "none":
            v = x.a.data_id
            return v != h0._data_id(s), v
        if d is None:
            return z3.BoolVal(False), h0._data_id(s)
        v = calc_id(h0, x.T, d)
        return And(chg_d, v != h0._data_id(s)), v

    def group(x):
        h0, s = x.h0, x.a.self
        return h0.clones(x.T, h0._data_id(s))

    def has_clones(x):
        return x.h0.llen(group(x)) > 1

    def whole_group(x):
        return And(has_clones(x), z3.BoolVal(x.a.tag("with_clones") == "bool" and z3.is_true(x.a.with_clones)))

    def is_target(x, o):
        h0, s = x.h0, x.a.self
        return If(whole_group(x), And(h0.mem(x.T, o), h0._data_id(o) == h0._data_id(s)), o == s)

    def missing(x):
        d_f = Not(And(x.a.data != VNONE, L.v_truthy(x.a.data))) if x.a.tag("data") != "none" else z3.BoolVal(True)
        i_f = Not(And(x.a.data_id != VNONE, L.v_truthy(x.a.data_id))) if x.a.tag("data_id") != "none" else z3.BoolVal(True)
        return And(d_f, i_f)

    def ambiguous(x):
        return And(has_clones(x), z3.BoolVal(x.a.tag("with_clones") == "none"))

    def clash(x):
        h0 = x.h0
        chg, nid = new_id(x)
        o = L.fresh("o", L.Ref)
        i = L.fresh("i", L.I)
        return And(chg, z3.Exists([o, i], And(is_target(x, o), h0.mem(x.T, o), 0 <= i, i < h0.clen(h0._parent(o)), h0.child(h0._parent(o), i) != o, h0._data_id(h0.child(h0._parent(o), i)) == nid)))

    unchanged = lambda x: And(obs_unchanged_but_fresh(x), wf1(x))  # noqa: E731
    c.raises("ValueError", when=missing, ensures=unchanged, props=("C13",))
    c.raises("AmbiguousMatchError", when=lambda x: And(Not(missing(x)), ambiguous(x)), ensures=unchanged, props=("C13", "C09"))
    c.raises("UniqueConstraintError", when=lambda x: And(Not(missing(x)), Not(ambiguous(x)), clash(x)), ensures=unchanged, props=("C03", "C13"))
    c.may_raise("Callback", ensures=unchanged, props=("C13",), name="calc_data_id callback raises")

    def post(x):
        h0, h, s, T = x.h0, x.h, x.a.self, x.T
        chg_d, d = new_data(x)
        chg_i, nid = new_id(x)
        o = L.fresh("o", L.Ref)
        wc_true = x.a.tag("with_clones") == "bool" and z3.is_true(x.a.with_clones)
        # which nodes get the new data: the whole group (with_clones), else self
        gets_data = (lambda y: And(h0.mem(T, y), h0._data_id(y) == h0._data_id(s))) if wc_true else (lambda y: y == s)
        cs = [
            wf1(x),
            ForAll([o], h._data_id(o) == If(And(chg_i, is_target(x, o)), nid, h0._data_id(o)), patterns=[h._data_id(o)]),
            fields_same_except(x, tuple(f for f in NODE_FIELDS if f not in ("_data", "_data_id")) + TREE_FIELDS, []),
            other_childlists_same(x, T),
            # membership is unchanged
            ForAll([o], h.mem(T, o) == h0.mem(T, o), patterns=[h._node_id(o)]) if False else True,
        ]
        if d is not None:
            cs.append(ForAll([o], h._data(o) == If(And(chg_d, If(chg_i, is_target(x, o), gets_data(o))), d, h0._data(o)), patterns=[h._data(o)]))
        else:
            cs.append(ForAll([o], h._data(o) == h0._data(o), patterns=[h._data(o)]) if not z3.eq(h._data, h0._data) else z3.BoolVal(True))
        return And(*cs)

    c.ensures("the addressed node(s) carry the new data / data_id and are indexed under it; nothing else changed; wf", post)

    def cpos_exit(x, o):
        h0, s, T = x.h0, x.a.self, x.T
        chg_i, nid = new_id(x)
        nbd = h0._nodes_by_data_id(T)
        base = If(h0.ddom(nbd, nid), h0.llen(h0.dlst(nbd, nid)), 0)
        moved_group = base + h0.cpos(o)
        single = If(o == s, base, If(And(h0._data_id(o) == h0._data_id(s), h0.cpos(o) > h0.cpos(s)), h0.cpos(o) - 1, h0.cpos(o)))
        return If(chg_i, If(whole_group(x), If(is_target(x, o), moved_group, h0.cpos(o)), single), h0.cpos(o))

    c.ghost_exit["cpos"] = cpos_exit
    # ghost assert before `_index_of(clone list, self)`: self sits at its clone position (so ValueError is impossible)
    c.call_hints["_index_of"] = lambda x: And(x.h.litem(x.call_args.node_list, x.h0.cpos(x.a.self)) == x.a.self, 0 <= x.h0.cpos(x.a.self), x.h0.cpos(x.a.self) < x.h.llen(x.call_args.node_list))

    # ---- loop invariants (ordinals in source order)
    def nid_now(x):
        return x.v.new_data_id

    def inv_outer(x):  # for n in (group | [self]): no sibling of the targets seen so far carries the new id
        h0 = x.h0
        it = x.it.z
        j, i = L.fresh("j", L.I), L.fresh("i", L.I)
        tj = x.h.litem(it, j)  # the iterated list may be the fresh literal [self]: read it in the current heap
        sib = h0.litem(h0._children(h0._parent(tj)), i)
        # one flat quantifier over (target index, sibling index); triggered by the sibling term
        return ForAll([j, i], Implies(And(0 <= j, j < x.k, 0 <= i, i < h0.clen(h0._parent(tj))), Or(sib == tj, h0._data_id(sib) != nid_now(x))), patterns=[sib])

    def inv_inner(x):
        h0 = x.h0
        n = x.v.n
        return fa_int(0, x.k, lambda i: Or(h0.child(h0._parent(n), i) == n, h0._data_id(h0.child(h0._parent(n), i)) != nid_now(x)), lambda i: h0.litem(h0._children(h0._parent(n)), i))

    def link_targets(x):
        """every target is an element of the iterated list (at its clone position / at 0)"""
        h0 = x.h0
        it = x.it.z
        o = L.fresh("o", L.Ref)
        return And(Implies(Not(whole_group(x)), And(x.h.llen(it) == 1, x.h.litem(it, 0) == x.a.self)),
                   Implies(whole_group(x), And(it == group(x), ForAll([o], Implies(And(h0.mem(x.T, o), h0._data_id(o) == h0._data_id(x.a.self)), And(0 <= h0.cpos(o), h0.cpos(o) < x.h.llen(it), x.h.litem(it, h0.cpos(o)) == o)), patterns=[h0.cpos(o)]))))

    def no_clash_summary(x):
        h0 = x.h0
        o, i = L.fresh("o", L.Ref), L.fresh("i", L.I)
        sib = h0.litem(h0._children(h0._parent(o)), i)
        return ForAll([o, i], Implies(And(is_target(x, o), h0.mem(x.T, o), 0 <= i, i < h0.clen(h0._parent(o)), sib != o), h0._data_id(sib) != nid_now(x)), patterns=[sib])

    c.loop(1).invariant = inv_outer
    c.loop(1).modifies = ()
    c.loop(1).exit_facts = [link_targets, no_clash_summary]
    c.loop(2).invariant = inv_inner
    c.loop(2).modifies = ()

    def inv_assign(which):
        def inv(x):
            h0, h = x.h0, x.h
            it = x.it.z
            o = L.fresh("o", L.Ref)
            j = L.fresh("j", L.I)
            n = h0.llen(group(x))
            in_prefix = lambda y: And(h0.mem(x.T, y), h0._data_id(y) == h0._data_id(x.a.self), h0.cpos(y) < x.k)  # noqa: E731
            cs = [it == group(x), x.k <= n]
            if which == "id+data":
                cs.append(ForAll([o], h._data_id(o) == If(in_prefix(o), x.v.new_data_id, h0._data_id(o)), patterns=[h._data_id(o)]))
                if x.v.has("new_data") and x.v.sv("new_data").tag != "none":
                    cs.append(ForAll([o], h._data(o) == If(in_prefix(o), x.v.new_data, h0._data(o)), patterns=[h._data(o)]))
                else:
                    cs.append(ForAll([o], h._data(o) == h0._data(o), patterns=[h._data(o)]))
            else:
                cs.append(ForAll([o], h._data(o) == If(in_prefix(o), x.a.data, h0._data(o)), patterns=[h._data(o)]))
            return And(*cs)
        return inv

    c.loop(3).invariant = inv_assign("id+data")
    c.loop(3).modifies = ("_data_id", "_data")
    c.loop(4).invariant = inv_assign("data")
    c.loop(4).modifies = ("_data",)


@contract(NQ + "rename", props=("C01", "C02", "C03", "C04", "C13"))
def _(c):
    c.param("self", "node").param("new_name", "data")
    c.families = ("plain", "typed")
    c.result_tag = "none"
    c.modifies("_data", "_data_id", "ddom", "dlst", "dcard", "llen", "litem", "lalloc", "cpos")
    c.requires("wf, self is a member", lambda x: And(wf0(x), self_member(x)))
    unchanged = lambda x: And(obs_unchanged_but_fresh(x), wf1(x))  # noqa: E731
    c.raises("ValueError", when=lambda x: Or(Not(L.v_is_str(x.h0._data(x.a.self))), Not(L.v_truthy(x.a.new_name))), ensures=unchanged, props=("C13",))
    c.may_raise("AmbiguousMatchError", ensures=unchanged, props=("C13",))
    c.may_raise("UniqueConstraintError", ensures=unchanged, props=("C03", "C13"))
    c.may_raise("Callback", ensures=unchanged, props=("C13",), name="calc_data_id callback raises")
    c.ensures("only data / data_id of the node changed; tree well-formed (index exact)", lambda x: And(wf1(x), fields_same_except(x, tuple(f for f in NODE_FIELDS if f not in ("_data", "_data_id")) + TREE_FIELDS, []), other_childlists_same(x, x.T)))


# ------------------------------------------------------------------ copy_to(add_self=True): instance of add_child(node)
@contract(NQ + "copy_to", props=("C03", "C07", "C13"))
def _(c):
    c.param("self", "node").param("target", "node").param("add_self", "true").param("before", "none", "bool", "int", "node").param("deep", "false")
    c.families = ("plain",)
    c.requires("wf of the source's tree; self is a member", lambda x: And(wf0(x), self_member(x)))
    c.requires("the target belongs to a well-formed tree", lambda x: And(wf(x.h0, x.h0._tree(x.a.target)), x.h0.inP(x.h0._tree(x.a.target), x.a.target)))
    c.requires("an int position is not negative", lambda x: 0 <= x.a.before if x.a.tag("before") == "int" else True)
    c.requires("a `before` node belongs to the target's tree", lambda x: x.h0.mem(x.h0._tree(x.a.target), x.a.before) if x.a.tag("before") == "ref" else True)
    c.result_tag = "node"
    c.modifies("_data", "_parent", "_tree", "_children", "_data_id", "_node_id", "_meta", "_kind", "ddom", "dref", "dlst", "dcard", "llen", "litem", "lalloc", "alloc", "cpos", "rank", "pos")
    Tt = lambda x: x.h0._tree(x.a.target)  # noqa: E731
    unchanged = lambda x: And(obs_unchanged_but_fresh(x), wf(x.h, Tt(x)))  # noqa: E731
    c.raises("ValueError", when=lambda x: (x.h0._parent(x.a.before) != x.a.target) if x.a.tag("before") == "ref" else z3.BoolVal(False), ensures=unchanged, props=("C13",))
    c.raises("UniqueConstraintError", when=lambda x: And((x.h0._parent(x.a.before) == x.a.target) if x.a.tag("before") == "ref" else True,
                                                          ex_int(0, x.h0.clen(x.a.target), lambda i: x.h0._data_id(x.h0.child(x.a.target, i)) == x.h0._data_id(x.a.self))), ensures=unchanged, props=("C03", "C13"))
    c.may_raise("AssertionError", ensures=unchanged, props=("C13",), name="node id refused")

    def post(x):
        h0, h, s, t, n = x.h0, x.h, x.a.self, x.a.target, x.r
        tg = x.a.tag("before")
        ln = h0.clen(t)
        idx = ln if tg == "none" else (If(x.a.before, 0, ln) if tg == "bool" else (If(x.a.before > ln, ln, x.a.before) if tg == "int" else h0.pos(x.a.before)))
        return And(wf(h, Tt(x)), n != NONE, Not(h0.alloc(n)), h.mem(Tt(x), n), inserted(h0, h, t, idx, n),
                   h._data(n) == h0._data(s), h._data_id(n) == h0._data_id(s), h._parent(n) == t, h._children(n) == LNONE,
                   fields_same_except(x, tuple(f for f in NODE_FIELDS if f != "_children") + TREE_FIELDS, [n]),
                   other_childlists_same(x, Tt(x), t))

    c.ensures("a fresh node with the source's data object and data_id at the documented position of the target; everything else (incl. the source) unchanged", post)


def below_only(x, h_from, h_to, s):
    """deep=True: list items differ between the two heaps only in the child list of s and in child lists of nodes that
    lie deeper than s (rank = ghost depth; every node of the branch below s does).  Together with the unchanged parent
    links, list objects and lengths (not in the modifies clause) and wf afterwards, every such child list is a
    permutation of its former content."""
    l, i, q = L.fresh("l", L.LRef), L.fresh("i", L.I), L.fresh("q", L.Ref)
    return ForAll([l, i], Or(h_to.litem(l, i) == h_from.litem(l, i),
                             Exists([q], And(h_from.inP(x.T, q), h_from._children(q) == l, l != LNONE, Or(q == s, h_from.rank(q) > h_from.rank(s))))), patterns=[h_to.litem(l, i)])


@contract(NQ + "sort_children", props=("C01", "C04", "C13"))
def _(c):
    """sort_children(key, reverse, deep=False): the child list of self -- the same list object -- holds a permutation of its
    former content (bijection witnessed by the assumed contract of list.sort; the *order by key* is not interpreted and stays
    with the bounded tier), nothing else changes, the tree stays well-formed.  A raising key callback leaves some permutation.
    deep=True: proved as well, with the frame "only the child list of self and child lists of deeper nodes change"; the
    recursion's termination is not proved."""
    c.param("self", "node").param("key", "none", "cb").param("reverse", "false", "true").param("deep", "false", "true")
    c.families = ("plain", "typed")
    c.result_tag = "none"
    c.modifies("litem", "pos")
    c.requires("wf", lambda x: And(wf0(x), self_in_P(x)))
    deep = lambda x: z3.is_true(x.a.deep)  # noqa: E731

    def deep_post(x):
        return And(below_only(x, x.h0, x.h, x.a.self), wf1(x))

    def permuted(x):
        h0, h, s = x.h0, x.h, x.a.self
        import contracts.vocab as V

        if V.RT_EVAL is not None:  # run-time cross-check: decide the existential natively (same list object, same nodes, each once)
            E = V.RT_EVAL
            n0, n1 = E.value(h0.clen(s)), E.value(h.clen(s))
            before = [E.value(h0.child(s, z3.IntVal(i))) for i in range(n0)]
            after = [E.value(h.child(s, z3.IntVal(i))) for i in range(n1)]
            return z3.BoolVal(bool(E.holds(h._children(s) == h0._children(s))) and sorted(map(id, before)) == sorted(map(id, after)))
        perms = x.p.ghost.get("perms") if getattr(x, "p", None) is not None else None
        if perms:
            _l, perm, inv = perms[-1]
        elif getattr(x, "p", None) is not None:  # own proof, a path on which nothing was sorted (0 or 1 child): nothing moved
            i0, l0 = L.fresh("i", L.I), L.fresh("l", L.LRef)
            return And(x.h._children(x.a.self) == x.h0._children(x.a.self), ForAll([l0, i0], x.h.litem(l0, i0) == x.h0.litem(l0, i0), patterns=[x.h.litem(l0, i0)]) if not z3.eq(x.h.litem, x.h0.litem) else z3.BoolVal(True))
        else:
            perm, inv = wit(x, "perm", (L.I, L.I)), wit(x, "perminv", (L.I, L.I))
        i = L.fresh("i", L.I)
        n = h0.clen(s)
        o = L.fresh("o", L.Ref)
        l = L.fresh("l", L.LRef)
        return And(
            h._children(s) == h0._children(s), h.clen(s) == n,
            ForAll([i], Implies(And(0 <= i, i < n), And(0 <= perm(i), perm(i) < n, inv(perm(i)) == i, h.child(s, i) == h0.child(s, perm(i)))), patterns=[h.litem(h._children(s), i)]),
            ForAll([i], Implies(And(0 <= i, i < n), And(0 <= inv(i), inv(i) < n, perm(inv(i)) == i)), patterns=[inv(i)]),
            ForAll([l, i], Implies(l != h0._children(s), h.litem(l, i) == h0.litem(l, i)), patterns=[h.litem(l, i)]),
        )

    c.ensures("deep=False: same list object, a permutation of the former children; every other list unchanged -- deep=True: only child lists of self and of deeper nodes change",
              lambda x: below_only(x, x.h0, x.h, x.a.self) if deep(x) else permuted(x))
    c.ensures("the tree stays well-formed", lambda x: wf1(x))
    c.may_raise("Callback", ensures=lambda x: deep_post(x) if deep(x) else And(permuted(x), wf1(x)), name="the key callback raises: still a permutation, still well-formed")
    # deep=True: `for c in cl: c.sort_children(deep=True)` -- the tree is well-formed before every recursive call, and what
    # changed so far lies in the list of self or deeper (so the iterated list `cl` itself is not touched by the calls)
    c.loop(1).invariant = lambda x: And(wf(x.h, x.T), below_only(x, x.h0, x.h, x.a.self))
    c.loop(1).modifies = ("litem", "pos")

    def pos_exit(x, o):
        if deep(x):
            return x.h.pos(o)  # the ghost positions were maintained step by step (list.sort's ghost code, the callee's wf)
        perms = x.p.ghost.get("perms") if getattr(x, "p", None) is not None else None
        if not perms:
            import contracts.vocab as V

            return x.h.pos(o) if V.RT_EVAL is not None else x.h0.pos(o)  # (at run time the witness of list.sort is not available: the real positions stand)
        _l, _perm, inv = perms[-1]
        return If(And(x.h0._parent(o) == x.a.self, x.h0.mem(x.T, o)), inv(x.h0.pos(o)), x.h0.pos(o))

    c.ghost_exit["pos"] = pos_exit
    c.ghost_exit_exc["pos"] = pos_exit


@contract("nutree.tree.Tree.sort", props=("C01", "C04", "C13"))
def _(c):
    """Tree.sort(key, reverse, deep=True): delegates to the system root's sort_children -- the tree stays well-formed; with
    deep=False only the top-level list is re-ordered, with deep=True only child lists (of the root or deeper) are."""
    c.param("self", "tree").param("key", "none", "cb").param("reverse", "false", "true").param("deep", "false", "true")
    c.families = ("plain", "typed")
    c.result_tag = "none"
    c.modifies("litem", "pos")
    c.requires("wf", lambda x: wf0(x))

    def frame(x):
        root = x.h0._root(x.a.self)
        if z3.is_true(x.a.deep):
            return below_only(x, x.h0, x.h, root)
        l, i = L.fresh("l", L.LRef), L.fresh("i", L.I)
        return ForAll([l, i], Implies(l != x.h0._children(root), x.h.litem(l, i) == x.h0.litem(l, i)), patterns=[x.h.litem(l, i)])

    c.ensures("deep=False: only the top-level list is re-ordered -- deep=True: only child lists change", frame)
    c.ensures("the tree stays well-formed", lambda x: wf1(x))
    c.may_raise("Callback", ensures=lambda x: And(frame(x), wf1(x)), name="the key callback raises: still well-formed, same frame")
