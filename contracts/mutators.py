"""C01 / C03 / C04 / C13 — mutators of Node (nutree/node.py): add_child (data path), ...
Positions follow the documented `before` rules (taken from the docstring, not the code)."""
from __future__ import annotations

import z3
from z3 import And, Exists, ForAll, If, Implies, Not, Or

from pyvc import logic as L
from pyvc.contract import contract
from .vocab import *  # noqa: F401,F403
from .lookups import calc_id
from pyvc.exprs import str_const
from .registry import NODE_FIELDS, TREE_FIELDS, fields_same_except, lists_same_except, dicts_same_except, alloc_monotone, obs_unchanged, obs_dicts_unchanged

NQ = "nutree.node.Node."
TN = "nutree.typed_tree.TypedNode."


def insert_pos(x, h0):
    """documented position of the new child: None/False append, True/0 prepend, int before that
    index, Node before that child."""
    s = x.a.self
    t = x.a.tag("before")
    n = h0.clen(s)
    if t == "none":
        return n
    if t == "bool":
        return If(x.a.before, 0, n)
    if t == "int":
        return x.a.before
    return h0.pos(x.a.before)


def inserted(h0, h, p, idx, new):
    """children'(p) == Take(old, idx) ++ [new] ++ Drop(old, idx)."""
    n = h0.clen(p)
    i = L.fresh("i", L.I)
    return And(h._children(p) != LNONE, h.llen(h._children(p)) == n + 1, h.child(p, idx) == new,
               ForAll([i], Implies(And(0 <= i, i < idx), h.child(p, i) == h0.child(p, i)), patterns=[h.litem(h._children(p), i)]),
               ForAll([i], Implies(And(idx < i, i <= n), h.child(p, i) == h0.child(p, i - 1)), patterns=[h.litem(h._children(p), i)]))


def other_childlists_same(x, T, *except_):
    h0, h = x.h0, x.h
    p, i = L.fresh("p", L.Ref), L.fresh("i", L.I)
    ne = lambda q: And(*[q != e for e in except_])  # noqa: E731
    return And(ForAll([p], Implies(And(h0.inP(T, p), ne(p)), And(h._children(p) == h0._children(p), h.clen(p) == h0.clen(p))), patterns=[h._children(p)]),
               ForAll([p, i], Implies(And(h0.inP(T, p), ne(p), 0 <= i, i < h0.clen(p)), h.child(p, i) == h0.child(p, i)), patterns=[h.litem(h._children(p), i)]))


def add_child_contract(c, typed):
    c.result_tag = "node"
    c.modifies("_data", "_parent", "_tree", "_children", "_data_id", "_node_id", "_meta", "_kind", "ddom", "dref", "dlst", "dcard", "llen", "litem", "lalloc", "alloc", "cpos", "rank", "pos")
    c.requires("wf, self in P(T)", lambda x: And(wf0(x), self_in_P(x)))
    c.requires("an int position is within 0..len (documented-valid)", lambda x: And(0 <= x.a.before, x.a.before <= x.h0.clen(x.a.self)) if x.a.tag("before") == "int" else True)
    c.requires("a `before` node belongs to the same tree", lambda x: x.h0.mem(x.T, x.a.before) if x.a.tag("before") == "ref" else True)
    c.requires("an explicit node_id is an int", lambda x: L.v_is_int(x.a.node_id) if x.a.tag("node_id") != "none" else True)
    if typed:
        c.requires("kind is a str or None", lambda x: And(L.v_is_str(x.a.kind), x.a.kind != ANY_KIND) if x.a.tag("kind") != "none" else True)

    def did(x):
        return x.a.data_id if x.a.tag("data_id") != "none" else calc_id(x.h0, x.T, x.a.child)

    def clash(x):
        h0, s = x.h0, x.a.self
        return ex_int(0, h0.clen(s), lambda i: h0._data_id(h0.child(s, i)) == did(x))

    def bad_before(x):
        return x.h0._parent(x.a.before) != x.a.self if x.a.tag("before") == "ref" else z3.BoolVal(False)

    def bad_nid(x):
        if x.a.tag("node_id") == "none":
            return z3.BoolVal(False)  # id(new object): collisions with user-supplied ids are covered by may_raise below
        return Or(Not(L.v_truthy(x.a.node_id)), x.h0.ddom(x.h0._node_by_id(x.T), x.a.node_id))

    c.raises("ValueError", when=bad_before, ensures=lambda x: And(obs_unchanged(x), wf1(x)), props=("C13", "C04"))
    c.raises("UniqueConstraintError", when=lambda x: And(Not(bad_before(x)), Not(bad_nid(x)), clash(x)), ensures=lambda x: And(obs_unchanged_but_fresh(x), wf1(x)), props=("C03", "C13"))
    c.may_raise("AssertionError", ensures=lambda x: And(obs_unchanged_but_fresh(x), wf1(x)), props=("C13",), name="node_id refused")
    c.may_raise("Exception", ensures=lambda x: And(obs_unchanged_but_fresh(x), wf1(x)), props=("C13",), name="calc_data_id callback raises")

    def post(x):
        h0, h, s, n = x.h0, x.h, x.a.self, x.r
        T = x.T
        idx = insert_pos(x, h0)
        o = L.fresh("o", L.Ref)
        cs = [
            wf1(x),
            n != NONE, Not(h0.alloc(n)), h.mem(T, n),
            inserted(h0, h, s, idx, n),
            h._data(n) == x.a.child, h._data_id(n) == did(x), h._parent(n) == s, h._tree(n) == T, h._children(n) == LNONE, h._meta(n) == DNONE,
            other_childlists_same(x, T, s),
            fields_same_except(x, tuple(f for f in NODE_FIELDS if f != "_children") + TREE_FIELDS, [n]),
            ForAll([o], Implies(And(o != s, o != n), h._children(o) == h0._children(o)), patterns=[h._children(o)]),
            Implies(h0._children(s) != LNONE, h._children(s) == h0._children(s)),
            ForAll([o], Implies(h0.mem(T, o), h.mem(T, o)), patterns=[h.mem(T, o)]) if False else True,
        ]
        if typed:
            cs.append(h._kind(n) == (x.a.kind if x.a.tag("kind") != "none" else str_const("child")))
        return And(*cs)

    c.ensures("new node at the documented position; wf; nothing else changed", post, props=("C01", "C02", "C03", "C04"))
    # ghost: sibling positions behind the insertion point shift up
    c.ghost_exit["pos"] = lambda x, o: If(o == x.r, insert_pos(x, x.h0), If(And(x.h0._parent(o) == x.a.self, x.h0.mem(x.T, o), x.h0.pos(o) >= insert_pos(x, x.h0)), x.h0.pos(o) + 1, x.h0.pos(o)))


def obs_unchanged_but_fresh(x):
    """observably unchanged: all pre-existing objects, lists and dicts are as before (a fresh,
    unreachable node object may have been initialised)."""
    h0, h = x.h0, x.h
    o = L.fresh("o", L.Ref)
    cs = []
    for f in NODE_FIELDS + TREE_FIELDS:
        if not z3.eq(h0.f(f), h.f(f)):
            cs.append(ForAll([o], Implies(h0.alloc(o), h.f(f)(o) == h0.f(f)(o)), patterns=[h.f(f)(o)]))
    l, i = L.fresh("l", L.LRef), L.fresh("i", L.I)
    if not (z3.eq(h0.llen, h.llen) and z3.eq(h0.litem, h.litem)):
        cs += [ForAll([l], Implies(h0.lalloc(l), h.llen(l) == h0.llen(l)), patterns=[h.llen(l)]), ForAll([l, i], Implies(h0.lalloc(l), h.litem(l, i) == h0.litem(l, i)), patterns=[h.litem(l, i)])]
    cs.append(obs_dicts_unchanged(x))
    return And(*cs)


@contract(NQ + "add_child", props=("C01", "C02", "C03", "C04", "C13"))
def _(c):
    c.param("self", "node").param("child", "data").param("before", "none", "bool", "int", "node").param("deep", "none").param("data_id", "none", "id").param("node_id", "none", "id")
    c.families = ("plain",)
    add_child_contract(c, typed=False)


@contract(TN + "add_child", props=("C01", "C02", "C03", "C04", "C13"))
def _(c):
    c.param("self", "node").param("child", "data").param("kind", "none", "kind").param("before", "none", "bool", "int", "node").param("deep", "none").param("data_id", "none", "id").param("node_id", "none", "id")
    c.families = ("typed",)
    add_child_contract(c, typed=True)
