"""Contracts of the ghost lemmas in lemma_src.py (DESIGN §4 'Lemmas')."""
from __future__ import annotations

import z3
from z3 import And, Implies, Not, Or

from pyvc import logic as L
from pyvc.contract import contract
from .vocab import *  # noqa: F401,F403


@contract("lemma.lemma_desc_rank", props=("C01",))
def _(c):
    c.param("x", "node").param("a", "node")
    c.result_tag = "none"
    c.pure()
    T = lambda x: x.T if x.T is not None else x.h0._tree(x.a.a)  # noqa: E731
    c.requires("wf, x member, a member, x proper descendant of a", lambda x: And(wf(x.h0, T(x)), x.h0.mem(T(x), x.a.x), x.h0.mem(T(x), x.a.a), L.is_desc(x.h0, x.a.x, x.a.a)))
    c.ensures("rank(x) > rank(a)", lambda x: x.h0.rank(x.a.x) > x.h0.rank(x.a.a))
    c.decreases_ = lambda x: x.h0.rank(x.a.x)
    c.lemma_patterns = lambda x: [L.anc_chain(x.h0)(x.h0._parent(x.a.x), x.a.a)]
