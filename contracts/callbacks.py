"""C06 / C08 — normalisation of user-callback results (nutree/common.py)."""
from __future__ import annotations

import z3
from z3 import And, If, Implies, Not, Or

from pyvc import logic as L
from pyvc.contract import contract
from .vocab import *  # noqa: F401,F403

CQ = "nutree.common."


def last_event(x):
    ev = x.p.ghost.get("cb_events") if getattr(x, "p", None) is not None else None
    return ev[-1] if ev else None


def is_ctrl(v, name):
    """opaque value v is the control class `name` itself or an instance of it."""
    return Or(v == L.clsobj(name), L.exc_pred(name)(v))


@contract(CQ + "call_mapper", props=("C05", "C12", "C14", "C17"))
def _(c):
    c.param("fn", "none", "cb").param("node", "node").param("data", "dref", "val")
    c.families = ("plain",)
    c.result_tag = "any"
    c.pure()
    c.may_raise("Callback", ensures=None, name="callback raises")

    def post(x):
        if x.a.tag("fn") == "none":
            return z3.BoolVal(x.res is x.a.sv("data"))
        if getattr(x, "p", None) is None:
            return z3.BoolVal(True)  # used at a call site: the relation to the raw callback event is a fact of this function's own proof, not restated to callers
        ev = last_event(x)
        if ev is None or ev[0] != "return":
            return z3.BoolVal(False)
        if x.res is x.a.sv("data"):
            return ev[1] == L.VNONE
        return And(ev[1] != L.VNONE, x.res.tag == "val" and x.r == ev[1])

    c.ensures("result == fn(node, data), or data itself when fn is None / returns None", post)


@contract(CQ + "call_predicate", props=("C08",))
def _(c):
    c.param("fn", "none", "cb").param("node", "node")
    c.families = ("plain",)
    c.result_tag = "any"
    c.pure()
    c.may_raise("UserError", ensures=None, name="callback raises")

    def post(x):
        if x.a.tag("fn") == "none":
            return z3.BoolVal(x.res.tag == "none")
        if getattr(x, "p", None) is None:
            return z3.BoolVal(True)  # used at a call site: the relation to the raw callback event is a fact of this function's own proof, not restated to callers
        ev = last_event(x)
        if ev is None:
            return z3.BoolVal(False)
        if ev[0] == "return":
            # returned values pass through unchanged, except that a control *class* becomes an instance
            v = ev[1]
            ctl = ("SkipBranch", "SelectBranch", "StopTraversal")
            if x.res.tag == "exc":
                return v == L.clsobj(x.res.z) if x.res.z in ctl else z3.BoolVal(False)
            return And(z3.BoolVal(x.res.tag == "val"), x.r == v, *[v != L.clsobj(n) for n in ctl]) if x.res.tag == "val" else z3.BoolVal(False)
        _, cls, val = ev
        if cls in ("SkipBranch", "SelectBranch", "StopTraversal"):  # raised control == returned instance
            return z3.BoolVal(x.res.tag == "exc" and x.res.z == cls)
        if cls == "StopIteration":  # normalised to StopTraversal carrying the value
            ok = x.res.tag == "exc" and x.res.z == "StopTraversal" and x.res.extra.get("value") is not None
            return And(z3.BoolVal(ok), x.res.extra["value"].z == val.z) if ok else z3.BoolVal(False)
        return z3.BoolVal(False)

    c.ensures("raised control signals are normalised exactly like returned ones", post)


@contract(CQ + "call_traversal_cb", props=("C06",))
def _(c):
    c.param("fn", "cb").param("node", "node").param("memo", "val", "dref")
    c.families = ("plain",)
    c.result_tag = "any"
    c.result_alternatives = ("none", "false")
    # ghost: every call is one event of the callback's trace (logic.TN / TK at index tlen(fn)); its kind is a function of the
    # outcome alone: None -> continue, False -> skip, StopTraversal -> stop, any other exception -> error
    c.modifies("tlen")

    def kind_of(x):
        if x.exc is not None:
            return L.EV_STOP if x.exc.cls == "StopTraversal" else L.EV_ERR
        return L.EV_CONT if x.res.tag == "none" else L.EV_SKIP

    c.trace_event = lambda x: (x.a.fn, x.a.node, kind_of(x))

    def traced(x):
        cbv = L.fresh("cbv", L.Val)
        i0 = x.h0.tlen(x.a.fn)
        return And(x.h.tlen(x.a.fn) == i0 + 1, L.TN(x.a.fn, i0) == x.a.node, L.TK(x.a.fn, i0) == kind_of(x),
                   z3.ForAll([cbv], Implies(cbv != x.a.fn, x.h.tlen(cbv) == x.h0.tlen(cbv)), patterns=[x.h.tlen(cbv)]))

    c.ensures("the call is recorded as the next event of fn's trace (node, kind of the outcome); other traces untouched", traced)

    def stopish(v):
        return Or(is_ctrl(v, "StopTraversal"), v == L.V_FALSE, is_ctrl(v, "StopIteration"))

    def normal(x):
        if getattr(x, "p", None) is None:
            return z3.BoolVal(True)  # used at a call site: the relation to the raw callback event is a fact of this function's own proof, not restated to callers
        ev = last_event(x)
        if ev is None:
            return z3.BoolVal(False)
        if x.res.tag == "none":  # continue
            return And(z3.BoolVal(ev[0] == "return"), ev[1] == L.VNONE) if ev[0] == "return" else z3.BoolVal(False)
        if x.res.tag == "bool" and z3.is_false(x.res.z):  # skip the node's descendants
            if ev[0] == "return":
                return is_ctrl(ev[1], "SkipBranch")
            return z3.BoolVal(ev[1] == "SkipBranch")
        return z3.BoolVal(False)

    c.ensures("None -> None (continue); SkipBranch returned or raised -> False (skip)", normal)

    def on_stop(x):
        if getattr(x, "p", None) is None:
            return z3.BoolVal(True)  # used at a call site: the relation to the raw callback event is a fact of this function's own proof, not restated to callers
        ev = last_event(x)
        if ev is None:
            return z3.BoolVal(False)
        carried = x.exc.value.z if (x.exc.value is not None and x.exc.value.tag == "val") else L.VNONE
        if ev[0] == "return":
            v = ev[1]
            return And(stopish(v), carried == If(Or(L.exc_pred("StopTraversal")(v), L.exc_pred("StopIteration")(v)), L.exc_value(v), L.VNONE))
        _, cls, val = ev
        if cls in ("StopTraversal", "StopIteration"):
            return carried == val.z
        return z3.BoolVal(False)

    c.may_raise("StopTraversal", ensures=on_stop, name="stop: StopTraversal/False/StopIteration returned or raised, value carried")

    def on_value_error(x):
        if getattr(x, "p", None) is None:
            return z3.BoolVal(True)  # used at a call site: the relation to the raw callback event is a fact of this function's own proof, not restated to callers
        ev = last_event(x)
        if ev is None or ev[0] != "return":
            return z3.BoolVal(False)
        v = ev[1]
        return And(v != L.VNONE, Not(is_ctrl(v, "SkipBranch")), Not(stopish(v)))

    c.may_raise("ValueError", ensures=on_value_error, name="other return values (property is silent)")
    c.may_raise("TypeError", ensures=on_value_error, name="other return values (property is silent)")
    c.may_raise("UserError", ensures=None, name="callback raises")
    c.may_raise("SelectBranch", ensures=lambda x: z3.BoolVal(last_event(x) is not None and last_event(x)[0] == "raise" and last_event(x)[1] == "SelectBranch"), name="SelectBranch raised by the callback propagates")
    for r in c.raises_:  # every exceptional outcome is an event too
        r.havoc = ("tlen",)
        r.ensures = (lambda x, _e=r.ensures: And(_e(x) if _e is not None else z3.BoolVal(True), traced(x)))
