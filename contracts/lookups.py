"""C02 / C09 — lookups by data, data_id, node_id; clone queries (tree.py, node.py)."""
from __future__ import annotations

import z3
from z3 import And, Exists, ForAll, If, Implies, Not, Or

from pyvc import logic as L
from pyvc.contract import contract
from .vocab import *  # noqa: F401,F403

NQ = "nutree.node.Node."
TQ = "nutree.tree.Tree."


def calc_id(h, T, data):
    """C02: the tree's id callback applied to the data, else hash(data)."""
    hook = h._calc_data_id_hook(T)
    return If(And(hook != VNONE, L.v_truthy(hook)), L.oracle_fn("rv")(hook, T, data), L.v_hash(data))


def _callback_axioms():
    """ASSUMED (DESIGN §8.7): a calc_data_id callback returns a data id (int | str), never None."""
    hook, d = z3.Const("hook!ax", L.Val), z3.Const("d!ax", L.Val)
    T = z3.Const("T!ax", L.Ref)
    o = L.oracle_fn("rv")(hook, T, d)
    return [ForAll([hook, T, d], And(o != VNONE, Or(L.v_is_int(o), L.v_is_str(o))), patterns=[o])]


if not getattr(L, "_cb_axioms_added", False):
    L.SPEC_AXIOMS.extend(_callback_axioms())
    L._cb_axioms_added = True


def unchanged_all(x):
    """no heap component changed (read-only operation, also on exceptional exit)."""
    return z3.BoolVal(not (x.h0.changed(x.h) - set(L.GHOST)))


@contract(TQ + "calc_data_id", props=("C02",))
def _(c):
    c.param("self", "tree").param("data", "data")
    c.result_tag = "val"
    c.pure()
    c.requires("tree allocated", lambda x: x.a.self != NONE)
    c.ensures("result == callback(tree, data) if a callback is set else hash(data)", lambda x: x.r == calc_id(x.h0, x.a.self, x.a.data))
    c.may_raise("Callback", ensures=unchanged_all, props=("C13",), name="callback raises")


def id_of(x):
    """the data_id a lookup call addresses: explicit data_id, else calc(data)."""
    if x.a.tag("data_id") != "none":
        return x.a.data_id
    return calc_id(x.h0, x.T, x.a.data)


def first_k(x, src, k):
    """result is a fresh list holding the first min(k, len) elements of list object src."""
    h0, h = x.h0, x.h
    n = h0.llen(src)
    m = If(k < n, k, n)
    return And(x.r != LNONE, fresh_list(x, x.r), h.llen(x.r) == m, fa_int(0, m, lambda i: h.litem(x.r, i) == h0.litem(src, i), lambda i: h.litem(x.r, i)))


def predicate_first(x, seq, callee):
    """result of a predicate find_first: the first element of seq for which the predicate is true (no earlier element of
    seq passes: the filtered prefix before it is empty), None iff the whole filter is empty"""
    h0 = x.h0
    n = L.Len(seq)
    F = L.filt_cb()
    cb = x.a.match
    import contracts.vocab as V

    if V.RT_EVAL is not None:
        E = V.RT_EVAL
        if not callable(E.consts["match"]):
            return z3.BoolVal(True)
        first = next((e for e in E.value(seq) if E.consts["match"](e)), None)
        return z3.BoolVal((x.res.tag == "none" and first is None) or (x.res.tag != "none" and E.value(x.r) is first))
    if x.res.tag == "none":
        return L.Len(F(seq, cb, n)) == 0
    J = callee_wit(x, callee, "cutJ", (L.I, L.I))(0)
    return And(0 <= J, J < n, x.r == L.At(seq, J), L.v_truthy(L.oracle_fn("r")(cb, L.At(seq, J))), L.Len(F(seq, cb, J)) == 0)


def branch_seq(x, h0):
    """the sequence a branch search scans: [self] + Pre(self) with add_self, else Pre(self)"""
    Pre = L.pre_post(h0)[0]
    s = x.a.self
    return L.App(L.Single(s), Pre(s)) if z3.is_true(x.a.add_self) else Pre(s)


def predicate_result(x, seq=None, callee="Node._search"):
    """the result list of a predicate search holds exactly what Node._search yields (its contract, restated on a list):
    FiltCb(seq, match, n) -- or, when the limit k bites, FiltCb(seq, match, J+1) where the J-th element is the k-th match"""
    h0, h, r = x.h0, x.h, x.r
    seq = branch_seq(x, h0) if seq is None else seq
    n = L.Len(seq)
    F = L.filt_cb()
    cb = x.a.match
    lim = x.a.max_results if x.a.tag("max_results") == "int" else None
    lr = h.llen(r)
    import contracts.vocab as V

    if V.RT_EVAL is not None:
        E = V.RT_EVAL
        if not callable(E.consts["match"]):
            return z3.BoolVal(True)
        want = [e for e in E.value(seq) if E.consts["match"](e)]
        if lim is not None and E.value(lim) > 0:
            want = want[: E.value(lim)]
        got = [E.value(h.litem(r, z3.IntVal(i))) for i in range(E.value(lr))]
        return z3.BoolVal(len(got) == len(want) and all(a is b for a, b in zip(got, want)))

    def same(S):
        return And(lr == L.Len(S), fa_int(0, lr, lambda i: h.litem(r, i) == L.At(S, i), lambda i: h.litem(r, i)))

    full = And(same(F(seq, cb, n)), (Implies(lim > 0, lr < lim) if lim is not None else True))
    if lim is None:
        return full
    J = callee_wit(x, callee, "cutJ", (L.I, L.I))(0)
    cut = And(lim > 0, lr == lim, 0 <= J, J < n, same(F(seq, cb, J + 1)), L.v_truthy(L.oracle_fn("r")(cb, L.At(seq, J))),
              h.litem(r, lim - 1) == L.At(seq, J), L.Len(F(seq, cb, J)) == lim - 1)
    return Or(full, cut)


@contract(NQ + "find_all", props=("C09", "C02"))
def _(c):
    """Branch-level search.  The data / data_id path is proved: the result is the order-preserving filter of
    the branch's pre-order sequence by `node.data_id == id`, cut to the first k.  The `match` path (regex /
    predicate through the generator `_search`) is only *assumed* here and decided by the bounded tier."""
    c.param("self", "node").param("data", "none", "data").param("match", "none", "cb").param("data_id", "none", "id").param("add_self", "true", "false").param("max_results", "none", "int")
    c.families = ("plain", "typed")
    c.result_tag = "lref"
    c.modifies("llen", "litem", "lalloc")
    c.assumed_variants = lambda tags: tags["data"] == "none" and tags["data_id"] == "none" and tags["match"] == "none"
    c.prune = True  # a computed id is never None: the fall-through to `_search` is infeasible on the id path
    c.assumed_variants_reason = "Node.find_all() without any criterion (`_search(None)`: identity of the data object with None); pattern strings are not represented in this contract and are checked by the bounded tier (native/props/c09.py)"
    c.requires("wf, self in P(T)", lambda x: And(wf0(x), self_in_P(x)))
    c.requires("limit >= 0", lambda x: x.a.max_results >= 0 if x.a.tag("max_results") == "int" else True)
    _both = lambda x: x.a.tag("data") != "none" and x.a.tag("data_id") != "none"  # noqa: E731
    _idpath = lambda x: x.a.tag("data") != "none" or x.a.tag("data_id") != "none"  # noqa: E731
    c.raises("AssertionError", when=lambda x: z3.BoolVal(_both(x) or (_idpath(x) and x.a.tag("match") != "none")), ensures=unchanged_all, props=("C13",))
    c.may_raise("Callback", ensures=lambda x: unchanged_lists(x), props=("C13",), name="callback raises: a read-only operation leaves every pre-existing list (and, by its frame, every field and index) unchanged")

    def post(x):
        base = And(x.r != LNONE, fresh_list(x, x.r), unchanged_lists(x))
        if not _idpath(x) and x.a.tag("match") == "val":
            return And(base, Implies(L.v_callable(x.a.match), predicate_result(x)))  # patterns (not callable): bounded tier
        if not _idpath(x):
            return base  # no criterion at all: assumed (bounded tier)
        h0, h, r = x.h0, x.h, x.r
        seq = branch_seq(x, h0)
        n = L.Len(seq)
        item = lambda k: L.At(seq, k)  # noqa: E731
        did = id_of(x)
        phi = lambda y: L.v_eq(h0._data_id(y), did)  # noqa: E731
        lim = x.a.max_results if x.a.tag("max_results") == "int" else None
        lr = h.llen(r)
        import contracts.vocab as V

        if V.RT_EVAL is not None:  # run-time cross-check: decided directly on the snapshot
            E = V.RT_EVAL
            keep = [E.value(item(z3.IntVal(k))) for k in range(E.value(n)) if E.holds(phi(item(z3.IntVal(k))))]
            if lim is not None and E.value(lim) > 0:
                keep = keep[: E.value(lim)]
            got = [E.value(h.litem(r, z3.IntVal(i))) for i in range(E.value(lr))]
            return And(base, z3.BoolVal(len(got) == len(keep) and all(a is b for a, b in zip(got, keep))))
        emb, inv = wit(x, "emb", (L.I, L.I)), wit(x, "inv", (L.I, L.I))
        i, j, k = L.fresh("i", I), L.fresh("j", I), L.fresh("k", I)
        limited = And(lim > 0, lr >= lim) if lim is not None else z3.BoolVal(False)  # the limit bites: only the matches up to the last one taken
        return And(
            base, lr >= 0, lr <= n, (Implies(lim > 0, lr <= lim) if lim is not None else True),
            ForAll([i], Implies(And(0 <= i, i < lr), And(0 <= emb(i), emb(i) < n, h.litem(r, i) == item(emb(i)), phi(item(emb(i))), inv(emb(i)) == i)), patterns=[h.litem(r, i), emb(i)]),
            ForAll([i, j], Implies(And(0 <= i, i < j, j < lr), emb(i) < emb(j)), patterns=[z3.MultiPattern(emb(i), emb(j))]),
            # no match is skipped: every match is in the result, except those behind the last one taken when the limit bites
            ForAll([k], Implies(And(0 <= k, k < n, phi(item(k)), Or(Not(limited), And(lr > 0, k <= emb(lr - 1)))), And(0 <= inv(k), inv(k) < lr, emb(inv(k)) == k, h.litem(r, inv(k)) == item(k))), patterns=[inv(k), item(k)]),
        )

    c.ensures("result == the matching nodes of ([self] +) Pre(self) (by data_id, or by predicate), by identity, in order, cut to the first k (k = 0 or None: no limit)", post)


@contract(NQ + "find_first", props=("C09", "C02"))
def _(c):
    """data / data_id path proved against Node.find_all's contract (limit 1): the first node of Pre(self) that
    carries the id, None if there is none.  The match path is assumed (bounded tier), see Node.find_all."""
    c.param("self", "node").param("data", "none", "data").param("match", "none", "cb").param("data_id", "none", "id")
    c.families = ("plain", "typed")
    c.result_tag = "node?"
    c.modifies("llen", "litem", "lalloc")
    c.assumed_variants = lambda tags: tags["data"] == "none" and tags["data_id"] == "none" and tags["match"] == "none"
    c.assumed_variants_reason = "Node.find_first() without any criterion: see Node.find_all"
    c.requires("wf, self in P(T)", lambda x: And(wf0(x), self_in_P(x)))
    _both = lambda x: x.a.tag("data") != "none" and x.a.tag("data_id") != "none"  # noqa: E731
    _idpath = lambda x: x.a.tag("data") != "none" or x.a.tag("data_id") != "none"  # noqa: E731
    c.raises("AssertionError", when=lambda x: z3.BoolVal(_both(x) or (_idpath(x) and x.a.tag("match") != "none")), ensures=unchanged_all, props=("C13",))
    c.may_raise("Callback", ensures=lambda x: unchanged_lists(x), props=("C13",), name="callback raises: a read-only operation leaves every pre-existing list (and, by its frame, every field and index) unchanged")

    def post(x):
        if not _idpath(x) and x.a.tag("match") == "val":
            return And(unchanged_lists(x), Implies(L.v_callable(x.a.match), predicate_first(x, L.pre_post(x.h0)[0](x.a.self), "Node.find_all")))
        if not _idpath(x):
            return unchanged_lists(x)
        h0 = x.h0
        seq = L.pre_post(h0)[0](x.a.self)
        n = L.Len(seq)
        item = lambda k: L.At(seq, k)  # noqa: E731
        did = id_of(x)
        phi = lambda y: L.v_eq(h0._data_id(y), did)  # noqa: E731
        k, m = L.fresh("k", I), L.fresh("m", I)
        none_case = ForAll([k], Implies(And(0 <= k, k < n), Not(phi(item(k)))), patterns=[item(k)])
        if x.res.tag == "none":
            return And(unchanged_lists(x), none_case)
        r = x.r
        import contracts.vocab as V

        if V.RT_EVAL is not None:  # run-time cross-check: decided directly on the snapshot
            E = V.RT_EVAL
            first = next((E.value(item(z3.IntVal(kk))) for kk in range(E.value(n)) if E.holds(phi(item(z3.IntVal(kk))))), None)
            return And(unchanged_lists(x), z3.BoolVal(first is not None and E.value(r) is first))
        # the position of the result in Pre(self) is witnessed by the embedding of find_all's (one-element) result
        from .typed_queries import last_filter

        emb, _inv = last_filter(x)
        m = emb(0)
        hit = And(0 <= m, m < n, item(m) == r, phi(r), ForAll([k], Implies(And(0 <= k, k < m), Not(phi(item(k)))), patterns=[item(k)]))
        return And(unchanged_lists(x), hit)

    c.ensures("result == first node of Pre(self) with that data_id / for which the predicate is true, None if there is none", post)


@contract(TQ + "find_all", props=("C02", "C09"))
def _(c):
    c.param("self", "tree").param("data", "none", "data").param("match", "none", "cb").param("data_id", "none", "id").param("max_results", "none", "int")
    c.result_tag = "lref"
    c.modifies("llen", "litem", "lalloc")
    c.requires("wf", lambda x: wf0(x))
    c.requires("limit >= 0", lambda x: x.a.max_results >= 0 if x.a.tag("max_results") == "int" else True)
    both = lambda x: x.a.tag("data") != "none" and x.a.tag("data_id") != "none"  # noqa: E731
    idpath = lambda x: x.a.tag("data") != "none" or x.a.tag("data_id") != "none"  # noqa: E731
    c.raises("AssertionError", when=lambda x: z3.BoolVal(both(x) or (idpath(x) and x.a.tag("match") != "none")), ensures=unchanged_all, props=("C13",))
    c.raises("NotImplementedError", when=lambda x: z3.BoolVal(not idpath(x) and x.a.tag("match") == "none"), ensures=unchanged_all, props=("C13",))
    c.may_raise("Callback", ensures=lambda x: unchanged_lists(x), props=("C13",), name="callback raises: a read-only operation leaves every pre-existing list (and, by its frame, every field and index) unchanged")

    def post(x):
        if not idpath(x):
            if x.a.tag("match") != "val":
                return unchanged_lists(x)
            # predicate search over the whole tree: Node.find_all on the root (patterns: bounded tier)
            return And(unchanged_lists(x), Implies(L.v_callable(x.a.match), predicate_result(x, seq=L.pre_post(x.h0)[0](x.h0._root(x.a.self)), callee="Node.find_all")))
        h0, h = x.h0, x.h
        nbd = h0._nodes_by_data_id(x.T)
        did = id_of(x)
        lst = h0.dlst(nbd, did)
        if x.a.tag("max_results") == "none":
            hit = x.r == lst
        else:
            hit = If(x.a.max_results == 0, x.r == lst, first_k(x, lst, x.a.max_results))
        return And(unchanged_lists(x), If(h0.ddom(nbd, did), hit, And(x.r != LNONE, fresh_list(x, x.r), h.llen(x.r) == 0)))

    c.ensures("result == the (first k) nodes registered under that data_id / the (first k) nodes of Pre(root) for which the predicate is true", post)


@contract(TQ + "find_first", props=("C02", "C09"))
def _(c):
    c.param("self", "tree").param("data", "none", "data").param("match", "none", "cb").param("data_id", "none", "id").param("node_id", "none", "id")
    c.result_tag = "node?"
    c.modifies("llen", "litem", "lalloc")
    c.requires("wf", lambda x: wf0(x))
    t = lambda x, n: x.a.tag(n) != "none"  # noqa: E731
    c.raises("AssertionError", when=lambda x: z3.BoolVal((t(x, "data") and t(x, "data_id")) or ((t(x, "data") or t(x, "data_id")) and (t(x, "match") or t(x, "node_id"))) or (t(x, "match") and t(x, "node_id") and not (t(x, "data") or t(x, "data_id")))), ensures=unchanged_all, props=("C13",))
    c.raises("NotImplementedError", when=lambda x: z3.BoolVal(not (t(x, "data") or t(x, "data_id") or t(x, "match") or t(x, "node_id"))), ensures=unchanged_all, props=("C13",))
    c.may_raise("Callback", ensures=lambda x: unchanged_lists(x), props=("C13",), name="callback raises: a read-only operation leaves every pre-existing list (and, by its frame, every field and index) unchanged")

    def post(x):
        h0 = x.h0
        if t(x, "data") or t(x, "data_id"):
            nbd = h0._nodes_by_data_id(x.T)
            did = id_of(x)
            return And(unchanged_lists(x), res_is(x, If(h0.ddom(nbd, did), h0.litem(h0.dlst(nbd, did), 0), NONE)))
        if t(x, "match"):
            if x.a.tag("match") != "val":
                return unchanged_lists(x)
            return And(unchanged_lists(x), Implies(L.v_callable(x.a.match), predicate_first(x, L.pre_post(h0)[0](h0._root(x.a.self)), "Node.find_first")))
        nbi = h0._node_by_id(x.T)
        return And(unchanged_lists(x), res_is(x, If(h0.ddom(nbi, x.a.node_id), h0.dref(nbi, x.a.node_id), NONE)))

    c.ensures("result == first node registered under that id / first node of Pre(root) for which the predicate is true, or None", post)


def res_is(x, term, none=NONE):
    if x.res.tag == "none":
        return term == none
    return x.r == term


@contract(TQ + "__contains__", props=("C02", "C09"))
def _(c):
    c.param("self", "tree").param("data", "data")
    c.result_tag = "bool"
    c.modifies("llen", "litem", "lalloc")
    c.requires("wf", lambda x: wf0(x))
    c.may_raise("Callback", ensures=lambda x: unchanged_lists(x), props=("C13",), name="callback raises: a read-only operation leaves every pre-existing list (and, by its frame, every field and index) unchanged")
    c.ensures("result <=> some node carries calc_data_id(data)", lambda x: And(unchanged_lists(x), x.r == x.h0.ddom(x.h0._nodes_by_data_id(x.T), calc_id(x.h0, x.T, x.a.data))))


@contract(TQ + "__getitem__", props=("C02", "C09"))
def _(c):
    c.param("self", "tree").param("data", "data", "node")
    c.result_tag = "node"
    c.modifies("llen", "litem", "lalloc")
    c.requires("wf", lambda x: wf0(x))
    c.requires("bool keys excluded", lambda x: Not(L.v_is_bool(x.a.data)) if x.a.tag("data") == "val" else True)

    def group(x):
        """(exists, list) of the clone group the key resolves to after the node_id step."""
        h0 = x.h0
        nbd = h0._nodes_by_data_id(x.T)
        d = x.a.data
        as_id = And(Or(L.v_is_int(d), L.v_is_str(d)), h0.ddom(nbd, d))
        did = If(as_id, d, calc_id(h0, x.T, d))
        return h0.ddom(nbd, did), h0.dlst(nbd, did)

    def by_node_id(x):
        h0 = x.h0
        return And(L.v_is_int(x.a.data), h0.ddom(h0._node_by_id(x.T), x.a.data))

    isnode = lambda x: x.a.tag("data") == "ref"  # noqa: E731
    c.raises("ValueError", when=lambda x: z3.BoolVal(isnode(x)), ensures=unchanged_all, props=("C09", "C13"))
    c.raises("KeyError", when=lambda x: z3.BoolVal(False) if isnode(x) else And(Not(by_node_id(x)), Not(group(x)[0])), ensures=unchanged_lists, props=("C09", "C13"))
    c.raises("AmbiguousMatchError", when=lambda x: z3.BoolVal(False) if isnode(x) else And(Not(by_node_id(x)), group(x)[0], x.h0.llen(group(x)[1]) > 1), ensures=unchanged_lists, props=("C09", "C13"))
    c.may_raise("Callback", ensures=lambda x: unchanged_lists(x), props=("C13",), name="callback raises: a read-only operation leaves every pre-existing list (and, by its frame, every field and index) unchanged")
    c.ensures("result: node_id first, then data_id, then data", lambda x: And(unchanged_lists(x), x.r == If(by_node_id(x), x.h0.dref(x.h0._node_by_id(x.T), x.a.data), x.h0.litem(group(x)[1], 0))))


@contract(NQ + "get_clones", props=("C02",))
def _(c):
    c.param("self", "node").param("add_self", "true", "false")
    c.result_tag = "lref"
    c.modifies("llen", "litem", "lalloc")
    c.requires("wf", lambda x: And(wf0(x), self_member(x)))

    def post(x):
        h0, h, s = x.h0, x.h, x.a.self
        lst = h0.clones(x.T, h0._data_id(s))
        n = h0.llen(lst)
        item = lambda i: h0.litem(lst, i)  # noqa: E731
        if z3.is_true(x.a.add_self):
            return And(fresh_list(x, x.r), unchanged_lists(x), h.llen(x.r) == n, fa_int(0, n, lambda i: h.litem(x.r, i) == item(i), lambda i: h.litem(x.r, i)))
        emb, inv = wit(x, "emb", (L.I, L.I)), wit(x, "inv", (L.I, L.I))
        return And(is_filter(h, x.r, n, item, lambda y: y != s, emb, inv), fresh_list(x, x.r), unchanged_lists(x))

    c.ensures("result == a fresh copy of the clone list (without self)", post)


@contract(NQ + "is_clone", props=("C02",))
def _(c):
    c.param("self", "node")
    c.result_tag = "bool"
    c.pure()
    c.requires("wf", lambda x: And(wf0(x), self_member(x)))
    c.ensures("result <=> more than one node carries this data_id", lambda x: x.r == (x.h0.llen(x.h0.clones(x.T, x.h0._data_id(x.a.self))) > 1))
