"""Statements, loops (with sidecar invariants), try/except, with."""
from __future__ import annotations

import ast

import z3
from z3 import And, ForAll, If, Implies, Not, Or

from . import logic as L
from .calls import Args, Ctx, EXC_CLASSES
from .values import SV, BoolV, ExcV, IntV, NoneV, Outcome, Path, RefV, Unsupported, exc_isa


def assigned_names(stmts) -> set:
    out = set()
    for st in stmts:
        for n in ast.walk(st):
            if isinstance(n, ast.Name) and isinstance(n.ctx, ast.Store):
                out.add(n.id)
            elif isinstance(n, ast.NamedExpr):
                out.add(n.target.id)
    return out


class StmtMixin:
    def body_of(self, fd):
        body = fd.body
        if body and isinstance(body[0], ast.Expr) and isinstance(body[0].value, ast.Constant) and isinstance(body[0].value.value, str):
            body = body[1:]  # docstring dropped
        return body

    def exec_block(self, stmts, p: Path) -> list[Outcome]:
        live = [p]
        done: list[Outcome] = []
        for st in stmts:
            nxt = []
            for q in live:
                for o in self.exec_stmt(st, q):
                    if o.kind == "next":
                        nxt.append(o.path)
                    else:
                        done.append(o)
            live = nxt
            if len(live) > self.max_paths:
                raise Unsupported(f"path explosion (> {self.max_paths} live paths)")
            if not live:
                break
        return done + [Outcome("next", q) for q in live]

    def exec_stmt(self, st, p: Path) -> list[Outcome]:
        m = getattr(self, "st_" + type(st).__name__, None)
        if m is None:
            raise Unsupported(f"statement {type(st).__name__} at line {st.lineno}")
        return m(st, p)

    # ------------------------------------------------------------------ simple statements
    def _raises(self, R):
        return [Outcome("raise", q, e) for q, e in R]

    def st_Pass(self, st, p):
        return [Outcome("next", p)]

    def st_Expr(self, st, p):
        if isinstance(st.value, ast.Constant):
            return [Outcome("next", p)]
        if isinstance(st.value, (ast.Yield, ast.YieldFrom)):
            return self.st_yield(st.value, p)
        R: list = []
        outs = self.ev(st.value, p, R)
        return [Outcome("next", q) for q, _ in outs] + self._raises(R)

    def _no_stored_genexp(self, value):
        """A generator expression is modelled like the list it would produce, which is exact only while it is consumed
        once, at once (argument of any / all / set / sorted / join ...).  Bound to a name or returned it could be iterated
        a second time (and then be empty): outside the subset."""
        if isinstance(value, ast.GeneratorExp) or (isinstance(value, ast.IfExp) and any(isinstance(b, ast.GeneratorExp) for b in (value.body, value.orelse))):
            raise Unsupported(f"generator expression stored or returned (line {value.lineno}): single-pass iterators are not modelled")

    def st_Assign(self, st, p):
        self._no_stored_genexp(st.value)
        R: list = []
        res = []
        for q, v in self.ev(st.value, p, R):
            qs = [q]
            for tgt in st.targets:
                nq = []
                for q1 in qs:
                    nq += self.assign(tgt, v, q1, R)
                qs = nq
            res += [Outcome("next", q1) for q1 in qs]
        return res + self._raises(R)

    def st_AnnAssign(self, st, p):
        if st.value is None:
            return [Outcome("next", p)]
        self._no_stored_genexp(st.value)
        R: list = []
        res = []
        for q, v in self.ev(st.value, p, R):
            res += [Outcome("next", q1) for q1 in self.assign(st.target, v, q, R)]
        return res + self._raises(R)

    def st_AugAssign(self, st, p):
        e = ast.BinOp(left=ast.Name(id=st.target.id, ctx=ast.Load(), lineno=st.lineno, col_offset=0) if isinstance(st.target, ast.Name) else st.target, op=st.op, right=st.value, lineno=st.lineno, col_offset=0)
        R: list = []
        res = []
        for q, v in self.ev(e, p, R):
            res += [Outcome("next", q1) for q1 in self.assign(st.target, v, q, R)]
        return res + self._raises(R)

    def assign(self, tgt, v: SV, p: Path, R) -> list[Path]:
        if isinstance(tgt, ast.Name):
            p.env[tgt.id] = v
            return [p]
        if isinstance(tgt, ast.Tuple):
            if v.tag != "tuple" or len(v.z) != len(tgt.elts):
                raise Unsupported("tuple unpacking of a non-tuple")
            ps = [p]
            for t, x in zip(tgt.elts, v.z):
                ps = [q2 for q in ps for q2 in self.assign(t, x, q, R)]
            return ps
        if isinstance(tgt, ast.Attribute):
            out = []
            for q, o in self.ev(tgt.value, p, R):
                if o.tag != "ref":
                    raise Unsupported("attribute store on non-object")
                self.oblige(q, f"L{tgt.lineno}/store-attr-on-None:{tgt.attr}", o.z != L.NONE, kind="safety")
                q.assume(o.z != L.NONE)
                if tgt.attr not in L.FIELD_SORTS:
                    raise Unsupported(f"store to unknown attribute {tgt.attr}")
                srt = L.FIELD_SORTS[tgt.attr][0]
                h, ax = q.heap.write_field(tgt.attr, o.z, self.to_sort(v, srt))
                q.heap = h
                q.assume(ax)
                out.append(q)
            return out
        if isinstance(tgt, ast.Subscript):
            out = []
            if isinstance(tgt.slice, ast.Slice):
                return self.assign_slice(tgt, v, p, R)
            for q, (c, k) in self.ev_seq([tgt.value, tgt.slice], p, R):
                if c.tag == "dref":
                    self.dict_set(q, c.z, k, v)
                    out.append(q)
                elif c.tag == "lref":
                    h = q.heap
                    n = h.llen(c.z)
                    iz = self.to_sort(k, L.I)
                    ok = And(-n <= iz, iz < n)
                    bad = q.fork()
                    bad.assume(Not(ok))
                    R.append((bad, ExcV("IndexError", site=f"L{tgt.lineno}")))
                    q.assume(ok)
                    idx = If(iz < 0, iz + n, iz)
                    l = c.z
                    x = self.to_sort(v, L.Ref)
                    h1, a1 = h.define("litem", lambda old, y, i: If(And(y == l, i == idx), x, old(y, i)))
                    q.heap = h1
                    q.assume(a1)
                    out.append(q)
                else:
                    raise Unsupported("subscript store")
            return out
        raise Unsupported("assignment target")

    def assign_slice(self, tgt, v, p, R):
        """pc[idx:idx] = children  (insertion of a list at an index)."""
        sl = tgt.slice
        out = []
        for q, (c, lo, hi) in self.ev_seq([tgt.value, sl.lower, sl.upper], p, R):
            if c.tag != "lref" or v.tag != "lref":
                raise Unsupported("slice assignment")
            h = q.heap
            l, s = c.z, v.z
            n, m = h.llen(l), h.llen(s)
            a, b = self.to_sort(lo, L.I), self.to_sort(hi, L.I)
            self.oblige(q, f"L{tgt.lineno}/slice-insert-bounds", And(0 <= a, a <= n, a == b, l != s), kind="safety")
            q.assume(0 <= a, a <= n, a == b, l != s)
            h1, a1 = h.define("litem", lambda old, y, i: If(y == l, If(i < a, old(y, i), If(i < a + m, old(s, i - a), old(y, i - m))), old(y, i)))
            h2, a2 = h1.define("llen", lambda old, y: If(y == l, n + m, old(y)))
            q.heap = h2
            q.assume(a1, a2)
            out.append(q)
        return out

    def st_Delete(self, st, p):
        R: list = []
        outs = []
        paths = [p]
        for tgt in st.targets:
            if not isinstance(tgt, ast.Subscript):
                raise Unsupported("del of non-subscript")
            nxt = []
            for q0 in paths:
                for q, (c, k) in self.ev_seq([tgt.value, tgt.slice], q0, R):
                    if c.tag == "dref":
                        kz = self.to_sort(k, L.Val)
                        bad = q.fork()
                        bad.assume(Not(q.heap.ddom(c.z, kz)))
                        R.append((bad, ExcV("KeyError", site=f"L{st.lineno}")))
                        q.assume(q.heap.ddom(c.z, kz))
                        self.dict_del(q, c.z, kz)
                        nxt.append(q)
                    elif c.tag == "lref":
                        h = q.heap
                        n = h.llen(c.z)
                        iz = self.to_sort(k, L.I)
                        ok = And(-n <= iz, iz < n)
                        bad = q.fork()
                        bad.assume(Not(ok))
                        R.append((bad, ExcV("IndexError", site=f"L{st.lineno}")))
                        q.assume(ok)
                        kk = L.fresh("del", L.I)
                        q.assume(kk == If(iz < 0, iz + n, iz))
                        self.list_delete_at(c, kk, q)
                        nxt.append(q)
                    else:
                        raise Unsupported("del target")
            paths = nxt
        return [Outcome("next", q) for q in paths] + self._raises(R)

    def st_Return(self, st, p):
        if st.value is None:
            p.ghost["exit_line"] = st.lineno
            return [Outcome("return", p, NoneV)]
        self._no_stored_genexp(st.value)
        R: list = []
        outs = self.ev(st.value, p, R)
        for q, _v in outs:
            q.ghost["exit_line"] = st.lineno
        return [Outcome("return", q, v) for q, v in outs] + self._raises(R)

    def st_Break(self, st, p):
        return [Outcome("break", p)]

    def st_Continue(self, st, p):
        return [Outcome("continue", p)]

    def st_Assert(self, st, p):
        R: list = []
        res = []
        for q, v in self.ev(st.test, p, R):
            t = self.truthy(v, q)
            bad = q.fork()
            bad.assume(Not(t))
            q.assume(t)
            res.append(Outcome("raise", bad, ExcV("AssertionError", site=f"L{st.lineno}")))
            res.append(Outcome("next", q))
        return res + self._raises(R)

    def st_Raise(self, st, p):
        if st.exc is None:
            cur = p.ghost.get("handling")
            if cur is None:
                raise Unsupported("bare raise outside handler")
            return [Outcome("raise", p, cur)]
        R: list = []
        res = []
        for q, v in self.ev(st.exc, p, R):
            if v.tag == "val":
                # `raise <opaque value>`: a control class or an instance of one (else TypeError)
                others = []
                for cn in L.CTRL:
                    is_c = Or(v.z == L.clsobj(cn), L.exc_pred(cn)(v.z))
                    others.append(is_c)
                    q2 = q.fork()
                    q2.assume(is_c)
                    val = SV("val", If(v.z == L.clsobj(cn), L.VNONE, L.exc_value(v.z)))
                    res.append(Outcome("raise", q2, ExcV(cn, value=val, site=f"L{st.lineno}")))
                q3 = q.fork()
                q3.assume(Not(Or(*others)))
                res.append(Outcome("raise", q3, ExcV("TypeError", site=f"L{st.lineno}/raise of a non-exception")))
                continue
            res.append(Outcome("raise", q, self.as_exception(v, q, st)))
        return res + self._raises(R)

    def as_exception(self, v: SV, p: Path, st) -> ExcV:
        site = f"L{st.lineno}"
        if v.tag == "cls" and v.z in EXC_CLASSES:
            return ExcV(v.z, value=NoneV, site=site)
        if v.tag == "exc":
            return ExcV(v.z, value=v.extra.get("value") if v.extra else None, site=site)
        if v.tag == "val" and v.extra and v.extra.get("exc_cls"):
            return ExcV(v.extra["exc_cls"], value=v.extra.get("value"), site=site)
        raise Unsupported(f"raise of {v.tag} (line {st.lineno})")

    def st_If(self, st, p):
        R: list = []
        res = []
        for q, c in self.ev(st.test, p, R):
            t = self.truthy(c, q)
            a, b = q.fork(), q.fork()
            a.assume(t)
            b.assume(Not(t))
            prune = getattr(self.contract, "prune", False)
            if self.feasible_quick(a) and not (prune and self.infeasible(a)):
                res += self.exec_block(st.body, a)
            if self.feasible_quick(b) and not (prune and self.infeasible(b)):
                res += self.exec_block(st.orelse, b) if st.orelse else [Outcome("next", b)]
        return res + self._raises(R)

    def st_FunctionDef(self, st, p):
        p.env[st.name] = SV("func", ("nested", st, None))
        return [Outcome("next", p)]

    def st_Nonlocal(self, st, p):
        return [Outcome("next", p)]

    def st_Import(self, st, p):
        return [Outcome("next", p)]

    st_ImportFrom = st_Import

    # ------------------------------------------------------------------ try / with
    def st_Try(self, st, p):
        if st.finalbody:
            raise Unsupported("try/finally")
        res = []
        for o in self.exec_block(st.body, p):
            if o.kind != "raise":
                if o.kind == "next" and st.orelse:
                    res += self.exec_block(st.orelse, o.path)
                else:
                    res.append(o)
                continue
            exc: ExcV = o.val
            handled = False
            for hd in st.handlers:
                names = self.handler_classes(hd)
                if names is None or any(exc_isa(exc.cls, n) for n in names):
                    q = o.path
                    if hd.name:
                        q.env[hd.name] = SV("exc", exc.cls, extra={"value": exc.value if exc.value is not None else NoneV, "and_self": SV("val", L.fresh("and_self", L.Val))})
                    saved = q.ghost.get("handling")
                    q.ghost["handling"] = exc
                    for o2 in self.exec_block(hd.body, q):
                        o2.path.ghost["handling"] = saved
                        res.append(o2)
                    handled = True
                    break
            if not handled:
                res.append(o)
        return res

    def handler_classes(self, hd):
        if hd.type is None:
            return None
        if isinstance(hd.type, ast.Name):
            return [hd.type.id]
        if isinstance(hd.type, ast.Tuple):
            return [e.id for e in hd.type.elts]
        raise Unsupported("except clause")

    def st_With(self, st, p):
        if len(st.items) != 1:
            raise Unsupported("with: several items")
        item = st.items[0]
        R: list = []
        res = []
        for q, cm in self.ev(item.context_expr, p, R):
            if cm.tag == "ref" and cm.cls == "Tree":
                res += self.with_tree(st, cm, q)
            else:
                res += self.with_other(st, item, cm, q)
        return res + self._raises(R)

    def with_tree(self, st, cm: SV, p: Path):
        """`with tree:`  ==  tree.__enter__() ... tree.__exit__() on every exit (C18)."""
        R: list = []
        encls, enfd = self.src.class_member(self.node_class_for(cm, p), "__enter__")
        outs = self.call_repo(self.src.qualname(encls, enfd), cm, [], {}, p, R, st)
        res = self._raises(R)
        excls, exfd = self.src.class_member(self.node_class_for(cm, p), "__exit__")
        exq = self.src.qualname(excls, exfd)
        for q, _ in outs:
            for o in self.exec_block(st.body, q):
                R2: list = []
                for q2, _r in self.call_repo(exq, cm, [NoneV, NoneV, NoneV], {}, o.path, R2, st):
                    res.append(Outcome(o.kind, q2, o.val))
                res += self._raises(R2)
        return res

    def with_other(self, st, item, cm, p):
        raise Unsupported(f"with-statement on {cm.tag} (line {st.lineno})")

    # ------------------------------------------------------------------ loops
    def loop_spec(self, st):
        if not hasattr(self, "_loop_ord") or self._loop_ord_fd is not self.fd:
            self._loop_ord = {}
            self._loop_ord_fd = self.fd
            n = 0
            for node in ast.walk(self.fd):
                pass
            order = sorted((nd for nd in ast.walk(self.fd) if isinstance(nd, (ast.For, ast.While))), key=lambda nd: (nd.lineno, nd.col_offset))
            for i, nd in enumerate(order, 1):
                self._loop_ord[id(nd)] = i
        k = self._loop_ord.get(id(st))
        if k is None:
            raise Unsupported(f"loop at line {st.lineno} is not part of the function under verification")
        lp = self.contract.loops.get(k)
        if lp is None or lp.invariant is None:
            raise Unsupported(f"loop #{k} (line {st.lineno}) has no sidecar invariant")
        return k, lp

    def havoc_for_loop(self, st, p: Path, lp, extra_vars=()):
        """Havoc everything the body may change: assigned locals and heap components."""
        names = assigned_names(st.body) | set(extra_vars)
        for n in names:
            if n in p.env:
                p.env[n] = self.havoc_value(p.env[n], n)
        comps = lp.modifies if lp.modifies is not None else self.scan_heap_writes(st.body)
        if comps:
            p.heap = p.heap.havoc(comps)
        return comps

    def havoc_value(self, v: SV, name) -> SV:
        t = v.tag
        if t == "int":
            return IntV(L.fresh(name, L.I))
        if t == "bool":
            return BoolV(L.fresh(name, L.B))
        if t == "ref":
            return RefV(L.fresh(name, L.Ref), v.cls)
        if t == "lref":
            return SV("lref", L.fresh(name, L.LRef))
        if t == "dref":
            return SV("dref", L.fresh(name, L.DRef), extra=v.extra)
        if t == "val":
            return SV("val", L.fresh(name, L.Val))
        if t == "pseq":
            return SV("pseq", L.fresh(name, L.PSeq))
        if t == "none":
            raise Unsupported(f"loop variable {name} changes type (None before the loop)")
        return v

    def scan_heap_writes(self, stmts) -> tuple:
        comps = set()
        for st in stmts:
            for n in ast.walk(st):
                if isinstance(n, ast.Attribute) and isinstance(n.ctx, ast.Store) and n.attr in L.FIELD_SORTS:
                    comps.add(n.attr)
                if isinstance(n, ast.Call) and isinstance(n.func, ast.Attribute):
                    if n.func.attr in ("append", "insert", "remove", "pop", "reverse", "extend", "sort"):
                        comps |= {"llen", "litem"}
                    if n.func.attr in ("copy",):
                        comps |= {"llen", "litem", "lalloc"}
                    if n.func.attr in ("update",):
                        comps |= {"ddom", "dval", "dcard"}
                    # repo methods: their declared modifies
                    for q, c in self.all_contracts_named(n.func.attr):
                        comps |= set(c.modifies_)
                if isinstance(n, ast.Call) and isinstance(n.func, ast.Name):
                    for q, c in self.all_contracts_named(n.func.id):
                        comps |= set(c.modifies_)
                if isinstance(n, (ast.List, ast.ListComp)):
                    comps |= {"llen", "litem", "lalloc"}
                if isinstance(n, ast.Dict):
                    comps |= {"ddom", "dcard", "dalloc"}
                if isinstance(n, ast.Subscript) and isinstance(n.ctx, (ast.Store, ast.Del)):
                    comps |= {"ddom", "dcard", "dref", "dlst", "dval", "llen", "litem"}
        return tuple(sorted(comps))

    def all_contracts_named(self, name):
        from .contract import REGISTRY

        return [(q, c) for q, c in REGISTRY.items() if q.split(".")[-1] == name]

    def loop_ctx(self, p: Path, lp, k=None, extra=None):
        g = dict(p.ghost.get("loopghost", {}))
        x = Ctx(self, self.h_entry, p.heap, self.args_entry, v=_EnvView(p.env), k=k, g=_GhostView(g), family=self.family, labels=p.labels)
        x.p = p
        if extra:
            for kk, vv in extra.items():
                setattr(x, kk, vv)
        return x

    def st_While(self, st, p):
        if st.orelse:
            raise Unsupported("while/else")
        k, lp = self.loop_spec(st)
        line = st.lineno
        for gname, (init, _step) in lp.ghost.items():
            p.ghost.setdefault("loopghost", {})[gname] = init(self.loop_ctx(p, lp))
        self.oblige(p, f"L{line}/loop{k}/invariant-on-entry", lp.invariant(self.loop_ctx(p, lp)), kind="inv")
        # arbitrary iteration
        it = p.fork()
        self.havoc_for_loop(st, it, lp)
        for gname in lp.ghost:
            it.ghost["loopghost"] = dict(it.ghost.get("loopghost", {}))
            it.ghost["loopghost"][gname] = L.fresh(gname, L.I)
        it.assume(lp.invariant(self.loop_ctx(it, lp)))
        res = []
        R: list = []
        for q, c in self.ev(st.test, it, R):
            t = self.truthy(c, q)
            body, ex = q.fork(), q.fork()
            body.assume(t)
            ex.assume(Not(t))
            res.append(Outcome("next", ex))
            for o in self.exec_block(st.body, body):
                if o.kind in ("next", "continue"):
                    for gname, (_i, step) in lp.ghost.items():
                        o.path.ghost["loopghost"] = dict(o.path.ghost.get("loopghost", {}))
                        o.path.ghost["loopghost"][gname] = step(self.loop_ctx(o.path, lp))
                    self.oblige(o.path, f"L{line}/loop{k}/invariant-preserved", lp.invariant(self.loop_ctx(o.path, lp)), kind="inv")
                elif o.kind == "break":
                    res.append(Outcome("next", o.path))
                else:
                    res.append(o)
        return res + self._raises(R)

    def st_For(self, st, p):
        R: list = []
        res = []
        for q, itv in self.ev_iter(st.iter, p, R):
            res += self.for_loop(st, itv, q)
        return res + self._raises(R)

    def ev_iter(self, e, p, R):
        """Iterables: list values, range(...), enumerate(xs[, start]), reversed(xs), generators."""
        if isinstance(e, ast.Call) and isinstance(e.func, ast.Name) and e.func.id in ("range", "enumerate", "reversed") and e.func.id not in p.env:
            outs = []
            for q, vs in self.ev_seq(list(e.args), p, R):
                outs.append((q, SV("iter", (e.func.id, vs))))
            return outs
        return self.ev(e, p, R)

    def for_loop(self, st, itv: SV, p: Path):
        k, lp = self.loop_spec(st)
        line = st.lineno
        h_at_entry = p.heap
        kind, length, elem = self.iter_view(itv, p, line)
        # ghost
        for gname, (init, _s) in lp.ghost.items():
            p.ghost.setdefault("loopghost", {})[gname] = init(self.loop_ctx(p, lp, k=z3.IntVal(0)))
        extra = {"n": length, "elem": elem, "it": itv}
        self.oblige(p, f"L{line}/loop{k}/invariant-on-entry", lp.invariant(self.loop_ctx(p, lp, k=z3.IntVal(0), extra=extra)), kind="inv")
        it = p.fork()
        tnames = {n.id for n in ast.walk(st.target) if isinstance(n, ast.Name)}
        # target variables are (re)bound each iteration; make them havoc-able
        comps = self.havoc_for_loop(st, it, lp, extra_vars=())
        for gname in lp.ghost:
            it.ghost["loopghost"] = dict(it.ghost.get("loopghost", {}))
            it.ghost["loopghost"][gname] = L.fresh(gname, L.I)
        kk = L.fresh("k", L.I)
        it.assume(0 <= kk, kk <= length)
        it.assume(lp.invariant(self.loop_ctx(it, lp, k=kk, extra=extra)))
        res = []
        # exit: k == length
        ex = it.fork()
        ex.assume(kk == length)
        ex_paths = [ex]
        # body at iteration kk
        body = it.fork()
        body.assume(kk < length)
        R: list = []
        bodies = self.assign(st.target, elem(kk, body), body, R)
        res += self._raises(R)
        for b in bodies:
            for o in self.exec_block(st.body, b):
                if o.kind in ("next", "continue"):
                    for gname, (_i, step) in lp.ghost.items():
                        o.path.ghost["loopghost"] = dict(o.path.ghost.get("loopghost", {}))
                        o.path.ghost["loopghost"][gname] = step(self.loop_ctx(o.path, lp, k=kk, extra=extra))
                    if kind.endswith("list"):  # the iterated list must not be mutated by the body
                        lz = self._iter_list
                        i = L.fresh("i", L.I)
                        self.oblige(o.path, f"L{line}/loop{k}/iterated-list-unchanged", And(o.path.heap.llen(lz) == it.heap.llen(lz), ForAll([i], Implies(And(0 <= i, i < it.heap.llen(lz)), o.path.heap.litem(lz, i) == it.heap.litem(lz, i)), patterns=[o.path.heap.litem(lz, i)])), kind="safety")
                    self.oblige(o.path, f"L{line}/loop{k}/invariant-preserved", lp.invariant(self.loop_ctx(o.path, lp, k=kk + 1, extra=extra)), kind="inv")
                elif o.kind == "break":
                    res.append(Outcome("next", o.path))
                else:
                    res.append(o)
        for e in ex_paths:
            for fi, fact in enumerate(lp.exit_facts):
                f = fact(self.loop_ctx(e, lp, k=kk, extra=extra))
                self.oblige(e, f"L{line}/loop{k}/exit-fact{fi + 1}", f, kind="inv")
                e.assume(f)
            if st.orelse:
                res += self.exec_block(st.orelse, e)
            else:
                res.append(Outcome("next", e))
        return res

    def iter_view(self, itv: SV, p: Path, line):
        """(kind, length term, elem(k, path) -> SV) of an iterable value."""
        h = p.heap
        if itv.tag == "lref":
            self.oblige(p, f"L{line}/iterate-None", itv.z != L.LNONE, kind="safety")
            p.assume(itv.z != L.LNONE)
            lz = itv.z
            self._iter_list = lz
            return "list", h.llen(lz), (lambda k, q: RefV(q.heap.litem(lz, k), "Node"))
        if itv.tag == "tuple":
            if len(itv.z) == 0:  # `xs or ()`
                return "tuple", z3.IntVal(0), (lambda k, q: RefV(L.NONE, "Node"))
            raise Unsupported("iteration over a non-empty tuple")
        if itv.tag == "iter":
            name, vs = itv.z
            if name == "range":
                if len(vs) == 1:
                    lo, hi, step = z3.IntVal(0), self.to_sort(vs[0], L.I), 1
                else:
                    lo, hi = self.to_sort(vs[0], L.I), self.to_sort(vs[1], L.I)
                    step = 1
                    if len(vs) == 3:
                        sz = z3.simplify(self.to_sort(vs[2], L.I))
                        if not z3.is_int_value(sz) or sz.as_long() not in (1, -1):
                            raise Unsupported("range step")
                        step = sz.as_long()
                if step == 1:
                    n = If(hi > lo, hi - lo, 0)
                    return "range", n, (lambda k, q: IntV(lo + k))
                n = If(lo > hi, lo - hi, 0)
                return "range", n, (lambda k, q: IntV(lo - k))
            if name == "enumerate":
                kind, n, el = self.iter_view(vs[0], p, line)
                start = self.to_sort(vs[1], L.I) if len(vs) > 1 else z3.IntVal(0)
                return "enum:" + kind, n, (lambda k, q: SV("tuple", (IntV(start + k), el(k, q))))
            if name == "reversed":
                kind, n, el = self.iter_view(vs[0], p, line)
                return kind, n, (lambda k, q: el(n - 1 - k, q))
        if itv.tag == "gen":  # eager model of a contracted generator: its yielded sequence
            s = itv.z
            return "gen", L.Len(s), (lambda k, q: RefV(L.At(s, k), "Node"))
        if itv.tag == "pseq":
            s = itv.z
            return "pseq", L.Len(s), (lambda k, q: RefV(L.At(s, k), "Node"))
        raise Unsupported(f"iteration over {itv.tag} (line {line})")

    # ------------------------------------------------------------------ generators (eager sequence model)
    def st_yield(self, y, p: Path):
        if not self.contract.is_generator:
            raise Unsupported("yield in a function whose contract is not a generator contract")
        R: list = []
        res = []
        cur = p.ghost.get("yielded", L.Empty)
        if isinstance(y, ast.Yield):
            for q, v in self.ev(y.value, p, R):
                if v.tag != "ref":
                    raise Unsupported("yield of a non-node")
                q.ghost["yielded"] = L.App(q.ghost.get("yielded", L.Empty), L.Single(v.z))
                res.append(Outcome("next", q))
        else:
            for q, v in self.ev_iter(y.value, p, R):
                if v.tag == "gen":
                    q.ghost["yielded"] = L.App(q.ghost.get("yielded", L.Empty), v.z)
                elif v.tag == "lref":
                    q.ghost["yielded"] = L.App(q.ghost.get("yielded", L.Empty), self.seq_of_list(q, v.z))
                elif v.tag == "iter" and v.z[0] == "reversed" and v.z[1][0].tag == "lref":
                    q.ghost["yielded"] = L.App(q.ghost.get("yielded", L.Empty), L.Rev(self.seq_of_list(q, v.z[1][0].z)))
                else:
                    raise Unsupported(f"yield from {v.tag}")
                res.append(Outcome("next", q))
        return res + self._raises(R)

    def seq_of_list(self, p: Path, lz):
        """PSeq snapshot of the current content of list object lz."""
        s = L.fresh("snap", L.PSeq)
        i = L.fresh("i", L.I)
        h = p.heap
        p.assume(If(lz == L.LNONE, L.Len(s) == 0, L.Len(s) == h.llen(lz)), ForAll([i], Implies(And(0 <= i, i < L.Len(s)), L.At(s, i) == h.litem(lz, i)), patterns=[L.At(s, i)]))
        return s


class _EnvView:
    def __init__(self, env):
        self._env = env

    def __getattr__(self, k):
        try:
            v = self.__dict__["_env"][k]
        except KeyError:
            raise AttributeError(k) from None
        return v.z

    def sv(self, k):
        return self._env[k]

    def has(self, k):
        return k in self._env


class _GhostView:
    def __init__(self, g):
        self._g = g

    def __getattr__(self, k):
        try:
            return self.__dict__["_g"][k]
        except KeyError:
            raise AttributeError(k) from None
