"""Driver of the deductive tier: verify one real function against its sidecar contract."""
from __future__ import annotations

import ast
import hashlib
import itertools
import time
import traceback

import z3
from z3 import And, ForAll, If, Implies, Not, Or

from . import logic as L
from .calls import Args, CallMixin, Ctx
from .containers import ContainerMixin
from .contract import REGISTRY, Contract
from .exprs import ExprMixin, str_axioms
from .objects import ObjectMixin
from .source import Source, stmt_text
from .stmts import StmtMixin
from .values import SV, BoolV, ExcV, IntV, NoneV, Obligation, Outcome, Path, RefV, Unsupported, exc_isa

NODE_CLS = {"plain": ("Node", "_SystemRootNode"), "typed": ("TypedNode", "_SystemRootTypedNode")}
TREE_CLS = {"plain": ("Tree", "FileSystemTree"), "typed": ("TypedTree",)}


class Executor(ExprMixin, ContainerMixin, CallMixin, StmtMixin, ObjectMixin):
    max_paths = 3000

    def __init__(self, src: Source, qual: str, contract: Contract, family: str):
        self.src = src
        self.qual = qual
        self.contract = contract
        self.family = family
        self.obligations: list[Obligation] = []
        self.assumed_external: set = set()
        self.only_variant = None
        self.loop_counter = 0
        self.variant = ""
        self.cur_site = ""
        mod, fd = src.lookup(qual)
        self.fd = fd
        self.module = mod
        self.line0 = fd.lineno

    # ------------------------------------------------------------------ obligations
    def oblige(self, p: Path, name: str, goal, kind="safety", props=None):
        g = z3.simplify(goal) if z3.is_expr(goal) else z3.BoolVal(bool(goal))
        if z3.is_true(g):
            return
        nm = self.rel_lines(name)
        parts = self.split_goal(goal)
        for k, g1 in enumerate(parts):
            suffix = f"/{k + 1}of{len(parts)}" if len(parts) > 1 else ""
            ob = Obligation(f"{self.qual}[{self.variant}]#{nm}{suffix}", list(p.conds), g1, tuple(props if props is not None else self.contract.props), self.qual, kind)
            if z3.is_expr(g1) and g1.get_id() in p.cond_ids:
                # the goal literally is one of the path's assumptions (e.g. an unchanged wf clause re-required by a callee)
                ob.status, ob.backend = "proved", "syntactic"
            self.obligations.append(ob)

    def split_goal(self, goal, limit=400):
        """Top-level conjunctions are discharged conjunct by conjunct (smaller queries,
        and E-matching relevancy does not hide the terms of the other conjuncts)."""
        out = []

        def rec(g):
            if z3.is_and(g) and len(out) < limit:
                for ch in g.children():
                    rec(ch)
            elif z3.is_quantifier(g) and g.is_forall() and len(out) < limit:
                # forall xs. A -> (B1 & B2 ...)   ==>   one quantified goal per Bi
                n = g.num_vars()
                consts = [z3.Const(f"{g.var_name(i)}", g.var_sort(i)) for i in range(n)]
                body = z3.substitute_vars(g.body(), *reversed(consts))
                pats = [z3.substitute_vars(g.pattern(i), *reversed(consts)) for i in range(g.num_patterns())]
                if z3.is_implies(body) and z3.is_and(body.arg(1)) and body.arg(1).num_args() > 1:
                    for b in body.arg(1).children():
                        pp = []
                        for pt in pats:
                            pp.append(z3.MultiPattern(*pt.children()) if pt.num_args() > 1 else pt.arg(0))
                        out.append(ForAll(consts, Implies(body.arg(0), b), patterns=pp) if pp else ForAll(consts, Implies(body.arg(0), b)))
                else:
                    out.append(g)
            else:
                out.append(g)

        rec(goal)
        return out

    def rel_lines(self, name: str) -> str:
        """Line numbers relative to the function's first line (stable under edits elsewhere)."""
        import re

        return re.sub(r"\bL(\d+)\b", lambda m: f"L+{int(m.group(1)) - self.line0}", name)

    def resolve_global_function(self, name: str):
        if self.module == "lemma" and f"lemma.{name}" in self.src.functions:
            return f"lemma.{name}"
        for m in (self.module, "common", "node", "tree"):
            q = f"nutree.{m}.{name}"
            if q in self.src.functions:
                return q
        return None

    # ------------------------------------------------------------------ parameters
    def make_arg(self, name: str, tag: str, p: Path) -> SV:
        h = p.heap
        if tag in ("node", "node?"):
            z = z3.Const(f"{name}", L.Ref)
            ok = And(z != L.NONE, h.alloc(z), Or(*[L.cls_of(z) == L.CLS[c] for c in NODE_CLS[self.family]]))
            p.assume(ok if tag == "node" else Or(z == L.NONE, ok))
            return RefV(z, "Node")
        if tag == "tree":
            z = z3.Const(f"{name}", L.Ref)
            p.assume(z != L.NONE, h.alloc(z), Or(*[L.cls_of(z) == L.CLS[c] for c in TREE_CLS[self.family]]))
            return RefV(z, "Tree")
        if tag == "othertree":  # a tree of any family, possibly another one
            z = z3.Const(f"{name}", L.Ref)
            p.assume(z != L.NONE, h.alloc(z), Or(*[L.cls_of(z) == L.CLS[c] for c in ("Tree", "TypedTree", "FileSystemTree")]))
            return RefV(z, "Tree")
        if tag == "none":
            return NoneV
        if tag == "bool":
            return BoolV(z3.Const(f"{name}", L.B))
        if tag == "true":
            return BoolV(True)
        if tag == "false":
            return BoolV(False)
        if tag == "int":
            return IntV(z3.Const(f"{name}", L.I))
        if tag in ("val", "data", "kind", "id"):
            z = z3.Const(f"{name}", L.Val)
            if tag == "kind":
                p.assume(z != L.VNONE)
            if tag in ("data", "id"):
                p.assume(z != L.VNONE)
            if tag == "id":
                p.assume(Or(L.v_is_int(z), L.v_is_str(z)))
            return SV("val", z)
        if tag == "anykind":
            return SV("val", L.ANY_KIND)
        if tag == "cb":
            z = z3.Const(f"{name}", L.Val)
            p.assume(z != L.VNONE, L.v_callable(z), L.v_truthy(z))
            return SV("val", z)
        if tag == "lref":
            z = z3.Const(f"{name}", L.LRef)
            p.assume(z != L.LNONE, h.lalloc(z), h.llen(z) >= 0)
            return SV("lref", z)
        if tag == "dref":
            z = z3.Const(f"{name}", L.DRef)
            p.assume(z != L.DNONE, h.dalloc(z), h.dcard(z) >= 0)
            return SV("dref", z)
        if tag.startswith("enum:"):
            return SV("enum", tag[5:])
        if tag.startswith("str:"):
            return SV("str", tag[4:])
        if tag.startswith("cls:"):
            return SV("cls", tag[4:])
        raise Unsupported(f"parameter tag {tag}")

    # ------------------------------------------------------------------ main entry
    def run(self) -> list[Obligation]:
        c = self.contract
        fd = self.fd
        a = fd.args
        names = [x.arg for x in a.posonlyargs + a.args + a.kwonlyargs]
        for n in c.params:
            if n not in names:
                raise Unsupported(f"contract parameter {n} does not exist in the real signature {names}")
        for n in names:
            if n not in c.params:
                raise Unsupported(f"parameter {n} of the real function has no typed() clause")
        alts = [[(n, t) for t in c.params[n]] for n in names]
        for k, combo in enumerate(itertools.product(*alts)):
            if self.only_variant is not None and k != self.only_variant:
                continue
            if c.assumed_variants is not None and c.assumed_variants(dict(combo)):
                continue  # this parameter-type variant of the contract is assumed, not verified (listed in the evidence)
            self.variant = self.family + ":" + ",".join(t for n, t in combo if len(c.params[n]) > 1)
            self.loop_counter = 0
            self.run_variant(dict(combo))
        return self.obligations

    def run_variant(self, tags: dict):
        c = self.contract
        h0 = L.Heap.initial("0")
        p = Path(heap=h0)
        svs = {}
        for n, t in tags.items():
            svs[n] = self.make_arg(n, t, p)
        p.env = dict(svs)
        for nm, (tag, mode) in c.captures.items():  # nested function verified as a unit: captured variables are symbolic inputs
            svs[nm + "__in"] = self.make_arg(nm + "__in", tag, p)
            p.env[nm] = svs[nm + "__in"]
        if c.captures:
            p.env[self.fd.name] = SV("func", ("nested", self.fd, None))  # its own name, for the recursive call
        self.h_entry = h0
        self.args_entry = Args(dict(svs))
        x0 = Ctx(self, h0, h0, self.args_entry, family=self.family)
        self.T_entry = x0.T
        for rname, rfn in c.requires_:
            p.assume(rfn(x0))
        # verified lemmas this function relies on: their universally closed statements
        for lq in getattr(c, "uses_lemmas", ()):
            p.assume(lemma_statement(self, lq, h0, x0.T))
        if self.contract.is_generator:
            p.ghost["yielded"] = L.Empty
        self.entry_conds = list(p.conds)
        self._nt_cache = {}
        self.on_entry(p)
        # vacuity guard: the precondition must not be contradictory (checked as a must-fail VC)
        self.obligations.append(Obligation(f"{self.qual}[{self.variant}]#entry/must-fail:False", list(p.conds), z3.BoolVal(False), (), self.qual, "must_fail"))
        outs = self.exec_block(self.body_of(self.fd), p)
        for o in outs:
            if o.kind == "next":
                self.at_exit(o.path, NoneV, "end")
            elif o.kind == "return":
                self.at_exit(o.path, o.val if o.val is not None else NoneV, "return")
            elif o.kind == "raise":
                self.at_raise(o.path, o.val)
            else:
                raise Unsupported(f"{o.kind} outside loop")

    def on_entry(self, p):
        pass

    # ------------------------------------------------------------------ exits
    def exit_ghost(self, p: Path, defs: dict, res, exc=None):
        """Install the sidecar's witness definitions of ghost components in the exit heap."""
        for comp, fn in defs.items():
            hpre = p.heap
            x = Ctx(self, self.h_entry, hpre, self.args_entry, res=res, family=self.family, exc=exc, labels=p.labels)
            x.p = p
            h1, ax = hpre.define(comp, lambda old, *xs: fn(x, *xs))
            p.heap = h1
            p.assume(ax)

    def args_at_exit(self, p: Path) -> Args:
        """entry arguments + the final bindings of the `nonlocal` variables of a nested function (<name>__out)"""
        c = self.contract
        if not any(mode == "inout" for _t, mode in c.captures.values()):
            return self.args_entry
        svs = dict(self.args_entry._sv)
        for nm, (_tag, mode) in c.captures.items():
            if mode == "inout":
                svs[nm + "__out"] = p.env[nm]
        return Args(svs)

    def trace_ghost(self, p: Path, res, exc=None):
        """Ghost definition of one trace event at the exit of a function that declares `trace_event` (call_traversal_cb):
        the event's node and kind -- a function of the outcome only -- are recorded at index tlen(cb), and tlen(cb) grows by one."""
        te = getattr(self.contract, "trace_event", None)
        if te is None:
            return
        x = Ctx(self, self.h_entry, p.heap, self.args_entry, res=res, family=self.family, exc=exc, labels=p.labels)
        x.p = p
        cb, node, kind = te(x)
        i0 = p.heap.tlen(cb)
        h1, ax = p.heap.define("tlen", lambda old, c_: If(c_ == cb, old(c_) + 1, old(c_)))
        p.heap = h1
        p.assume(ax, L.TN(cb, i0) == node, L.TK(cb, i0) == kind)

    def at_exit(self, p: Path, res: SV, how: str):
        c = self.contract
        if c.is_generator:
            res = SV("gen", p.ghost.get("yielded", L.Empty))
        self.exit_ghost(p, c.ghost_exit, res)
        self.trace_ghost(p, res)
        x = Ctx(self, self.h_entry, p.heap, self.args_at_exit(p), res=res, family=self.family, labels=p.labels)
        x.p = p
        x0 = Ctx(self, self.h_entry, self.h_entry, self.args_entry, family=self.family)
        site = f"exit({how}@L{p.ghost['exit_line']})" if how == "return" and "exit_line" in p.ghost else f"exit({how})"
        if c.result_tag is not None and not self.result_tag_ok(res, c.result_tag):
            self.oblige(p, f"{site}/result-type is {c.result_tag} (got {res.tag})", z3.BoolVal(False), kind="ensures")
            return
        # frame at component level: syntactic, exact
        changed = self.h_entry.changed(p.heap) - set(L.GHOST)
        extra = changed - set(c.modifies_) - {"lalloc", "dalloc", "alloc"}
        if extra and not self.only_fresh_changes(p, extra):
            self.oblige(p, f"{site}/modifies only {sorted(c.modifies_)} (also wrote {sorted(extra)})", self.fresh_only_formula(p, extra), kind="frame")
        for r in c.raises_:
            if r.when is not None and r.must:
                self.oblige(p, f"{site}/must-raise {r.name}", Not(r.when(x0)), kind="raises", props=r.props)
        for en in c.ensures_:
            self.oblige(p, f"{site}/ensures {en.name}", en.fn(x), kind="ensures", props=en.props)
        for nm, fn in c.must_fail:
            self.obligations.append(Obligation(f"{self.qual}[{self.variant}]#{site}/must-fail:{nm}", list(p.conds), fn(x), (), self.qual, "must_fail"))

    def result_tag_ok(self, res: SV, t: str) -> bool:
        if t == "any":
            return True
        if t == "none":
            return res.tag == "none"
        if t == "node":
            return res.tag == "ref"
        if t == "node?":
            return res.tag in ("ref", "none")
        if t == "pseq":
            return res.tag == "gen"
        if t == "val":
            return res.tag in ("val", "str", "int", "bool", "none")
        if t == "int":
            return res.tag in ("int",)
        if t == "bool":
            return res.tag in ("bool",)
        return res.tag == t

    def only_fresh_changes(self, p, comps) -> bool:
        return False

    def fresh_only_formula(self, p: Path, comps):
        """Changes to components outside `modifies` are allowed only on objects that did not
        exist at entry (fresh lists/dicts)."""
        h0, h = self.h_entry, p.heap
        fs = []
        for comp in sorted(comps):
            args, _res = L.COMPONENTS[comp]
            xs = [L.fresh("x", a) for a in args]
            first = xs[0]
            if args[0] == L.LRef:
                pre = h0.lalloc(first)
            elif args[0] == L.DRef:
                pre = h0.dalloc(first)
            else:
                pre = h0.alloc(first)
            fs.append(ForAll(xs, Implies(pre, h.f(comp)(*xs) == h0.f(comp)(*xs)), patterns=[h.f(comp)(*xs)]))
        return And(*fs)

    def at_raise(self, p: Path, exc: ExcV):
        c = self.contract
        self.exit_ghost(p, c.ghost_exit_exc, None, exc=exc)
        self.trace_ghost(p, None, exc=exc)
        x = Ctx(self, self.h_entry, p.heap, self.args_at_exit(p), family=self.family, exc=exc, labels=p.labels)
        x.p = p
        x0 = Ctx(self, self.h_entry, self.h_entry, self.args_entry, family=self.family)
        site = f"raise {exc.cls}@{exc.site}"
        cases = [r for r in c.raises_ if exc_isa(exc.cls, r.exc)]
        if not cases:
            self.oblige(p, f"{site}/no-unexpected-exception", z3.BoolVal(False), kind="raises")
            return
        whens = [r.when(x0) if r.when is not None else z3.BoolVal(True) for r in cases]
        self.oblige(p, f"{site}/raise-allowed", Or(*whens), kind="raises", props=tuple(sorted({pp for r in cases for pp in r.props})))
        for r, w in zip(cases, whens):
            if r.ensures is not None:
                q_conds = list(p.conds) + [w]
                g = r.ensures(x)
                self.obligations.append(Obligation(f"{self.qual}[{self.variant}]#{self.rel_lines(site)}/ensures-on-{r.name}", q_conds, g, r.props, self.qual, "raises"))

    def on_structure_read(self, p, site, bound):
        pass


def lemma_statement(ex, lq: str, h, T):
    """forall params. requires -> ensures  of a lemma contract, over heap h and tree T.  Sound to
    assume because the lemma itself is verified (its obligations are in the same ledger)."""
    lc = REGISTRY[lq]
    svs = {}
    consts = []
    for n, alts in lc.params.items():
        z = L.fresh(f"{n}_lm", L.Ref)
        consts.append(z)
        svs[n] = RefV(z, "Node")
    a = Args(svs)
    x = Ctx(ex, h, h, a, res=NoneV, family=ex.family, T=T)
    pre = And(*[fn(x) for _n, fn in lc.requires_]) if lc.requires_ else z3.BoolVal(True)
    post = And(*[e.fn(x) for e in lc.ensures_])
    pats = lc.lemma_patterns(x) if getattr(lc, "lemma_patterns", None) else None
    return ForAll(consts, Implies(pre, post), patterns=pats) if pats else ForAll(consts, Implies(pre, post))


def n_variants(qual: str) -> list:
    """[(family, variant index)] of a contract: the units of parallel work."""
    c = REGISTRY[qual]
    n = 1
    for alts in c.params.values():
        n *= max(1, len(alts))
    return [(f, k) for f in c.families for k in range(n)]


def verify_function(src: Source, qual: str, family=None, variant=None) -> dict:
    """Generate all VCs of `qual` from the current source.  Returns a dict with obligations
    (still carrying z3 terms) or an out-of-reach reason."""
    c = REGISTRY[qual]
    mod, fd = src.lookup(qual)
    if fd is None:
        return {"qual": qual, "out_of_reach": "function not found in the current source", "obligations": []}
    obs: list[Obligation] = []
    try:
        for fam in c.families:
            if family is not None and fam != family:
                continue
            ex = Executor(src, qual, c, fam)
            ex.only_variant = variant
            obs += ex.run()
    except Unsupported as e:
        return {"qual": qual, "out_of_reach": str(e), "obligations": [], "hash": src.fhash(fd)}
    except RecursionError:
        return {"qual": qual, "out_of_reach": "recursion limit in the executor", "obligations": [], "hash": src.fhash(fd)}
    except (AttributeError, KeyError, IndexError, TypeError, z3.Z3Exception) as e:
        # the sidecar contract does not attach to the current source any more (e.g. a local variable an
        # invariant talks about was renamed, a parameter changed type): the function is out of reach for
        # this run and the bounded tier decides -- never a violation, never a checker crash (DESIGN §3.8)
        import traceback

        where = traceback.format_exc().strip().split("\n")[-3:]
        return {"qual": qual, "out_of_reach": f"contract does not attach to the current source: {type(e).__name__}: {e} @ {' | '.join(w.strip() for w in where)[:300]}", "obligations": [], "hash": src.fhash(fd)}
    return {"qual": qual, "out_of_reach": None, "obligations": obs, "hash": src.fhash(fd)}
