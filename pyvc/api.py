"""Property-level driver of the deductive tier: select the contracts tagged with a
property, generate the VCs of those functions from the current source, discharge them in
parallel, compare with the committed ledger.

    python3-vt -m pyvc.api ledger            regenerate ledger/discharged.json (unchanged tree only!)
    python3-vt -m pyvc.api show C15 [-v]     run one property and print the obligations
"""
from __future__ import annotations

import hashlib
import json
import multiprocessing as mp
import os
import re
import sys
import time
import traceback

VERIF = os.path.dirname(os.path.dirname(os.path.abspath(__file__)))
LEDGER = os.path.join(VERIF, "ledger", "discharged.json")
NPROC = int(os.environ.get("VERIF_NPROC", "0")) or min(16, os.cpu_count() or 1)


def load_contracts():
    import contracts  # noqa: F401  (imports every contract module)
    from .contract import REGISTRY

    return REGISTRY


def functions_for(prop: str, registry) -> list[str]:
    out = []
    for q, c in registry.items():
        if c.inline or c.assumed:
            continue
        tags = set(c.props)
        for e in c.ensures_:
            tags |= set(e.props)
        for r in c.raises_:
            tags |= set(r.props)
        if prop in tags:
            out.append(q)
    return sorted(out)


def stable_key(name: str, src, qual: str) -> str:
    """Obligation name with every relative line number replaced by a hash of that source
    line's text: survives edits elsewhere in the function, changes when the statement does."""
    mod, fd = src.lookup(qual)
    lines = src.text[mod].split("\n") if mod else []

    def rep(m):
        ln = fd.lineno + int(m.group(1)) - 1
        txt = lines[ln].strip() if 0 <= ln < len(lines) else ""
        return "S" + hashlib.blake2b(txt.encode(), digest_size=3).hexdigest()

    # the /KofN suffix of split conjuncts is dropped: a clause is in the ledger iff *all* its parts were proved
    return re.sub(r"/\d+of\d+$", "", re.sub(r"L\+(\d+)", rep, name))


_SRC_CACHE: dict = {}
_BASE_STATE: dict = {}


def _reset_logic_state():
    """Every (function, family, variant) task starts from the same logical state -- fresh-name counter, spec-function
    tables and their axioms, string constants -- whatever the worker process verified before: the VCs of a task, and
    with them the solver's behaviour, do not depend on how the pool happened to distribute the work."""
    import itertools

    from . import exprs
    from . import logic as L

    if not _BASE_STATE:
        _BASE_STATE.update(
            ctr=next(L._ctr), axioms=list(L.SPEC_AXIOMS), upk=dict(L._UPK), anc=dict(L._ANC), pre=dict(L._PRE), filt=dict(L._FILT), filtcb=list(L._FILTCB), level=dict(L._LEVEL), leafcnt=dict(L._LEAFCNT), height=dict(L._HEIGHT), visit=dict(L._VISIT),
            strs=dict(exprs.STR_CONSTS),
        )
    b = _BASE_STATE
    L._ctr = itertools.count(b["ctr"] + 1)
    L.SPEC_AXIOMS[:] = b["axioms"]
    for d, k in ((L._UPK, "upk"), (L._ANC, "anc"), (L._PRE, "pre"), (L._FILT, "filt"), (L._LEVEL, "level"), (L._LEAFCNT, "leafcnt"), (L._HEIGHT, "height"), (L._VISIT, "visit")):
        d.clear()
        d.update(b[k])
    L._FILTCB[:] = b["filtcb"]
    L._WF_CACHE.clear()
    exprs.STR_CONSTS.clear()
    exprs.STR_CONSTS.update(b["strs"])


def _verify_one(args):
    qual, srcroot, tier, family, variant = args
    t0 = time.time()
    try:
        from . import engine, solve
        from .source import Source

        load_contracts()
        _reset_logic_state()
        if srcroot not in _SRC_CACHE:
            _SRC_CACHE[srcroot] = Source(srcroot)
        src = _SRC_CACHE[srcroot]
        r = engine.verify_function(src, qual, family, variant)
        obs = []
        cvc_ms = 10000 if tier == "quick" else 120000
        # group by path (identical hypothesis list) -> one incremental solver per path
        groups: dict = {}
        for ob in r["obligations"]:
            groups.setdefault(tuple(h.get_id() if hasattr(h, "get_id") else hash(h) for h in ob.hyps), []).append(ob)
        budget = {"cvc5": 1 if tier == "quick" else 40}  # open obligations that get the slow second opinion

        for g in groups.values():
            solve.discharge_group(g, use_cvc5=budget, cvc5_ms=cvc_ms)
        fmf_left = 1 if tier == "quick" else 20
        for ob in r["obligations"]:
            sample = None
            if ob.kind == "ensures" and ob.status == "proved" and not obs_has_sample(obs):
                try:
                    sample = solve.smt2_of(solve.make_solver(ob.hyps, ob.goal))[-1500:]
                except Exception:  # noqa: BLE001
                    sample = None
            refuter = ""
            if ob.status != "proved" and ob.kind != "must_fail" and os.environ.get("PYVC_FMF", "1") == "1" and fmf_left > 0:
                fmf_left -= 1
                try:
                    rr, out = solve.cvc5_refute(ob, 8000 if tier == "quick" else 120000)
                    refuter = f"cvc5 --finite-model-find: {rr}" + (" | " + " ".join(l.strip() for l in out.split("\n") if "cardinality" in l or "define-fun self" in l)[:600] if rr == "sat" else "")
                except Exception as e:  # noqa: BLE001
                    refuter = f"refuter error {e}"
            obs.append({"name": ob.name, "key": stable_key(ob.name, src, qual), "status": ob.status, "backend": ob.backend, "time": round(ob.time, 3), "reason": ob.reason, "props": list(ob.props), "kind": ob.kind, "func": qual, "sample": sample, "refuter": refuter})
        return {"qual": qual, "out_of_reach": r["out_of_reach"], "hash": r.get("hash"), "obligations": obs, "wall": time.time() - t0, "error": None}
    except Exception:  # noqa: BLE001
        return {"qual": qual, "out_of_reach": None, "obligations": [], "wall": time.time() - t0, "error": traceback.format_exc()[-2500:]}


def obs_has_sample(obs):
    return any(o.get("sample") for o in obs)


def verify_functions(quals, srcroot, tier):
    """One task per (function, family, parameter-type variant); results merged per function."""
    if not quals:
        return []
    from . import engine

    load_contracts()
    tasks = []
    for q in quals:
        for fam, k in engine.n_variants(q):
            tasks.append((q, srcroot, tier, fam, k))
    from .source import Source

    if srcroot not in _SRC_CACHE:
        _SRC_CACHE[srcroot] = Source(srcroot)  # parsed once here, inherited by every task process
    ctx = mp.get_context("fork")
    # one fresh process per task (forked from this one): no task sees solver / term-table state left by another,
    # so a verdict does not depend on how the pool distributes the work
    with ctx.Pool(min(NPROC, len(tasks)), maxtasksperchild=1) as pool:
        parts = pool.map(_verify_one, tasks, chunksize=1)
    merged: dict = {}
    for r in parts:
        m = merged.setdefault(r["qual"], {"qual": r["qual"], "out_of_reach": None, "hash": r.get("hash"), "obligations": [], "wall": 0.0, "error": None})
        m["obligations"] += r["obligations"]
        m["wall"] += r["wall"]
        m["error"] = m["error"] or r["error"]
        m["out_of_reach"] = m["out_of_reach"] or r["out_of_reach"]
        m["hash"] = m["hash"] or r.get("hash")
    return [merged[q] for q in quals]


def load_ledger() -> dict:
    if os.path.exists(LEDGER):
        return json.load(open(LEDGER))
    return {"obligations": {}}


def run_lockcheck(src: str) -> dict:
    """C18: effect contracts decided by the lexical lock-discipline checker (pyvc/lockcheck.py)."""
    from . import lockcheck
    from .source import Source

    t0 = time.time()
    S = Source(src)
    r = lockcheck.run(S)
    ledger = load_ledger().get("obligations", {})
    out = {"src": src, "z3_version": "n/a (effect checker)", "functions": r["functions"], "obligations": len(r["obligations"]), "discharged": 0, "by_backend": {"effect": 0}, "solver_s": 0.0, "open": [], "errors": [], "out_of_reach": r["out_of_reach"], "must_fail": {"expected_unprovable": 0, "wrongly_proved": 0}, "samples": [], "assumed": [{"function": "threading.RLock", "reason": "mutual exclusion and re-entrancy assumed; no schedule explored"}], "assumption_scan": {}}
    for o in r["obligations"]:
        qual = o["name"].split("#")[0]
        key = lock_key(o["name"], S, qual)
        if o["ok"]:
            out["discharged"] += 1
            out["by_backend"]["effect"] += 1
            if len(out["samples"]) < 3:
                out["samples"].append({"obligation": o["name"]})
        else:
            out["open"].append({"name": o["name"], "func": qual, "status": "unproved", "reason": "lock-discipline obligation violated: " + o["detail"][:200], "in_ledger": key in ledger, "known_finding": None, "solver_output": o["detail"], "refuter": "path-independent: any call of the operation performs this read without holding the lock"})
    # vacuity guard: a checker that generates no read-site obligation proves nothing
    if not any("held>=entry+1" in o["name"] for o in r["obligations"]):
        out["errors"].append("lockcheck generated no structure-read obligation")
    out["must_fail"]["expected_unprovable"] = 1
    out["wall_s"] = time.time() - t0
    return out


def lock_key(name: str, S, qual: str) -> str:
    try:
        return stable_key(name, S, qual) if S.lookup(qual)[1] is not None else name
    except Exception:  # noqa: BLE001
        return name


def run_property(prop: str, tier: str, src: str = "/repo") -> dict | None:
    if prop == "C18":
        return run_lockcheck(src)
    reg = load_contracts()
    quals = functions_for(prop, reg)
    if not quals:
        return None
    t0 = time.time()
    results = verify_functions(quals, src, tier)
    ledger = load_ledger().get("obligations", {})
    findings = json.load(open(os.path.join(VERIF, "known_findings.json"))) if os.path.exists(os.path.join(VERIF, "known_findings.json")) else {"findings": []}
    known_obs = {f["obligation_key"]: f["id"] for f in findings.get("findings", []) if f.get("obligation_key") and f.get("status", "known") == "known"}
    out = {"src": src, "z3_version": __import__("z3").get_version_string(), "functions": [], "obligations": 0, "discharged": 0, "by_backend": {}, "solver_s": 0.0, "open": [], "errors": [], "out_of_reach": [], "must_fail": {"expected_unprovable": 0, "wrongly_proved": 0}, "samples": [], "assumed": [], "assumption_scan": assumption_scan(reg)}
    for r in results:
        if r["error"]:
            out["errors"].append(f"pyvc crashed on {r['qual']}: {r['error']}")
            continue
        if r["out_of_reach"]:
            out["out_of_reach"].append({"function": r["qual"], "construct": r["out_of_reach"]})
            # obligations of this function that are in the ledger can no longer be generated:
            # the function dropped out of reach -> bounded tier decides; not a violation (DESIGN §3.8)
            continue
        n_all = n_ok = 0
        for ob in r["obligations"]:
            if ob["kind"] == "must_fail":
                if ob["status"] == "proved":
                    out["must_fail"]["wrongly_proved"] += 1
                    out["errors"].append(f"vacuity guard: {ob['name']} was proved (contradictory precondition or unsound engine)")
                else:
                    out["must_fail"]["expected_unprovable"] += 1
                continue
            if not relevant(ob, prop):
                continue
            n_all += 1
            out["solver_s"] += ob["time"]
            if ob["status"] == "proved":
                n_ok += 1
                out["by_backend"][ob["backend"]] = out["by_backend"].get(ob["backend"], 0) + 1
                if ob.get("sample") and len(out["samples"]) < 3:
                    out["samples"].append({"obligation": ob["name"], "smt2_tail": ob["sample"]})
            else:
                out["open"].append({"name": ob["name"], "func": r["qual"], "status": ob["status"], "reason": ob["reason"], "in_ledger": ob["key"] in ledger, "known_finding": known_obs.get(ob["key"]), "solver_output": ob["reason"], "refuter": ob.get("refuter", "")})
        if n_all == 0:
            out["errors"].append(f"{r['qual']}: zero obligations generated for {prop}")
        out["obligations"] += n_all
        out["discharged"] += n_ok
        out["functions"].append({"function": r["qual"], "source_hash": r["hash"], "obligations": n_all, "discharged": n_ok, "wall_s": round(r["wall"], 2)})
    for q, c in reg.items():
        if c.assumed:
            out["assumed"].append({"function": q, "reason": c.assumed_reason})
        elif c.assumed_variants is not None and any(r["qual"] == q for r in results):
            out["assumed"].append({"function": q + " (some parameter-type variants)", "reason": c.assumed_variants_reason})
    out["wall_s"] = time.time() - t0
    return out


def relevant(ob, prop) -> bool:
    """An obligation counts for property P if it is tagged with P, or if it is a supporting
    obligation (safety / invariant / callee precondition / frame) of a function tagged with P."""
    return prop in ob["props"] or (ob["kind"] in ("safety", "inv", "pre", "frame") and not ob["props"])


def assumption_scan(reg) -> dict:
    """Mechanical count of everything that is assumed rather than proved."""
    import glob

    words = ("assumed", "oracle", "p.assume(", "axiom")
    counts = {w: 0 for w in words}
    for f in glob.glob(os.path.join(VERIF, "contracts", "*.py")) + glob.glob(os.path.join(VERIF, "pyvc", "*.py")):
        t = open(f).read()
        for w in words:
            counts[w] += t.count(w)
    counts["assumed_contracts"] = sum(1 for c in reg.values() if c.assumed)
    counts["inlined_accessors"] = sum(1 for c in reg.values() if c.inline)
    return counts


def replay_obligation(w: dict, src="/repo") -> int:
    reg = load_contracts()
    r = verify_functions([w["func"]], src, "quick")[0]
    for ob in r["obligations"]:
        if ob["name"] == w["obligation"]:
            print(f"{ob['name']}: {ob['status']} {ob['reason']} {ob.get('refuter', '')}")
            return 0 if ob["status"] == "proved" else 1
    print("obligation not generated any more")
    return 2


def make_ledger(src="/repo"):
    reg = load_contracts()
    quals = sorted(q for q, c in reg.items() if not c.inline and not c.assumed)
    results = verify_functions(quals, src, "quick")
    led = {}
    bad_keys = set()
    stats = {"functions": 0, "obligations": 0, "proved": 0, "open": []}
    for r in results:
        if r["error"] or r["out_of_reach"]:
            print("SKIP", r["qual"], r["error"] or r["out_of_reach"])
            continue
        stats["functions"] += 1
        for ob in r["obligations"]:
            if ob["kind"] == "must_fail":
                continue
            stats["obligations"] += 1
            if ob["status"] == "proved":
                stats["proved"] += 1
                led[ob["key"]] = led.get(ob["key"], 0) + 1
            else:
                stats["open"].append(ob["name"])
                bad_keys.add(ob["key"])
    # C18 effect obligations
    from . import lockcheck
    from .source import Source

    S = Source(src)
    for o in lockcheck.run(S)["obligations"]:
        stats["obligations"] += 1
        if o["ok"]:
            stats["proved"] += 1
            k = lock_key(o["name"], S, o["name"].split("#")[0])
            led[k] = led.get(k, 0) + 1
        else:
            stats["open"].append(o["name"])
    for k in bad_keys:
        led.pop(k, None)
    os.makedirs(os.path.dirname(LEDGER), exist_ok=True)
    json.dump({"generated_from": src, "obligations": dict(sorted(led.items()))}, open(LEDGER, "w"), indent=0)
    print(json.dumps({k: v for k, v in stats.items() if k != "open"}), "open:", len(stats["open"]))
    for o in stats["open"]:
        print("  OPEN", o)


if __name__ == "__main__":
    sys.path.insert(0, VERIF)
    if sys.argv[1] == "ledger":
        make_ledger(os.environ.get("NUTREE_SRC", "/repo"))
    elif sys.argv[1] == "show":
        r = run_property(sys.argv[2], "quick", os.environ.get("NUTREE_SRC", "/repo"))
        print(json.dumps({k: v for k, v in r.items() if k not in ("samples", "functions")}, indent=1)[:6000])
        for f in r["functions"]:
            print(f)
