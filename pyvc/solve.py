"""Back ends: z3 (E-matching only, resource-limited), cvc5 CLI as second opinion on the
SMT-LIB dump, cvc5 finite-model-finding as refuter (DESIGN §3.5/3.6)."""
from __future__ import annotations

import os
import subprocess
import tempfile
import time

import z3

from . import logic as L
from .exprs import str_axioms
from .values import Obligation

RLIMIT = int(os.environ.get("PYVC_RLIMIT", "30000000"))
WALL_MS = int(os.environ.get("PYVC_WALL_MS", "60000"))
CVC5 = "/usr/bin/cvc5"


def base_axioms():
    return L.prelude() + str_axioms()


def make_solver(hyps, goal):
    s = z3.SimpleSolver()
    s.set("auto_config", False)
    s.set("smt.mbqi", False)
    s.set("rlimit", RLIMIT)
    s.set("timeout", WALL_MS)
    s.add(base_axioms())
    s.add(hyps)
    s.add(z3.Not(goal))
    return s


def discharge_group(obs: list, use_cvc5=True, cvc5_ms=20000):
    """Obligations that share one path (identical hypothesis list) are discharged on one
    incremental solver (push / goal / pop): the hypotheses are asserted once."""
    obs = [o for o in obs if o.status != "proved"]  # goals that literally are hypotheses were settled by the generator
    if not obs:
        return
    if len(obs) == 1:
        discharge(obs[0], use_cvc5, cvc5_ms)
        return
    s = z3.SimpleSolver()
    s.set("auto_config", False)
    s.set("smt.mbqi", False)
    s.set("rlimit", RLIMIT)
    s.set("timeout", WALL_MS)
    s.add(base_axioms())
    s.add(obs[0].hyps)
    for ob in obs:
        t0 = time.time()
        s.push()
        s.add(z3.Not(ob.goal))
        try:
            r = s.check()
        except z3.Z3Exception:
            r = None
        if r == z3.unsat:
            ob.status, ob.backend = "proved", "z3"
            ob.time = time.time() - t0
            s.pop()
            continue
        s.pop()
        # anything not proved incrementally is retried on a fresh solver (and cvc5)
        discharge(ob, use_cvc5, cvc5_ms)
        ob.time += time.time() - t0


def discharge(ob: Obligation, use_cvc5=True, cvc5_ms=20000) -> Obligation:
    t0 = time.time()
    s = make_solver(ob.hyps, ob.goal)
    try:
        r = s.check()
    except z3.Z3Exception as e:
        ob.status, ob.reason, ob.backend = "undecided", f"z3 exception {e}", "z3"
        ob.time = time.time() - t0
        return ob
    ob.backend = "z3"
    if r == z3.unsat:
        ob.status = "proved"
    elif r == z3.sat:
        ob.status, ob.reason = "unproved", "z3: sat"
    else:
        reason = s.reason_unknown()
        if "incomplete" in reason:
            ob.status, ob.reason = "unproved", f"z3: unknown ({reason})"
        else:
            ob.status, ob.reason = "undecided", f"z3: unknown ({reason})"
    if isinstance(use_cvc5, dict):  # shared budget of slow second opinions per task
        if ob.status != "proved" and ob.kind != "must_fail" and use_cvc5.get("cvc5", 0) > 0:
            use_cvc5["cvc5"] -= 1
            go = True
        else:
            go = False
    else:
        go = bool(use_cvc5)
    if ob.status != "proved" and go and ob.kind != "must_fail":
        r2, out = cvc5_prove(s, cvc5_ms)
        if r2 == "unsat":
            ob.status, ob.backend, ob.reason = "proved", "cvc5", ""
        elif r2 == "sat":
            ob.reason += " | cvc5: sat"
    ob.time = time.time() - t0
    return ob


def smt2_of(s: z3.Solver) -> str:
    return "(set-logic ALL)\n" + s.to_smt2()


def cvc5_prove(s: z3.Solver, ms: int):
    with tempfile.NamedTemporaryFile("w", suffix=".smt2", delete=False) as f:
        f.write(smt2_of(s))
        fn = f.name
    try:
        r = subprocess.run([CVC5, f"--tlimit={ms}", fn], capture_output=True, text=True, timeout=ms / 1000 + 10)
        first = (r.stdout.strip().split("\n") or [""])[0]
        return first, r.stdout[-400:] + r.stderr[-400:]
    except subprocess.TimeoutExpired:
        return "timeout", ""
    finally:
        os.unlink(fn)


def cvc5_refute(ob: Obligation, ms: int = 20000):
    """Finite model finding on the same VC: `sat` is a definite model of pre & path & not goal."""
    s = z3.Solver()
    s.add(base_axioms())
    s.add(ob.hyps)
    s.add(z3.Not(ob.goal))
    with tempfile.NamedTemporaryFile("w", suffix=".smt2", delete=False) as f:
        f.write("(set-logic ALL)\n(set-option :produce-models true)\n" + s.to_smt2() + "(get-model)\n")
        fn = f.name
    try:
        r = subprocess.run([CVC5, "--finite-model-find", "--fmf-bound", f"--tlimit={ms}", fn], capture_output=True, text=True, timeout=ms / 1000 + 10)
        first = (r.stdout.strip().split("\n") or [""])[0]
        return first, r.stdout[:6000]
    except subprocess.TimeoutExpired:
        return "timeout", ""
    finally:
        os.unlink(fn)
