"""Built-in contracts of list / dict objects on the heap (DESIGN §3.3) and comprehensions."""
from __future__ import annotations

import ast

import z3
from z3 import And, Exists, ForAll, If, Implies, Not, Or

from . import logic as L
from .values import SV, BoolV, ExcV, IntV, NoneV, Path, RefV, Unsupported


class ContainerMixin:
    # ------------------------------------------------------------------ allocation
    def new_list_fn(self, p: Path, length, item_fn) -> SV:
        """Allocate a fresh list object with the given length and content i -> item_fn(i).
        The object is a fresh constant that was not allocated so far, so nothing has been said
        about its content yet: the content is *assumed* on the current llen/litem symbols instead
        of introducing new heap versions (keeps the terms of pre-existing lists stable)."""
        h = p.heap
        l = L.fresh("lst", L.LRef)
        p.assume(l != L.LNONE, Not(h.lalloc(l)))
        h1, ax1 = h.define("lalloc", lambda old, x: Or(x == l, old(x)))
        p.heap = h1
        i = L.fresh("i", L.I)
        p.assume(ax1, length >= 0, h1.llen(l) == length, ForAll([i], Implies(And(0 <= i, i < length), h1.litem(l, i) == item_fn(i)), patterns=[h1.litem(l, i)]))
        return SV("lref", l)

    def new_list(self, p: Path, items: list) -> SV:
        def item_fn(i):
            r = L.NONE
            for k in range(len(items) - 1, -1, -1):
                r = If(i == k, items[k], r)
            return r

        return self.new_list_fn(p, z3.IntVal(len(items)), item_fn)

    def new_dict(self, p: Path, values="val") -> SV:
        h = p.heap
        d = L.fresh("dct", L.DRef)
        p.assume(d != L.DNONE, Not(h.dalloc(d)))
        h1, a1 = h.define("dalloc", lambda old, x: Or(x == d, old(x)))
        h2, a2 = h1.define("ddom", lambda old, x, k: If(x == d, False, old(x, k)))
        h3, a3 = h2.define("dcard", lambda old, x: If(x == d, 0, old(x)))
        p.heap = h3
        p.assume(a1, a2, a3)
        return SV("dref", d, extra=values)

    # ------------------------------------------------------------------ list methods
    def list_method(self, lst: SV, name: str, args: list, kwargs: dict, p: Path, R, node):
        line = node.lineno
        l = lst.z
        self.oblige(p, f"L{line}/list-method-on-None:{name}", l != L.LNONE, kind="safety")
        p.assume(l != L.LNONE)
        h = p.heap
        n = h.llen(l)
        if name == "append":
            if args[0].tag in ("ref", "none"):
                x = self.to_sort(args[0], L.Ref)
            else:
                # a list of non-node values (dicts, strings): only its length is tracked; the element
                # is an opaque object that is never dereferenced as a node (ASSUMED, scanned as 'opaque element')
                x = L.fresh("opaque_elem", L.Ref)
            h1, a1 = h.define("litem", lambda old, y, i: If(And(y == l, i == n), x, old(y, i)))
            h2, a2 = h1.define("llen", lambda old, y: If(y == l, n + 1, old(y)))
            p.heap = h2
            p.assume(a1, a2)
            return [(p, NoneV)]
        if name == "insert":
            iz = self.to_sort(args[0], L.I)
            x = self.to_sort(args[1], L.Ref)
            idx0 = If(iz < 0, iz + n, iz)
            idx = If(idx0 < 0, 0, If(idx0 > n, n, idx0))  # Python clamps
            k = L.fresh("ins", L.I)
            p.assume(k == idx)
            h1, a1 = h.define("litem", lambda old, y, i: If(y == l, If(i < k, old(y, i), If(i == k, x, old(y, i - 1))), old(y, i)))
            h2, a2 = h1.define("llen", lambda old, y: If(y == l, n + 1, old(y)))
            p.heap = h2
            p.assume(a1, a2)
            return [(p, NoneV)]
        if name in ("index", "remove"):
            x = args[0]
            if x.tag != "ref":
                raise Unsupported("list.index of non-node")
            eqf = lambda i: Or(h.litem(l, i) == x.z, L.v_eq(h._data(h.litem(l, i)), h._data(x.z)))  # noqa: E731  is-or-==
            r = L.fresh("idx", L.I)
            j = L.fresh("j", L.I)
            found = And(0 <= r, r < n, eqf(r), ForAll([j], Implies(And(0 <= j, j < r), Not(eqf(j))), patterns=[h.litem(l, j)]))
            bad = p.fork()
            j2 = L.fresh("j", L.I)
            bad.assume(ForAll([j2], Implies(And(0 <= j2, j2 < n), Not(eqf(j2))), patterns=[h.litem(l, j2)]))
            R.append((bad, ExcV("ValueError", site=f"L{line}")))
            p.assume(found)
            if name == "index":
                return [(p, IntV(r))]
            return self.list_delete_at(lst, r, p)
        if name == "pop":
            if args:
                iz = self.to_sort(args[0], L.I)
                idx = If(iz < 0, iz + n, iz)
            else:
                idx = n - 1
            ok = And(0 <= idx, idx < n)
            bad = p.fork()
            bad.assume(Not(ok))
            R.append((bad, ExcV("IndexError", site=f"L{line}")))
            p.assume(ok)
            k = L.fresh("pop", L.I)
            p.assume(k == idx)
            val = RefV(h.litem(l, k), "Node")
            self.list_delete_at(lst, k, p)
            return [(p, val)]
        if name == "reverse":
            h1, a1 = h.define("litem", lambda old, y, i: If(And(y == l, 0 <= i, i < n), old(y, n - 1 - i), old(y, i)))
            p.heap = h1
            p.assume(a1)
            return [(p, NoneV)]
        if name == "extend":
            o = args[0]
            if o.tag != "lref":
                raise Unsupported("extend with non-list")
            self.oblige(p, f"L{line}/extend-with-None", o.z != L.LNONE, kind="safety")
            m = h.llen(o.z)
            src = o.z
            h1, a1 = h.define("litem", lambda old, y, i: If(And(y == l, n <= i, i < n + m), old(src, i - n), old(y, i)))
            h2, a2 = h1.define("llen", lambda old, y: If(y == l, n + m, old(y)))
            p.heap = h2
            p.assume(a1, a2)
            return [(p, NoneV)]
        if name == "copy":
            return [(p, self.new_list_fn(p, n, lambda i: h.litem(l, i)))]
        if name == "sort":
            return self.list_sort(lst, kwargs, p, R, node)
        raise Unsupported(f"list.{name}")

    def list_delete_at(self, lst: SV, k, p: Path):
        h = p.heap
        l = lst.z
        n = h.llen(l)
        h1, a1 = h.define("litem", lambda old, y, i: If(And(y == l, i >= k), old(y, i + 1), old(y, i)))
        h2, a2 = h1.define("llen", lambda old, y: If(y == l, n - 1, old(y)))
        p.heap = h2
        p.assume(a1, a2)
        return [(p, NoneV)]

    def list_sort(self, lst, kwargs, p, R, node):
        """Assumed contract of list.sort: the list afterwards is a permutation of the list
        before (witnessed by a bijection perm); ordering by key is not interpreted."""
        h = p.heap
        l = lst.z
        n = h.llen(l)
        perm = z3.Function(f"perm!{L.fresh_id()}", L.I, L.I)
        inv = z3.Function(f"perminv!{L.fresh_id()}", L.I, L.I)
        i = L.fresh("i", L.I)
        p.assume(ForAll([i], Implies(And(0 <= i, i < n), And(0 <= perm(i), perm(i) < n, inv(perm(i)) == i)), patterns=[perm(i)]))
        p.assume(ForAll([i], Implies(And(0 <= i, i < n), And(0 <= inv(i), inv(i) < n, perm(inv(i)) == i)), patterns=[inv(i)]))
        h1, a1 = h.define("litem", lambda old, y, j: If(And(y == l, 0 <= j, j < n), old(y, perm(j)), old(y, j)))
        p.heap = h1
        p.assume(a1)
        if "pos" in (self.contract.modifies_ or ()):
            # ghost code attached to the builtin: the ghost position of every node that sat in the sorted list follows the
            # permutation (pos is specification-only state; a contract's ghost_exit may still redefine it at the exit)
            h2, a2 = h1.define("pos", lambda old, o: If(And(l != L.LNONE, h._children(h._parent(o)) == l, 0 <= old(o), old(o) < n, h.litem(l, old(o)) == o), inv(old(o)), old(o)))
            p.heap = h2
            p.assume(a2)
        p.ghost.setdefault("perms", []).append((l, perm, inv))
        # a user key callback may raise (C13): the list is then still *some* permutation
        if "key" in kwargs and kwargs["key"].tag != "none":
            bad = p.fork()
            R.append((bad, ExcV("UserError", site=f"L{node.lineno}/key")))
        return [(p, NoneV)]

    # ------------------------------------------------------------------ dict operations
    def dict_set(self, p: Path, d, k: SV, v: SV):
        h = p.heap
        kz = self.to_sort(k, L.Val)
        was = h.ddom(d, kz)
        h1, a1 = h.define("ddom", lambda old, x, kk: If(And(x == d, kk == kz), True, old(x, kk)))
        h2, a2 = h1.define("dcard", lambda old, x: If(x == d, old(x) + If(was, 0, 1), old(x)))
        hs, ax = h2, a1 + a2
        if v.tag in ("ref",):
            hs, a3 = hs.define("dref", lambda old, x, kk: If(And(x == d, kk == kz), v.z, old(x, kk)))
        elif v.tag == "lref":
            hs, a3 = hs.define("dlst", lambda old, x, kk: If(And(x == d, kk == kz), v.z, old(x, kk)))
        else:
            vz = self.to_sort(v, L.Val)
            hs, a3 = hs.define("dval", lambda old, x, kk: If(And(x == d, kk == kz), vz, old(x, kk)))
        p.heap = hs
        p.assume(ax, a3)

    def dict_del(self, p: Path, d, kz):
        h = p.heap
        h1, a1 = h.define("ddom", lambda old, x, kk: If(And(x == d, kk == kz), False, old(x, kk)))
        h2, a2 = h1.define("dcard", lambda old, x: If(x == d, old(x) - 1, old(x)))
        p.heap = h2
        p.assume(a1, a2)

    def dict_method(self, dv: SV, name: str, args, kwargs, p: Path, R, node):
        d = dv.z
        h = p.heap
        line = node.lineno
        self.oblige(p, f"L{line}/dict-method-on-None:{name}", d != L.DNONE, kind="safety")
        p.assume(d != L.DNONE)
        if name == "get":
            kz = self.to_sort(args[0], L.Val)
            default = args[1] if len(args) > 1 else NoneV
            a, b = p.fork(), p.fork()
            a.assume(h.ddom(d, kz))
            b.assume(Not(h.ddom(d, kz)))
            return [(a, self.dict_value(a, dv, kz)), (b, default)]
        if name == "pop":
            kz = self.to_sort(args[0], L.Val)
            a, b = p.fork(), p.fork()
            a.assume(h.ddom(d, kz))
            b.assume(Not(h.ddom(d, kz)))
            val = self.dict_value(a, dv, kz)
            self.dict_del(a, d, kz)
            outs = [(a, val)]
            if len(args) > 1:
                outs.append((b, args[1]))
            else:
                R.append((b, ExcV("KeyError", site=f"L{line}")))
            return outs
        if name == "copy":
            nd = self.new_dict(p, dv.extra)
            nz = nd.z
            hh = p.heap
            h1, a1 = hh.define("ddom", lambda old, x, k: If(x == nz, old(d, k), old(x, k)))
            h2, a2 = h1.define("dval", lambda old, x, k: If(x == nz, old(d, k), old(x, k)))
            h3, a3 = h2.define("dcard", lambda old, x: If(x == nz, old(d), old(x)))
            p.heap = h3
            p.assume(a1, a2, a3)
            return [(p, nd)]
        if name == "update":
            o = args[0]
            if o.tag != "dref":
                raise Unsupported("dict.update with non-dict")
            oz = o.z
            h1, a1 = h.define("ddom", lambda old, x, k: If(x == d, Or(old(d, k), old(oz, k)), old(x, k)))
            h2, a2 = h1.define("dval", lambda old, x, k: If(And(x == d, h.ddom(oz, k)), old(oz, k), old(x, k)))
            h3 = h2.havoc(["dcard"])
            p.heap = h3
            x = L.fresh("x", L.DRef)
            p.assume(a1, a2, ForAll([x], Implies(x != d, h3.dcard(x) == h.dcard(x)), patterns=[h3.dcard(x)]), h3.dcard(d) >= h.dcard(d), h3.dcard(d) >= h.dcard(oz), h3.dcard(d) <= h.dcard(d) + h.dcard(oz))
            return [(p, NoneV)]
        raise Unsupported(f"dict.{name}")

    # ------------------------------------------------------------------ comprehensions
    def comprehension(self, e, p: Path, R):
        """[elt for x in xs if cond]  with elt == x : the order-preserving filter of xs.
        Characterised by a strictly increasing embedding emb of the result into the source."""
        if len(e.generators) != 1:
            raise Unsupported("nested comprehension")
        g = e.generators[0]
        if not (isinstance(g.target, ast.Name) and isinstance(e.elt, ast.Name) and e.elt.id == g.target.id):
            raise Unsupported("comprehension with a mapping element")
        outs = []
        for q, src in self.ev(g.iter, p, R):
            if not g.ifs and src.tag in ("gen", "pseq", "lref"):
                # [x for x in xs]: a fresh list with the same elements in the same order
                if src.tag == "lref":
                    self.oblige(q, f"L{e.lineno}/iterate-None", src.z != L.LNONE, kind="safety")
                    q.assume(src.z != L.LNONE)
                    hq, sz = q.heap, src.z
                    outs.append((q, self.new_list_fn(q, hq.llen(sz), lambda i: hq.litem(sz, i))))
                else:
                    sz = src.z
                    outs.append((q, self.new_list_fn(q, L.Len(sz), lambda i: L.At(sz, i))))
                continue
            if src.tag in ("gen", "pseq"):  # the yielded sequence of a contracted generator
                outs.append((q, self.filter_list(q, src, g.target.id, g.ifs, R, e.lineno)))
                continue
            if src.tag != "lref":
                raise Unsupported(f"comprehension over {src.tag}")
            self.oblige(q, f"L{e.lineno}/iterate-None", src.z != L.LNONE, kind="safety")
            q.assume(src.z != L.LNONE)
            outs.append((q, self.filter_list(q, src, g.target.id, g.ifs, R, e.lineno)))
        return outs

    def filter_list(self, p: Path, src: SV, var: str, conds: list, R, line) -> SV:
        h = p.heap
        s = src.z
        if src.tag == "lref":
            n = h.llen(s)
            item = lambda k: h.litem(s, k)  # noqa: E731
        else:
            n = L.Len(s)
            item = lambda k: L.At(s, k)  # noqa: E731

        def phi(x):
            q = p.fork()
            q.env[var] = RefV(x, "Node")
            q.assume(x != L.NONE)
            acc = z3.BoolVal(True)
            saved_pb, saved_ob = getattr(self, "pure_bool", False), len(self.obligations)
            self.pure_bool = True
            try:
                for c in conds:
                    RR: list = []
                    outs = self.ev(c, q, RR)
                    if len(outs) != 1 or RR:
                        raise Unsupported("comprehension condition forks or may raise")
                    acc = And(acc, self.truthy(outs[0][1], outs[0][0]))
            finally:
                self.pure_bool = saved_pb
            # safety obligations of the condition are generated once, on a universally quantified element
            if getattr(self, "_phi_seen", None) == id(conds):
                del self.obligations[saved_ob:]
            self._phi_seen = id(conds)
            return acc

        res = L.fresh("flt", L.LRef)
        emb = z3.Function(f"emb!{L.fresh_id()}", L.I, L.I)
        inv = z3.Function(f"embinv!{L.fresh_id()}", L.I, L.I)
        p.assume(res != L.LNONE, Not(h.lalloc(res)))
        h1, a1 = h.define("lalloc", lambda old, x: Or(x == res, old(x)))
        h2 = h1.havoc(["llen", "litem"])
        l = L.fresh("l", L.LRef)
        i, j = L.fresh("i", L.I), L.fresh("j", L.I)
        p.heap = h2
        p.assume(
            a1,
            ForAll([l], Implies(l != res, h2.llen(l) == h.llen(l)), patterns=[h2.llen(l)]),
            ForAll([l, i], Implies(l != res, h2.litem(l, i) == h.litem(l, i)), patterns=[h2.litem(l, i)]),
            h2.llen(res) >= 0, h2.llen(res) <= n,
            ForAll([i], Implies(And(0 <= i, i < h2.llen(res)), And(0 <= emb(i), emb(i) < n, h2.litem(res, i) == item(emb(i)), phi(item(emb(i))), inv(emb(i)) == i)), patterns=[h2.litem(res, i), emb(i)]),
            ForAll([i, j], Implies(And(0 <= i, i < j, j < h2.llen(res)), emb(i) < emb(j)), patterns=[z3.MultiPattern(emb(i), emb(j))]),
        )
        p.assume(ForAll([j], Implies(And(0 <= j, j < n, phi(item(j))), And(0 <= inv(j), inv(j) < h2.llen(res), emb(inv(j)) == j, h2.litem(res, inv(j)) == item(j))), patterns=[item(j), inv(j)]))
        p.ghost.setdefault("filters", []).append((res, s, emb, inv))
        return SV("lref", res, extra={"filter_of": s, "emb": emb, "inv": inv})
