"""Driver of the run-time contract cross-check (see rtcheck.py).

    python3-vt -m pyvc.rtdrive [--src DIR] [--prop Cxx | --func QUAL-substring] [--budget N] [--json FILE] [-v]

For every contract (proved or assumed) whose parameters can be instantiated concretely, the real
function is called on small trees built through the public API; `requires`, `ensures`, `raises`
(when / ensures-on) and the ghost-exit definitions are evaluated on the two snapshots.
"""
from __future__ import annotations

import inspect
import itertools
import json
import os
import random
import sys
import time
import traceback

import z3

from . import logic as L
from . import rtcheck
from .calls import Args, Ctx
from .contract import REGISTRY
from .values import SV, BoolV, IntV, NoneV, Path, RefV, exc_isa

VERIF = os.path.dirname(os.path.dirname(os.path.abspath(__file__)))


def trees_for(family: str, tier: str):
    """small real trees: every forest <= 3 nodes over {a,b} (clones incl.), some 4-node ones, equal data under distinct ids"""
    sys.path.insert(0, VERIF) if VERIF not in sys.path else None
    from native import gen

    out = []
    if family == "typed":
        out += list(gen.typed_specs(2))
        out += [s for k, s in enumerate(gen.typed_specs(3, min_n=3, kinds=("k1", "k2"))) if k % 7 == 0]
    else:
        out += list(gen.plain_specs(3, alphabet=("a", "b")))
        out += [s for k, s in enumerate(gen.plain_specs(4, min_n=4, alphabet=("a", "b"))) if k % 11 == 0]
        out += list(gen.eqpair_specs(3))
        out += [s for k, s in enumerate(gen.explicit_id_specs(3)) if k % 3 == 0]
        # the same trees created level by level with prepended siblings: registration order of the index != pre-order
        out += [gen.Spec(s.nodes, flavour="str~rev") for k, s in enumerate(gen.plain_specs(4, min_n=3, alphabet=("a", "b"))) if k % 5 == 2]
        # trees with a calc_data_id callback (identity-hashed objects keyed by .key): exercises the callback oracle
        out += [gen.Spec(s.nodes, flavour="keyed") for k, s in enumerate(gen.plain_specs(3, alphabet=("a", "b"))) if k % 4 == 1]
    if tier == "quick":
        out = [s for k, s in enumerate(out) if len(s) <= 2 or k % 3 == 0]
    return out


class Case:
    __slots__ = ("qual", "family", "spec", "tags", "argdesc")


def real_callable(qual: str, family: str):
    """(class, attribute name, kind) of the real function: method | property"""
    import importlib

    parts = qual.split(".")
    mod = importlib.import_module(".".join(parts[:2]))
    if len(parts) == 3:
        return None, getattr(mod, parts[2]), "function"
    cls = getattr(mod, parts[2])
    attr = inspect.getattr_static(cls, parts[3])
    if isinstance(attr, property):
        return cls, attr.fget, "property"
    if isinstance(attr, (staticmethod, classmethod)):
        return cls, attr.__func__, "static"
    return cls, attr, "method"


def pools(tag: str, tree, nodes, other_tree, rng):
    from nutree.typed_tree import ANY_KIND

    root = tree._root
    if tag == "node":
        return list(nodes) + [root] + list(other_tree._root._children or [])[:1]
    if tag == "node?":
        return list(nodes) + [root, None]
    if tag == "tree":
        return [tree]
    if tag == "othertree":
        return [other_tree, tree]
    if tag == "none":
        return [None]
    if tag == "true":
        return [True]
    if tag == "false":
        return [False]
    if tag == "bool":
        return [False, True]
    if tag == "int":
        return [-1, 0, 1, 2, 5]
    if tag in ("val", "data"):
        return ["a", "b", "zz", 7, ("t", 1)]
    if tag == "id":
        return ["a", "idX", 5, 0, hash("a"), hash("b")]
    if tag == "kind":
        return ["k1", "k2", "".join(["k", "1"]), "kx"]
    if tag == "anykind":
        return [ANY_KIND]
    if tag == "lref":
        ls = [n._children for n in [root] + list(nodes) if n._children is not None]
        ls += list(tree._nodes_by_data_id.values())
        return ls + [[]]
    if tag == "dref":
        return [{}, {"k": 1}] + [n._meta for n in nodes if n._meta is not None]
    raise rtcheck.NotEvaluable(f"no concrete pool for parameter tag {tag}")


def sv_for(name, tag, value):
    """(SV, const-name -> value) for a concrete argument under the static tag the contract variant assumes"""
    if tag in ("node", "node?"):
        if value is None:
            return NoneV, {}
        return RefV(z3.Const(name, L.Ref), "Node"), {name: value}
    if tag in ("tree", "othertree"):
        return RefV(z3.Const(name, L.Ref), "Tree"), {name: value}
    if tag == "none":
        return NoneV, {}
    if tag in ("true", "false"):
        return BoolV(tag == "true"), {}
    if tag == "bool":
        return BoolV(z3.Const(name, L.B)), {name: value}
    if tag == "int":
        return IntV(z3.Const(name, L.I)), {name: value}
    if tag in ("val", "data", "kind", "id", "cb"):
        return SV("val", z3.Const(name, L.Val)), {name: value}
    if tag == "anykind":
        return SV("val", L.ANY_KIND), {}
    if tag == "lref":
        return SV("lref", z3.Const(name, L.LRef)), {name: value}
    if tag == "dref":
        return SV("dref", z3.Const(name, L.DRef)), {name: value}
    if tag.startswith("enum:"):
        return SV("enum", tag[5:]), {}
    if tag.startswith("str:"):
        return SV("str", tag[4:]), {}
    if tag.startswith("cls:"):
        return SV("cls", tag[4:]), {}
    raise rtcheck.NotEvaluable(f"parameter tag {tag}")


def result_sv(value, c):
    from nutree.node import Node
    from nutree.tree import Tree

    name = "result!rt"
    if value is None:
        return NoneV, {}
    if isinstance(value, Node):
        return RefV(z3.Const(name, L.Ref), "Node"), {name: value}
    if isinstance(value, Tree):
        return RefV(z3.Const(name, L.Ref), "Tree"), {name: value}
    if isinstance(value, list):
        return SV("lref", z3.Const(name, L.LRef)), {name: value}
    if isinstance(value, dict):
        return SV("dref", z3.Const(name, L.DRef)), {name: value}
    if isinstance(value, tuple) and (c.is_generator or c.result_tag == "pseq"):
        return SV("gen", z3.Const(name, L.PSeq)), {name: value}
    if isinstance(value, bool):
        return BoolV(bool(value)), {}
    if isinstance(value, int) and c.result_tag in ("int",):
        return IntV(int(value)), {}
    return SV("val", z3.Const(name, L.Val)), {name: value}


def changed_components(s0, s1) -> set:
    from nutree.node import Node
    from nutree.tree import Tree

    out = set()
    for comp, d0 in s0.field.items():
        d1 = s1.field[comp]
        if any(oid in d1 and d1[oid] is not v and not rtcheck.val_eq(d1[oid], v) for oid, v in d0.items()) or any(oid not in d0 and v is not None for oid, v in d1.items()):
            out.add(comp)
    if set(s1.objs) - set(s0.objs):
        out.add("alloc")
    if set(s1.lobjs) - set(s0.lobjs):
        out |= {"lalloc", "llen", "litem"}
    if set(s1.dobjs) - set(s0.dobjs):
        out |= {"dalloc", "ddom", "dcard", "dref", "dlst", "dval"}
    for lid, c0 in s0.lists.items():
        c1 = s1.lists.get(lid)
        if c1 is not None and tuple(map(id, c1)) != tuple(map(id, c0)):
            out.add("litem")
            if len(c1) != len(c0):
                out.add("llen")
    for did_, c0 in s0.dicts.items():
        c1 = s1.dicts.get(did_)
        if c1 is None:
            continue
        if set(map(_vkey, c1.keys())) != set(map(_vkey, c0.keys())):
            out |= {"ddom", "dcard"}
        for k, v in c0.items():
            if k in c1 and c1[k] is not v and not rtcheck.val_eq(c1[k], v):
                out.add("dref" if isinstance(v, (Node, Tree)) or isinstance(c1[k], (Node, Tree)) else "dlst" if isinstance(v, list) or isinstance(c1[k], list) else "dval")
        for k, v in c1.items():
            if k not in c0:
                out.add("dref" if isinstance(v, (Node, Tree)) else "dlst" if isinstance(v, list) else "dval")
    for g in ("pos", "rank", "cpos"):
        a, b = getattr(s0, g), getattr(s1, g)
        if any(b.get(k, 0) != v for k, v in a.items()) or any(k not in a for k in b):
            out.add(g)
    return out


def changed_existing(s0, s1) -> set:
    """components that differ on objects / lists / dicts / keys that existed at entry"""
    from nutree.node import Node
    from nutree.tree import Tree

    out = set()
    for comp, d0 in s0.field.items():
        d1 = s1.field[comp]
        if any(oid in d1 and d1[oid] is not v and not rtcheck.val_eq(d1[oid], v) for oid, v in d0.items()):
            out.add(comp)
    for lid, c0 in s0.lists.items():
        c1 = s1.lists.get(lid)
        if c1 is not None and tuple(map(id, c1)) != tuple(map(id, c0)):
            out.add("litem")
            if len(c1) != len(c0):
                out.add("llen")
    for did_, c0 in s0.dicts.items():
        c1 = s1.dicts.get(did_)
        if c1 is None:
            continue
        if set(map(_vkey, c1.keys())) != set(map(_vkey, c0.keys())):
            out |= {"ddom", "dcard"}
        for k, v in c0.items():
            if k in c1 and c1[k] is not v and not rtcheck.val_eq(c1[k], v):
                out.add("dref" if isinstance(v, (Node, Tree)) else "dlst" if isinstance(v, list) else "dval")
    return out


def _vkey(k):
    return (type(k).__name__ if not isinstance(k, (int, str)) else "k", k if isinstance(k, (int, str)) else id(k))


PREDICATES = {
    "a": lambda node: str(node.data) in ("a", "Keyed<key_a>"), "all": lambda node: True, "never": lambda node: None,
    "len1": lambda node: len(node.children) == 1,
}
EVAL = rtcheck.Evaluator()


class FakeEx:
    """what contract clauses may ask of the executor"""

    def __init__(self, family, src=None):
        self.family = family
        self.src = src


def base_consts():
    from nutree.typed_tree import ANY_KIND
    from .exprs import STR_CONSTS

    return {"NONE": None, "LNONE": None, "DNONE": None, "VNONE": None, "ANY_KIND": ANY_KIND, "ROOT_DATA_ID": "__root__", "DELETED_TAG": "<deleted>", "V_TRUE": True, "V_FALSE": False, "Empty": (),
            **{c.decl().name(): lit for lit, c in STR_CONSTS.items()}}


def describe(v):
    from nutree.node import Node
    from nutree.tree import Tree

    if isinstance(v, Node):
        path = []
        n = v
        while n is not None and n._parent is not None:
            try:
                path.append(next(i for i, c in enumerate(n._parent._children or ()) if c is n))
            except StopIteration:
                path.append("?")
            n = n._parent
        return "node@" + "/".join(map(str, reversed(path))) if path else ("root" if v._parent is None and v._tree is not None else "detached-node")
    if isinstance(v, Tree):
        return f"tree<{v.name}>"
    if isinstance(v, list):
        return f"list(len {len(v)})"
    return repr(v)[:40]


def run_case(qual, c, family, spec, tags: dict, args: dict, ev_budget=None):
    """returns (status, [failures], n_clauses) ; status in ok | pre-rejected | not-evaluable"""
    from native import gen

    base_flavour, _, order = spec.flavour.partition("~")
    mk = gen.make_data_factory(base_flavour)
    tree, nodes = gen.build(spec, mk=mk, flavour=base_flavour, order=order or "pre")
    other, _ = gen.build(gen.Spec(((-1, "o", None, "k1" if spec.typed else None),), typed=spec.typed), name="O")
    # materialise the concrete arguments from their descriptions
    amap = {}
    for n, d in args.items():
        kind, val = d
        if kind == "node":
            amap[n] = nodes[val]
        elif kind == "root":
            amap[n] = tree._root
        elif kind == "othernode":
            amap[n] = other._root._children[0]
        elif kind == "fresh":
            nc = type(tree._root).__mro__[1] if False else (tree._node_factory if hasattr(tree, "_node_factory") else None)
            from nutree.node import Node
            from nutree.typed_tree import TypedNode
            amap[n] = object.__new__(TypedNode if spec.typed else Node)
        elif kind == "pred":
            amap[n] = PREDICATES[val]
        elif kind == "clsobj":
            import nutree.node, nutree.tree, nutree.typed_tree
            amap[n] = next(getattr(m, val) for m in (nutree.node, nutree.tree, nutree.typed_tree) if hasattr(m, val))
        elif kind == "keyed":
            amap[n] = mk(val)
        elif kind == "anykind":
            from nutree.typed_tree import ANY_KIND
            amap[n] = ANY_KIND
        elif kind == "iter":
            from nutree.common import IterMethod
            amap[n] = getattr(IterMethod, val)
        elif kind == "tree":
            amap[n] = tree
        elif kind == "othertree":
            amap[n] = other
        elif kind == "childlist":
            amap[n] = (tree._root if val == -1 else nodes[val])._children
        elif kind == "clonelist":
            amap[n] = list(tree._nodes_by_data_id.values())[val]
        else:
            amap[n] = dict(val) if isinstance(val, dict) else list(val) if isinstance(val, list) else val
    keep = []
    roots = [tree, other] + [v for v in amap.values()]
    s0 = rtcheck.Snapshot(roots, keep)
    cls, fn, how = real_callable(qual, family)
    exc = None
    result = None
    try:
        if how == "function":
            result = fn(**amap)
        elif how == "property":
            result = fn(amap["self"])
        else:
            kw = {k: v for k, v in amap.items() if k != "self"}
            result = fn(amap["self"], **kw) if how == "method" else fn(**kw)
        if c.is_generator or inspect.isgenerator(result):
            result = tuple(result)
    except RecursionError:
        raise
    except Exception as e:  # noqa: BLE001
        exc = e
    s1 = rtcheck.Snapshot(roots + [result] + list(s0.objs.values()) + list(s0.lobjs.values()) + list(s0.dobjs.values()), keep)
    max_len = max([len(v) for s in (s0, s1) for v in s.lists.values()] + [len(v) for s in (s0, s1) for v in s.dicts.values()] + [max(s1.rank.values(), default=0), max(s0.rank.values(), default=0), 1])
    if isinstance(result, tuple):
        max_len = max(max_len, len(result))
    h0 = L.Heap.initial("0")
    # the exit heap gets a new symbol exactly for the components that really differ between the two snapshots
    # (contract clauses may branch on "was this component written at all", as the prover's exit heaps do)
    h1 = h0.havoc(tuple(sorted(changed_components(s0, s1))), tag="rt1")
    svs, consts = {}, base_consts()
    for n, t in tags.items():
        sv, cs = sv_for(n, t, amap[n])
        svs[n] = sv
        consts.update(cs)
    a = Args(svs)
    ex = FakeEx(family)
    x0 = Ctx(ex, h0, h0, a, family=family)
    x0.p = None
    E = EVAL
    E.set_world({"0": s0, "rt1": s1}, consts, max_len)
    import contracts.vocab as V

    V.RT_EVAL = E
    # heap components outside `modifies` are read from the entry snapshot by construction; the frame is checked natively
    fails = []
    n_clauses = 0
    for rname, rfn in c.requires_:
        if not E.holds(rfn(x0)):
            return "pre-rejected", [], 0
    # component frame: nothing outside `modifies` changed on objects that existed at entry (fresh objects are free)
    n_clauses += 1
    extra = changed_existing(s0, s1) - set(c.modifies_) - set(L.GHOST)
    if extra:
        fails.append((f"frame: modifies only {sorted(c.modifies_)}", f"also changed on pre-existing objects: {sorted(extra)}"))
    if exc is None:
        rsv, rc = result_sv(result, c)
        E.consts.update(rc)
        x = Ctx(ex, h0, h1, a, res=rsv, family=family)
        x.p = None
        for r in c.raises_:
            if r.when is not None and r.must:
                n_clauses += 1
                if E.holds(r.when(x0)):
                    fails.append((f"must-raise {r.name}", "the call returned normally"))
        for en in c.ensures_:
            n_clauses += 1
            f = en.fn(x)
            if not E.holds(f):
                fails.append((f"ensures {en.name}", "; ".join(E.failing_conjuncts(f)[:3])))
        for comp, gfn in c.ghost_exit.items():
            n_clauses += 1
            o = L.fresh("o", L.Ref)
            f = z3.ForAll([o], z3.Implies(h1.mem(x.T, o), h1.f(comp)(o) == gfn(x, o)))
            if not E.holds(f):
                fails.append((f"ghost-exit {comp}", "the declared witness differs from the real structure"))
    else:
        name = type(exc).__name__
        name = {"_UserError": "UserError"}.get(name, name)
        x = Ctx(ex, h0, h1, a, family=family, exc=None)
        x.p = None
        cases = [r for r in c.raises_ if exc_isa(name, r.exc)]
        n_clauses += 1
        if not cases:
            fails.append(("no-unexpected-exception", f"raised {name}: {exc}"))
        else:
            ws = [(r, True if r.when is None else E.holds(r.when(x0))) for r in cases]
            if not any(w for _r, w in ws):
                fails.append(("raise-allowed", f"raised {name} ({exc}) outside the states in which the contract allows it"))
            for r, w in ws:
                if w and r.ensures is not None:
                    n_clauses += 1
                    f = r.ensures(x)
                    if not E.holds(f):
                        fails.append((f"ensures-on-{r.name}", "; ".join(E.failing_conjuncts(f)[:3])))
    return "ok", fails, n_clauses


def arg_descriptions(tag, spec, tree_nodes_n, clone_lists_n, rng, pname=""):
    """symbolic descriptions of concrete arguments (re-materialised on a fresh tree per case)"""
    from nutree.typed_tree import ANY_KIND

    if tag == "node":
        return [("node", i) for i in range(tree_nodes_n)] + [("root", None), ("othernode", None)]
    if tag == "node?":
        return [("node", i) for i in range(tree_nodes_n)] + [("root", None), ("lit", None)]
    if tag == "tree":
        return [("tree", None)]
    if tag == "othertree":
        return [("othertree", None), ("tree", None)]
    if tag == "none":
        return [("lit", None)]
    if tag == "true":
        return [("lit", True)]
    if tag == "false":
        return [("lit", False)]
    if tag == "bool":
        return [("lit", False), ("lit", True)]
    if tag == "int":
        return [("lit", v) for v in (-1, 0, 1, 2, 5)]
    if tag in ("val", "data"):
        if spec.flavour == "keyed":
            return [("keyed", "a"), ("keyed", "zz"), ("lit", "a")]
        return [("lit", v) for v in ("a", "b", "zz", 7)]
    if tag == "id":
        if spec.flavour == "keyed":
            return [("lit", v) for v in ("key_a", "key_b", "idX", 5)]
        return [("lit", v) for v in ("a", "idX", 5, 0, hash("a"), hash("b"), 1, 2)]
    if tag == "kind":
        return [("lit", v) for v in ("k1", "k2", "".join(["k", "1"]), "kx", "xk1y", "k")]
    if tag == "anykind":
        return [("anykind", None)]
    if tag == "cb":
        if pname == "match":  # predicate-style callbacks (pure functions of the node)
            return [("pred", "a"), ("pred", "all"), ("pred", "never"), ("pred", "len1")]
        raise rtcheck.NotEvaluable(f"no concrete pool for callback parameter {pname}")
    if tag == "lref":
        return [("childlist", i) for i in range(-1, tree_nodes_n)] + [("clonelist", i) for i in range(clone_lists_n)] + [("lit", [])]
    if tag == "dref":
        return [("lit", {}), ("lit", {"k": 1})]
    if tag.startswith("enum:"):
        from nutree.common import IterMethod
        from .exprs import ENUM_ITERMETHOD

        return [("iter", k) for k, v in ENUM_ITERMETHOD.items() if v == tag[5:]][:1]
    if tag.startswith("str:"):
        return [("lit", tag[4:])]
    if tag.startswith("cls:"):
        return [("clsobj", tag[4:])]
    raise rtcheck.NotEvaluable(f"no concrete pool for parameter tag {tag}")


def cases_for(qual, c, family, tier, rng, per_tree):
    from native import gen

    names = list(c.params)
    out = []
    is_init = qual.endswith(".__init__")
    for spec in trees_for(family, tier):
        tree, nodes = gen.build(spec, flavour=spec.flavour.partition("~")[0])
        n_nodes, n_cl = len(nodes), len(tree._nodes_by_data_id)
        combos = []
        for tagcombo in itertools.product(*[c.params[n] for n in names]):
            try:
                pools_ = [arg_descriptions(t, spec, n_nodes, n_cl, rng, pname=n) for n, t in zip(names, tagcombo)]
            except rtcheck.NotEvaluable:
                continue
            if is_init:
                pools_[names.index("self")] = [("fresh", None)]
            for vals in itertools.product(*pools_):
                ok = True
                for n, t, d in zip(names, tagcombo, vals):
                    if d[0] == "childlist":
                        holder = tree._root if d[1] == -1 else nodes[d[1]]
                        if holder._children is None:
                            ok = False
                if ok:
                    combos.append((dict(zip(names, tagcombo)), dict(zip(names, vals))))
        if len(combos) > per_tree:
            combos = rng.sample(combos, per_tree)
        out += [(spec, t, a) for t, a in combos]
    return out


def check_function(qual, tier="quick", per_tree=12, seed=0, verbose=False, max_fail=3):
    c = REGISTRY[qual]
    rng = random.Random(seed * 7919 + hash(qual) % 1000)
    rep = {"qual": qual, "cases": 0, "clauses": 0, "pre_rejected": 0, "not_evaluable": 0, "failures": [], "reasons": {}}
    for family in c.families:
        try:
            cases = cases_for(qual, c, family, tier, rng, per_tree)
        except Exception as e:  # noqa: BLE001
            rep["reasons"][f"{type(e).__name__}: {e}"[:120]] = 1
            continue
        for spec, tags, args in cases:
            try:
                st, fails, n = run_case(qual, c, family, spec, tags, args)
            except rtcheck.NotEvaluable as e:
                rep["not_evaluable"] += 1
                k = str(e)[:100]
                rep["reasons"][k] = rep["reasons"].get(k, 0) + 1
                continue
            except Exception as e:  # noqa: BLE001
                rep["not_evaluable"] += 1
                k = f"{type(e).__name__}: {e}"[:100] + " @ " + traceback.format_exc().strip().split("\n")[-3].strip()[:80]
                rep["reasons"][k] = rep["reasons"].get(k, 0) + 1
                continue
            if st == "pre-rejected":
                rep["pre_rejected"] += 1
                continue
            rep["cases"] += 1
            rep["clauses"] += n
            for clause, text in fails:
                if len(rep["failures"]) < max_fail or verbose:
                    rep["failures"].append({"qual": qual, "family": family, "spec": spec.short(), "spec_nodes": [list(r) for r in spec.nodes], "typed": spec.typed, "flavour": spec.flavour, "tags": tags,
                                            "args": {k: list(v) for k, v in args.items()}, "clause": clause, "text": text})
    return rep


def _one(a):
    qual, tier, per_tree, seed = a
    from .api import load_contracts

    load_contracts()
    t0 = time.time()
    r = check_function(qual, tier, per_tree, seed)
    r["wall_s"] = round(time.time() - t0, 2)
    return r


# contracts phrased over engine-internal state (callback event log, SV identity, ghost lock depth): not evaluable here;
# the callback adapters have their own run-time contract check in native/props/cbunit.py
NOT_EVALUABLE = {
    "nutree.common.call_mapper": "callback event log", "nutree.common.call_predicate": "callback event log", "nutree.common.call_traversal_cb": "callback event log",
    "nutree.tree.Tree.__enter__": "ghost lock depth", "nutree.tree.Tree.__exit__": "ghost lock depth",
    "nutree.typed_tree.TypedTree.__enter__": "ghost lock depth", "nutree.typed_tree.TypedTree.__exit__": "ghost lock depth",
}


def main(argv=None):
    import argparse
    import multiprocessing as mp

    ap = argparse.ArgumentParser()
    ap.add_argument("--src", default=os.environ.get("NUTREE_SRC", "/repo"))
    ap.add_argument("--prop")
    ap.add_argument("--func", action="append")
    ap.add_argument("--tier", default="quick")
    ap.add_argument("--per-tree", type=int, default=12)
    ap.add_argument("--json")
    ap.add_argument("-v", action="store_true")
    ap.add_argument("--replay", help="replay file written by check (kind rtcheck): re-run that one call and re-evaluate the clause")
    a = ap.parse_args(argv)
    sys.path.insert(0, a.src)
    sys.path.insert(0, VERIF)
    from .api import load_contracts

    reg = load_contracts()
    if a.replay:
        from native import gen

        w = json.load(open(a.replay))["witness"]
        spec = gen.Spec(tuple(tuple(r) for r in w["spec_nodes"]), typed=w["typed"], flavour=w.get("flavour", "str"))
        st, fails, _n = run_case(w["qual"], reg[w["qual"]], w["family"], spec, w["tags"], {k: tuple(v) for k, v in w["args"].items()})
        hit = [(c, t) for c, t in fails if c == w["clause"]] or fails
        for c, t in hit:
            print(f"REPLAY-VIOLATED function={w['qual']} clause={c}: {t[:300]}")
        if not hit:
            print(f"REPLAY-HOLDS function={w['qual']}: the stored call no longer violates the clause ({st})")
        return 1 if hit else 0
    # nested functions ('outer.<locals>.inner') cannot be called from outside: their contracts are used (and so cross-checked) through the outer function
    quals = [q for q, c in sorted(reg.items()) if not c.inline and not q.startswith("lemma.") and q not in NOT_EVALUABLE and ".<locals>." not in q]
    if a.prop:
        quals = [q for q in quals if a.prop in reg[q].props or any(a.prop in e.props for e in reg[q].ensures_)]
    if a.func:
        quals = [q for q in quals if any(f in q for f in a.func)]
    with mp.Pool(min(16, max(1, len(quals)))) as pool:
        reps = pool.map(_one, [(q, a.tier, a.per_tree, 0) for q in quals], chunksize=1)
    bad = 0
    for r in reps:
        flag = "FAIL" if r["failures"] else ("----" if r["cases"] == 0 else "ok  ")
        print(f"{flag} {r['qual']:<48} cases={r['cases']:<5} clauses={r['clauses']:<6} pre-rejected={r['pre_rejected']:<5} not-evaluable={r['not_evaluable']:<4} {r['wall_s']}s")
        if a.v or r["cases"] == 0:
            for k, n in list(r["reasons"].items())[:4]:
                print(f"        reason x{n}: {k}")
        for f in r["failures"][:3]:
            bad += 1
            print(f"     !! [{f['family']}] {f['spec']} args={f['args']} :: {f['clause']} :: {f['text'][:400]}")
    if a.json:
        json.dump(reps, open(a.json, "w"), indent=1, default=str)
    return 1 if bad else 0


if __name__ == "__main__":
    sys.exit(main())
