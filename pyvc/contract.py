"""Contract objects (DESIGN §3.1, Appendix A).  Contracts are *sidecar*: they live in
/verif/contracts/*.py, are keyed by the qualified name of the real function, and never
touch /repo.  A clause is a Python callable building a formula from a context object:

    x.h0   entry heap            x.h    current / exit heap
    x.a    argument terms (x.a.self, x.a.kind, ...) ; x.tag(name) gives the static tag
    x.res  result value (SV) on normal exit ; x.T  the tree of `self` in the entry heap
    x.v    local variables (loop invariants) ; x.k loop index of a `for` loop ; x.g ghost vars
"""
from __future__ import annotations

from dataclasses import dataclass, field
from typing import Callable, Optional

REGISTRY: dict[str, "Contract"] = {}


@dataclass
class Ensures:
    name: str
    fn: Callable
    props: tuple


@dataclass
class Raises:
    exc: str
    when: Optional[Callable]  # None => allowed but not demanded (may_raise)
    ensures: Optional[Callable]
    props: tuple
    name: str = ""
    must: bool = True


@dataclass
class Loop:
    invariant: Optional[Callable] = None
    ghost: dict = field(default_factory=dict)  # name -> (init(x), step(x))
    modifies: Optional[tuple] = None  # heap components written by the body (None: syntactic scan)
    decreases: Optional[Callable] = None
    exit_facts: list = field(default_factory=list)  # ghost asserts after the loop: each proved, then assumed


class Contract:
    def __init__(self, qual: str, props=()):
        self.qual = qual
        self.props = tuple(props)
        self.params: dict[str, tuple] = {}  # name -> alternatives of tags
        self.requires_: list[tuple[str, Callable]] = []
        self.ensures_: list[Ensures] = []
        self.raises_: list[Raises] = []
        self.loops: dict[int, Loop] = {}
        self.modifies_: tuple = ()
        #: nested functions (qual 'outer.<locals>.inner'): variables of the enclosing function the body reads ("in") or rebinds
        #: through `nonlocal` ("inout"): name -> (tag, mode).  Clauses see them as x.a.<name>__in and (inout) x.a.<name>__out
        self.captures: dict[str, tuple] = {}
        self.ghost_exit: dict[str, Callable] = {}  # ghost component -> fn(x, xs...) defining it in the exit heap
        self.ghost_exit_exc: dict[str, Callable] = {}
        self.families: tuple = ("plain", "typed")
        self.inline = False
        self.assumed = False  # contract of an external / out-of-reach function: used, never proved here
        self.assumed_reason = ""
        self.assumed_variants: Optional[Callable] = None  # fn(tags) -> True for parameter-type variants that are only assumed (not verified)
        self.assumed_variants_reason = ""
        self.reads_structure = False
        self.oracles: dict[str, dict] = {}
        self.lemmas: list[Callable] = []  # extra ghost facts (each is itself an obligation before being assumed)
        self.result_tag: Optional[str] = None
        self.result_alternatives: Optional[tuple] = None  # with result_tag "any": the kinds a result can have (forked at call sites)
        self.self_cls: Optional[str] = None  # static class of `self` ('Node' | 'Tree')
        self.is_generator = False
        self.must_fail: list[tuple[str, Callable]] = []
        self.call_hints: dict[int, Callable] = {}

    # ---- builder API
    def param(self, name, *alts):
        self.params[name] = tuple(alts)
        return self

    def requires(self, name, fn):
        self.requires_.append((name, fn))
        return self

    def ensures(self, name, fn, props=None):
        self.ensures_.append(Ensures(name, fn, tuple(props if props is not None else self.props)))
        return self

    def raises(self, exc, when, ensures=None, props=None, name=""):
        self.raises_.append(Raises(exc, when, ensures, tuple(props if props is not None else self.props), name or exc))
        return self

    def may_raise(self, exc, ensures=None, props=None, name="", when=None):
        """allowed, not demanded; `when` (optional) restricts the states in which it may happen"""
        self.raises_.append(Raises(exc, when, ensures, tuple(props if props is not None else self.props), name or exc, must=False))
        return self

    def modifies(self, *comps):
        self.modifies_ = tuple(comps)
        return self

    def pure(self):
        self.modifies_ = ()
        return self

    def loop(self, k) -> Loop:
        return self.loops.setdefault(k, Loop())

    def family(self, *f):
        self.families = tuple(f)
        return self


def contract(qual: str, props=()):
    def deco(fn):
        c = Contract(qual, props)
        fn(c)
        REGISTRY[qual] = c
        return c

    return deco
