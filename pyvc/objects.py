"""Object construction: exception instances, nodes/trees through the contract of __init__."""
from __future__ import annotations

import z3
from z3 import And, Not, Or

from . import logic as L
from .calls import EXC_CLASSES, NODE_CLASSES, TREE_CLASSES
from .contract import REGISTRY
from .values import SV, BoolV, ExcV, IntV, NoneV, Path, RefV, Unsupported


class ObjectMixin:
    def construct(self, cls: str, args, kwargs, p: Path, R, node):
        if cls in EXC_CLASSES or cls in ("Exception",):
            extra = {}
            if cls == "StopTraversal":
                extra["value"] = args[0] if args else kwargs.get("value", NoneV)
            if cls == "SkipBranch":
                extra["and_self"] = kwargs.get("and_self", NoneV)
            return [(p, SV("exc", cls, extra=extra))]
        if cls in NODE_CLASSES:
            return self.construct_node(cls, args, kwargs, p, R, node)
        if cls in TREE_CLASSES:
            return self.construct_tree(cls, args, kwargs, p, R, node)
        raise Unsupported(f"construction of {cls} (line {node.lineno})")

    def construct_dynamic(self, f: SV, args, kwargs, p: Path, R, node):
        """child.__class__(...) / self._tree.__class__(...): the dynamic class of a known
        object; with the closed class table and the tree family it is statically known."""
        if f.cls == "Tree":
            cls = {"plain": "Tree", "typed": "TypedTree"}[self.family]
            return self.construct_tree(cls, args, kwargs, p, R, node)
        cls = {"plain": "Node", "typed": "TypedNode"}[self.family]
        return self.construct_node(cls, args, kwargs, p, R, node)

    def construct_node(self, cls: str, args, kwargs, p: Path, R, node):
        """Allocate a fresh object of class cls, then apply the contract of cls.__init__."""
        defcls, fd = self.src.class_member(cls, "__init__")
        qual = self.src.qualname(defcls, fd)
        if qual not in REGISTRY:
            raise Unsupported(f"constructor {qual} has no contract")
        h = p.heap
        o = L.fresh("new", L.Ref)
        p.assume(o != L.NONE, Not(h.alloc(o)), L.cls_of(o) == L.CLS[cls])
        h1, ax = h.define("alloc", lambda old, x: Or(x == o, old(x)))
        p.heap = h1
        p.assume(ax)
        recv = RefV(o, "Node")
        outs = self.call_repo(qual, recv, args, kwargs, p, R, node)
        return [(q, recv) for q, _ in outs]

    def construct_tree(self, cls: str, args, kwargs, p: Path, R, node):
        defcls, fd = self.src.class_member(cls, "__init__")
        qual = self.src.qualname(defcls, fd)
        if qual not in REGISTRY:
            raise Unsupported(f"constructor {qual} has no contract")
        h = p.heap
        o = L.fresh("newtree", L.Ref)
        p.assume(o != L.NONE, Not(h.alloc(o)), L.cls_of(o) == L.CLS[cls])
        h1, ax = h.define("alloc", lambda old, x: Or(x == o, old(x)))
        p.heap = h1
        p.assume(ax)
        recv = RefV(o, "Tree")
        outs = self.call_repo(qual, recv, args, kwargs, p, R, node)
        return [(q, recv) for q, _ in outs]

    def consume_generator_to_list(self, g: SV, p: Path, R, node):
        """list(gen): a fresh list holding the generator's yielded sequence."""
        s = g.z
        return [(p, self.new_list_fn(p, L.Len(s), lambda i: L.At(s, i)))]
