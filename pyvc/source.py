"""Front end: read /repo's *current* source on every run, build the class table, resolve
methods through the MRO.  What extraction drops: docstrings, comments, annotations,
TYPE_CHECKING imports (DESIGN §3.4)."""
from __future__ import annotations

import ast
import hashlib
import os

MODULES = ["common", "node", "tree", "typed_tree", "diff", "dot", "mermaid", "rdf", "fs", "tree_generator"]

BASES = {
    "Node": [], "_SystemRootNode": ["Node"], "TypedNode": ["Node"], "_SystemRootTypedNode": ["TypedNode"],
    "Tree": [], "TypedTree": ["Tree"], "FileSystemTree": ["Tree"],
}


class Source:
    def __init__(self, root: str):
        self.root = root
        self.mods: dict[str, ast.Module] = {}
        self.text: dict[str, str] = {}
        for m in MODULES:
            p = os.path.join(root, "nutree", f"{m}.py")
            with open(p, encoding="utf8") as f:
                t = f.read()
            self.text[m] = t
            self.mods[m] = ast.parse(t, filename=p)
        # ghost lemmas: sidecar source, never part of /repo (DESIGN §3.2 'Ghost code')
        lp = os.path.join(os.path.dirname(os.path.dirname(os.path.abspath(__file__))), "contracts", "lemma_src.py")
        if os.path.exists(lp):
            t = open(lp, encoding="utf8").read()
            self.text["lemma"] = t
            self.mods["lemma"] = ast.parse(t, filename=lp)
        self.classes: dict[str, tuple[str, ast.ClassDef]] = {}
        self.functions: dict[str, tuple[str, ast.FunctionDef]] = {}
        for m, mod in self.mods.items():
            for st in mod.body:
                if isinstance(st, ast.ClassDef):
                    self.classes[st.name] = (m, st)
                elif isinstance(st, ast.FunctionDef):
                    self.functions[f"nutree.{m}.{st.name}"] = (m, st)
                    if m == "lemma":
                        self.functions[f"lemma.{st.name}"] = (m, st)

    # ------------------------------------------------------------
    def mro(self, cls: str) -> list[str]:
        out = [cls]
        for b in BASES.get(cls, []):
            out += self.mro(b)
        return out

    def class_member(self, cls: str, name: str):
        """Return (defining class, node) where node is a FunctionDef (method/property) or an
        ast.Assign alias (add = add_child)."""
        for c in self.mro(cls):
            if c not in self.classes:
                continue
            _, cd = self.classes[c]
            for st in cd.body:
                if isinstance(st, ast.FunctionDef) and st.name == name:
                    return c, st
                if isinstance(st, ast.Assign) and len(st.targets) == 1 and isinstance(st.targets[0], ast.Name) and st.targets[0].id == name and isinstance(st.value, ast.Name):
                    # alias:  add = add_child   (resolved in the class that declares the alias)
                    return self.class_member(c, st.value.id)
        return None, None

    def class_const(self, cls: str, name: str):
        """class-level constant:  ('str', value) for string constants, ('opaque', 'Class.NAME') otherwise."""
        for c in self.mro(cls):
            if c not in self.classes:
                continue
            for st in self.classes[c][1].body:
                tgt = None
                if isinstance(st, ast.Assign) and len(st.targets) == 1 and isinstance(st.targets[0], ast.Name):
                    tgt, val = st.targets[0].id, st.value
                elif isinstance(st, ast.AnnAssign) and isinstance(st.target, ast.Name) and st.value is not None:
                    tgt, val = st.target.id, st.value
                if tgt == name and not isinstance(val, ast.Name):
                    if isinstance(val, ast.Constant) and isinstance(val.value, str):
                        return ("str", val.value)
                    return ("opaque", f"{c}.{name}")
        return None

    def is_property(self, fd: ast.FunctionDef) -> bool:
        return any(isinstance(d, ast.Name) and d.id == "property" for d in fd.decorator_list)

    def is_classmethod(self, fd: ast.FunctionDef) -> bool:
        return any(isinstance(d, ast.Name) and d.id in ("classmethod", "staticmethod") for d in fd.decorator_list)

    def lookup(self, qual: str):
        """'nutree.node.Node.move_to' | 'nutree.common.call_predicate' -> (module, FunctionDef)."""
        if ".<locals>." in qual:
            # 'outer.<locals>.inner': a function defined in the body of `outer` (top level of the body, or nested there in turn)
            outer, inner = qual.rsplit(".<locals>.", 1)
            m, fd = self.lookup(outer)
            if fd is None:
                return None, None
            for st in fd.body:
                if isinstance(st, ast.FunctionDef) and st.name == inner:
                    return m, st
            return None, None
        parts = qual.split(".")
        if len(parts) == 2 and parts[0] == "lemma":
            return self.functions.get(qual, (None, None))
        if len(parts) == 3:
            return self.functions.get(qual, (None, None))
        if len(parts) == 4:
            _, m, c, f = parts
            if c in self.classes and self.classes[c][0] == m:
                for st in self.classes[c][1].body:
                    if isinstance(st, ast.FunctionDef) and st.name == f:
                        return m, st
        return None, None

    def qualname(self, cls: str, fd: ast.FunctionDef) -> str:
        m = self.classes[cls][0]
        return f"nutree.{m}.{cls}.{fd.name}"

    def fhash(self, fd: ast.FunctionDef) -> str:
        return hashlib.blake2b(ast.dump(strip_doc(fd)).encode(), digest_size=6).hexdigest()


def strip_doc(fd: ast.FunctionDef):
    body = fd.body
    if body and isinstance(body[0], ast.Expr) and isinstance(body[0].value, ast.Constant) and isinstance(body[0].value.value, str):
        body = body[1:]
    new = ast.FunctionDef(name=fd.name, args=fd.args, body=body or [ast.Pass()], decorator_list=[], returns=None, type_comment=None)
    return new


def stmt_text(st: ast.AST) -> str:
    try:
        return ast.unparse(st).split("\n")[0][:80]
    except Exception:  # noqa: BLE001
        return type(st).__name__
