"""Symbolic values, paths and outcomes of the symbolic executor."""
from __future__ import annotations

from dataclasses import dataclass, field
from typing import Any, Optional

import z3

from . import logic as L


class SV:
    """Tagged symbolic value.  tag in: none bool int ref lref dref val str tuple func cls
    pseq range method gen kw"""

    __slots__ = ("tag", "z", "cls", "extra")

    def __init__(self, tag, z=None, cls=None, extra=None):
        self.tag = tag
        self.z = z
        self.cls = cls  # static class family of a ref: 'Node' | 'Tree' | 'Lock' | None
        self.extra = extra

    def __repr__(self):
        return f"SV({self.tag},{self.z},{self.cls})"


NoneV = SV("none")


def BoolV(b):
    return SV("bool", z3.BoolVal(b) if isinstance(b, bool) else b)


def IntV(i):
    return SV("int", z3.IntVal(i) if isinstance(i, int) else i)


def RefV(z, cls=None):
    return SV("ref", z, cls)


class Unsupported(Exception):
    """Construct outside the supported subset -> the *function* is out of reach."""


class ExcV:
    def __init__(self, cls: str, value: Optional[SV] = None, site: str = ""):
        self.cls = cls
        self.value = value
        self.site = site

    def __repr__(self):
        return f"Exc<{self.cls}@{self.site}>"


EXC_BASES = {
    "BaseException": None, "Exception": "BaseException", "ValueError": "Exception", "KeyError": "LookupError", "IndexError": "LookupError", "LookupError": "Exception",
    "AttributeError": "Exception", "TypeError": "Exception", "AssertionError": "Exception", "RuntimeError": "Exception", "NotImplementedError": "RuntimeError",
    "TreeError": "RuntimeError", "UniqueConstraintError": "TreeError", "AmbiguousMatchError": "TreeError",
    "IterationControl": "Exception", "SkipBranch": "IterationControl", "SelectBranch": "IterationControl", "StopTraversal": "IterationControl",
    "StopIteration": "Exception", "UserError": "Exception", "UnboundLocalError": "Exception",
}


CALLBACK_EXCS = ("UserError", "SkipBranch", "SelectBranch", "StopTraversal", "StopIteration")


def exc_isa(cls: str, base: str) -> bool:
    if base == "Callback":  # what a user callback may raise: its own error or a control exception
        return cls in CALLBACK_EXCS
    c = cls
    while c is not None:
        if c == base:
            return True
        c = EXC_BASES.get(c)
    return False


class Path:
    def __init__(self, env=None, heap=None, conds=None, ghost=None):
        self.env: dict[str, SV] = dict(env or {})
        self.heap: L.Heap = heap
        self.conds: list = list(conds or [])
        self.ghost: dict[str, Any] = dict(ghost or {})
        self.labels: dict[str, L.Heap] = {}
        self.cond_ids: set = set()  # ids of the (flattened) conjuncts assumed on this path

    def fork(self) -> "Path":
        p = Path(self.env, self.heap, self.conds, self.ghost)
        p.labels = dict(self.labels)
        p.cond_ids = set(self.cond_ids)
        return p

    def assume(self, *fs):
        for f in fs:
            if f is None:
                continue
            if isinstance(f, (list, tuple)):
                self.assume(*f)
            else:
                self.conds.append(f)
                self._index(f)

    def _index(self, f, depth=0):
        if not z3.is_expr(f):
            return
        self.cond_ids.add(f.get_id())
        if z3.is_and(f) and depth < 6:
            for ch in f.children():
                self._index(ch, depth + 1)


@dataclass
class Outcome:
    kind: str  # next | return | raise | break | continue
    path: Path
    val: Any = None


@dataclass
class Obligation:
    name: str
    hyps: list
    goal: Any
    props: tuple = ()
    func: str = ""
    kind: str = "safety"  # safety | ensures | raises | inv | pre | frame | must_fail | cover
    status: str = "open"
    backend: str = ""
    time: float = 0.0
    reason: str = ""
