"""Calls: builtins, container methods, repo functions through their *contracts* (modular),
user callbacks as oracles."""
from __future__ import annotations

import ast

import z3
from z3 import And, ForAll, If, Implies, Not, Or

from . import logic as L
from .contract import REGISTRY, Contract
from .values import SV, BoolV, ExcV, IntV, NoneV, Obligation, Path, RefV, Unsupported, exc_isa

NODE_CLASSES = ("Node", "TypedNode", "_SystemRootNode", "_SystemRootTypedNode")
TREE_CLASSES = ("Tree", "TypedTree", "FileSystemTree")
EXC_CLASSES = ("ValueError", "KeyError", "AttributeError", "NotImplementedError", "UniqueConstraintError", "AmbiguousMatchError", "RuntimeError", "AssertionError", "TypeError", "IndexError", "SkipBranch", "StopTraversal", "SelectBranch", "StopIteration")


class Args:
    """Attribute access to the z3 terms / SVs of a call's arguments."""

    def __init__(self, svs: dict):
        self._sv = svs

    def __getattr__(self, k):
        try:
            v = self.__dict__["_sv"][k]
        except KeyError:
            raise AttributeError(k) from None
        if v.tag == "str":
            from .exprs import str_const

            return str_const(v.z)
        return v.z

    def sv(self, k) -> SV:
        return self._sv[k]

    def tag(self, k) -> str:
        return self._sv[k].tag

    def has(self, k):
        return k in self._sv


class Ctx:
    """What a contract clause sees (see contract.py)."""

    def __init__(self, ex, h0, h, a: Args, res=None, v=None, k=None, g=None, family="plain", exc=None, labels=None, T=None):
        self.ex, self.h0, self.h, self.a, self.res, self.v, self.k, self.g, self.family, self.exc = ex, h0, h, a, res, v, k, g or {}, family, exc
        self.labels = labels or {}
        self._T = T

    @property
    def T(self):
        if self._T is not None:
            return self._T
        s = self.a.sv("self") if self.a.has("self") else None
        if s is None:
            return None
        return s.z if s.cls == "Tree" else self.h0._tree(s.z)

    @property
    def r(self):
        return self.res.z if self.res is not None else None


class CallMixin:
    # ------------------------------------------------------------------ generic call
    def call(self, e: ast.Call, p: Path, R):
        if any(isinstance(a, ast.Starred) for a in e.args) or any(k.arg is None for k in e.keywords):
            raise Unsupported(f"*args/**kwargs forwarding (line {e.lineno})")
        out = []
        for q, f in self.ev(e.func, p, R):
            arg_es = list(e.args) + [k.value for k in e.keywords]
            for q2, vs in self.ev_seq(arg_es, q, R):
                args = vs[: len(e.args)]
                kwargs = {k.arg: v for k, v in zip(e.keywords, vs[len(e.args):])}
                out += self.apply(f, args, kwargs, q2, R, e)
        return out

    def apply(self, f: SV, args, kwargs, p: Path, R, node):
        if f.tag == "func":
            kind = f.z[0]
            if kind == "builtin":
                return self.builtin(f.z[1], args, kwargs, p, R, node)
            if kind == "repo":
                return self.call_repo(f.z[1], None, args, kwargs, p, R, node)
            if kind == "lambda":
                return self.call_lambda(f, args, p, R, node)
            if kind == "oracle":
                return self.call_oracle(f, args, p, R, node)
            if kind == "nested":
                return self.call_nested(f.z[1], args, kwargs, p, R, node)
        if f.tag == "method":
            recv, name = f.z
            if recv.tag == "lref":
                return self.list_method(recv, name, args, kwargs, p, R, node)
            if recv.tag == "dref":
                return self.dict_method(recv, name, args, kwargs, p, R, node)
            if recv.tag == "repo_method":
                pass
            if recv.tag in ("str", "val") and name in ("format", "join", "lower", "upper"):
                fz = z3.Function(f"str_{name}_{len(args)}", *([L.Val] * (len(args) + 1 + len(kwargs)) + [L.Val]))
                zs = [self.to_sort(recv, L.Val)]
                for a in list(args) + list(kwargs.values()):
                    zs.append(z3.Function("repr_of", L.Ref, L.Val)(a.z) if a.tag == "ref" else self.to_sort(a, L.Val) if a.tag in ("val", "str", "int", "bool", "none") else z3.Const("opaque_fmt_arg", L.Val))
                return [(p, SV("val", fz(*zs)))]
            if recv.tag in ("cls", "clsof"):
                return self.call_class_attr(recv, name, args, kwargs, p, R, node)
        if f.tag == "extfn":  # external module function: assumed to have no effect on the tree
            mod, name = f.z
            self.assumed_external.add(f"{mod}.{name}")
            if (mod, name) in (("warnings", "warn"),):
                return [(p, NoneV)]
            raise Unsupported(f"external function {mod}.{name} (line {node.lineno})")
        if f.tag == "bound":  # bound repo method
            recv, cls, fd_qual = f.z
            return self.call_repo(fd_qual, recv, args, kwargs, p, R, node)
        if f.tag == "cls":
            if f.z in ("int", "bool", "list", "str", "tuple", "dict"):
                return self.builtin(f.z, args, kwargs, p, R, node)
            return self.construct(f.z, args, kwargs, p, R, node)
        if f.tag == "clsof":
            return self.construct_dynamic(f, args, kwargs, p, R, node)
        if f.tag == "val" and f.extra and f.extra.get("factory"):
            # tree._node_factory: ASSUMED to be the default factory of the tree class (DESIGN §3.4)
            return self.construct_node({"plain": "Node", "typed": "TypedNode"}[self.family], args, kwargs, p, R, node)
        if f.tag == "val":  # opaque callable value (user callback held in a field/param)
            outs = []
            if f.extra and f.extra.get("maybe_exc"):
                # the value may be one of the control *classes*: calling it makes an instance
                for cn in L.CTRL:
                    q = p.fork()
                    q.assume(f.z == L.clsobj(cn))
                    outs.append((q, SV("exc", cn, extra={"value": NoneV, "and_self": NoneV})))
                p.assume(*[f.z != L.clsobj(cn) for cn in L.CTRL])
            return outs + self.call_oracle(SV("func", ("oracle", f.z, None)), args, p, R, node)
        raise Unsupported(f"call of {f.tag} (line {node.lineno})")

    # ------------------------------------------------------------------ builtins
    def builtin(self, name, args, kwargs, p: Path, R, node):
        line = node.lineno
        h = p.heap
        if name == "len":
            a = args[0]
            if a.tag == "lref":
                self.oblige(p, f"L{line}/len-of-None", a.z != L.LNONE, kind="safety")
                p.assume(a.z != L.LNONE)
                return [(p, IntV(h.llen(a.z)))]
            if a.tag == "dref":
                self.oblige(p, f"L{line}/len-of-None", a.z != L.DNONE, kind="safety")
                p.assume(a.z != L.DNONE)
                return [(p, IntV(h.dcard(a.z)))]
            if a.tag == "tuple":
                return [(p, IntV(len(a.z)))]
            if a.tag == "str":
                return [(p, IntV(len(a.z)))]
            if a.tag == "none":
                R.append((p, ExcV("TypeError", site=f"L{line}")))
                return []
            if a.tag == "val":
                f = z3.Function("val_len", L.Val, L.I)
                p.assume(f(a.z) >= 0)
                return [(p, IntV(f(a.z)))]
            raise Unsupported(f"len of {a.tag}")
        if name == "bool":
            return [(p, BoolV(self.truthy(args[0], p)))]
        if name == "isinstance":
            return [(p, BoolV(self.isinstance_(args[0], args[1], p)))]
        if name == "callable":
            a = args[0]
            if a.tag in ("func", "method", "cls"):
                return [(p, BoolV(True))]
            if a.tag == "val":
                return [(p, BoolV(L.v_callable(a.z)))]
            return [(p, BoolV(False))]
        if name == "id":
            a = args[0]
            f = z3.Function("py_id", L.Ref, L.Val)
            if a.tag != "ref":
                raise Unsupported("id of non-object")
            p.assume(L.v_is_int(f(a.z)), L.v_truthy(f(a.z)))
            return [(p, SV("val", f(a.z)))]
        if name == "hash":
            return [(p, SV("val", L.v_hash(self.to_sort(args[0], L.Val))))]
        if name == "int":
            a = args[0]
            if a.tag in ("int", "bool"):
                return [(p, IntV(self.to_sort(a, L.I)))]
            if a.tag == "val":  # int(node_id): identity on ints (node ids are ints)
                self.oblige(p, f"L{line}/int()-of-int", L.v_is_int(a.z), kind="safety")
                return [(p, SV("val", a.z))]
            raise Unsupported("int()")
        if name == "getattr":
            o, nm = args[0], args[1]
            if nm.tag != "str":
                raise Unsupported("getattr with a non-constant name")
            if o.tag == "clsof" and len(args) == 2:
                # getattr(obj.__class__, "<name>"): the function object of the (closed) class table, AttributeError if there is none
                cls = self.node_class_for(SV("ref", o.z, o.cls), p)
                defcls, fd = self.src.class_member(cls, nm.z)
                if fd is None or self.src.is_property(fd):
                    R.append((p, ExcV("AttributeError", site=f"L{line}/getattr {cls}.{nm.z}")))
                    return []
                return [(p, SV("func", ("repo", self.src.qualname(defcls, fd))))]
            RR: list = []
            try:
                res = self.get_attr(o, nm.z, p, RR, node)
            except Unsupported:
                if len(args) > 2:
                    return [(p, args[2])]
                R.append((p, ExcV("AttributeError", site=f"L{line}")))
                return []
            R += RR
            return res
        if name == "print":
            return [(p, NoneV)]
        if name == "attrgetter" and len(args) == 1 and args[0].tag == "str":
            z = z3.Const(f"attrgetter!{args[0].z}", L.Val)
            p.assume(z != L.VNONE, L.v_callable(z), L.v_truthy(z))
            return [(p, SV("val", z))]
        if name == "str" and len(args) == 1 and not kwargs:
            # str(x): an abstract, total conversion (user __str__ of data objects assumed not to raise and not to touch the tree)
            a = args[0]
            if a.tag == "str":
                return [(p, a)]
            if a.tag == "ref":
                return [(p, SV("val", z3.Function("repr_of", L.Ref, L.Val)(a.z)))]
            if a.tag in ("val", "int", "bool", "none"):
                return [(p, SV("val", z3.Function("str_of", L.Val, L.Val)(self.to_sort(a, L.Val))))]
            raise Unsupported(f"str() of {a.tag}")
        if name == "list":
            a = args[0] if args else None
            if a is None:
                return [(p, self.new_list(p, []))]
            if a.tag == "lref":
                self.oblige(p, f"L{line}/list-of-None", a.z != L.LNONE, kind="safety")
                src = a.z
                return [(p, self.new_list_fn(p, h.llen(src), lambda i: h.litem(src, i)))]
            if a.tag == "filterobj":
                return [(p, a.z)]
            if a.tag == "gen":
                return self.consume_generator_to_list(a, p, R, node)
            raise Unsupported(f"list() of {a.tag}")
        if name == "filter":
            fn, src = args
            if fn.tag == "func" and fn.z[0] == "lambda" and src.tag == "lref":
                lam = fn.z[1]
                var = lam.args.args[0].arg
                q = p
                saved = dict(q.env)
                q.env.update(fn.z[2])
                res = self.filter_list(q, src, var, [lam.body], R, line)
                q.env = saved
                return [(q, SV("filterobj", res))]
            raise Unsupported("filter() with a non-lambda")
        if name == "issubclass":
            a, b = args
            if a.tag == "val" and b.tag == "cls":
                subs = [n for n in L.CTRL if b.z == n or (b.z == "IterationControl" and n != "StopIteration")]
                other = z3.Function("val_is_other_class", L.Val, L.B)(a.z)
                return [(p, BoolV(And(Not(other), Or(*[a.z == L.clsobj(n) for n in subs])) if subs else z3.BoolVal(False)))]
            raise Unsupported("issubclass")
        if name == "type":
            a = args[0]
            if a.tag == "ref":
                return [(p, SV("clsof", a.z, a.cls))]
        raise Unsupported(f"builtin {name} (line {line})")

    def isinstance_(self, v: SV, c: SV, p: Path):
        if c.tag == "tuple":
            return Or(*[self.isinstance_(v, x, p) for x in c.z])
        if c.tag == "clsof":  # isinstance(x, self._tree.__class__)
            if v.tag == "ref" and v.cls in ("Node", "Tree") and c.cls in ("Node", "Tree") and v.cls != c.cls:
                return z3.BoolVal(False)  # node classes and tree classes are unrelated (closed class table)
            if v.tag == "ref":
                return And(v.z != L.NONE, self.subclass_of_dynamic(L.cls_of(v.z), L.cls_of(c.z)))
            return z3.BoolVal(False)
        if c.tag == "func" and c.z == ("builtin", "type"):
            # isinstance(x, type): x is a class object (of the opaque values only the control classes are)
            if v.tag == "val":
                return Or(*[v.z == L.clsobj(n) for n in L.CTRL], z3.Function("val_is_other_class", L.Val, L.B)(v.z))
            return z3.BoolVal(v.tag in ("cls", "clsof"))
        if c.tag != "cls":
            raise Unsupported("isinstance with dynamic class")
        name = c.z
        t = v.tag
        if t == "none":
            return z3.BoolVal(False)
        if t == "bool":
            return z3.BoolVal(name in ("bool", "int"))
        if t == "int":
            return z3.BoolVal(name == "int")
        if t == "str":
            return z3.BoolVal(name == "str")
        if t == "tuple":
            return z3.BoolVal(name == "tuple")
        if t == "lref":
            return z3.BoolVal(name == "list")
        if t == "dref":
            return z3.BoolVal(name == "dict")
        if t in ("func", "method", "cls", "enum"):
            return z3.BoolVal(False)
        if t == "ref":
            subs = [k for k in L.CLS if self.is_subclass(k, name)]
            if not subs:
                return z3.BoolVal(False)
            return And(v.z != L.NONE, Or(*[L.cls_of(v.z) == L.CLS[k] for k in subs]))
        if t == "val":
            if name == "int":
                return L.v_is_int(v.z)
            if name == "str":
                return L.v_is_str(v.z)
            if name == "bool":
                return L.v_is_bool(v.z)
            if name in NODE_CLASSES + TREE_CLASSES + ("dict", "list", "tuple", "Path"):
                return z3.BoolVal(False) if not (v.extra and v.extra.get("maybe_" + name)) else z3.Function("val_is_" + name, L.Val, L.B)(v.z)
            if name == "IterationControl":
                return Or(*[L.exc_pred(n)(v.z) for n in ("SkipBranch", "SelectBranch", "StopTraversal")])
            if name in EXC_CLASSES:
                return L.exc_pred(name)(v.z)
            return z3.Function("val_isinstance_" + name, L.Val, L.B)(v.z)
        raise Unsupported(f"isinstance({t}, {name})")

    def is_subclass(self, k: str, base: str) -> bool:
        from .source import BASES

        if k == base:
            return True
        return any(self.is_subclass(b, base) for b in BASES.get(k, []))

    def subclass_of_dynamic(self, c1, c2):
        """cls c1 is a subclass of cls c2 (both dynamic class tags)."""
        alts = []
        for k1, n1 in L.CLS.items():
            for k2, n2 in L.CLS.items():
                if k1 in ("RLock",) or k2 in ("RLock",):
                    continue
                if self.is_subclass(k1, k2):
                    alts.append(And(c1 == n1, c2 == n2))
        return Or(*alts)

    # ------------------------------------------------------------------ lambdas (local, only called)
    def call_lambda(self, f: SV, args, p: Path, R, node):
        lam, cap = f.z[1], f.z[2]
        saved = dict(p.env)
        p.env.update(cap)
        for a, v in zip(lam.args.args, args):
            p.env[a.arg] = v
        outs = self.ev(lam.body, p, R)
        for q, _ in outs:
            for k in list(q.env):
                if k not in saved:
                    del q.env[k]
            q.env.update({k: saved[k] for k in saved})
        return outs

    # ------------------------------------------------------------------ members of repo classes
    def node_class_for(self, o: SV, p: Path) -> str:
        """Static class used to resolve a member of a ref (closed class table + tree family)."""
        if o.cls == "Tree":
            return {"plain": "Tree", "typed": "TypedTree"}[self.family]
        if o.cls == "Lock":
            return "RLock"
        return {"plain": "Node", "typed": "TypedNode"}[self.family]

    def get_member(self, o: SV, attr: str, p: Path, R, node):
        cls = self.node_class_for(o, p)
        if cls == "RLock":
            return [(p, SV("method", (o, attr)))]
        defcls, fd = self.src.class_member(cls, attr)
        if fd is None:
            const = self.src.class_const(cls, attr)
            if const is not None:
                kind, val = const
                if kind == "str":
                    return [(p, SV("str", val))]
                return [(p, SV("val", z3.Const(f"clsattr!{val}", L.Val)))]
            if cls in ("Node", "TypedNode") and attr not in ("kind",):
                # Node.__getattr__ forwarding; never triggered for the slotted names (assumed)
                raise Unsupported(f"attribute {attr} resolves to Node.__getattr__ (line {node.lineno})")
            R.append((p, ExcV("AttributeError", site=f"L{node.lineno}")))
            return []
        qual = self.src.qualname(defcls, fd)
        if self.src.is_property(fd):
            return self.call_repo(qual, o, [], {}, p, R, node)
        return [(p, SV("bound", (o, defcls, qual)))]

    def call_class_attr(self, recv: SV, name, args, kwargs, p, R, node):
        """Class.method(obj, ...) / cls.method(...) for classmethods."""
        if recv.tag == "cls":
            cls = recv.z
            defcls, fd = self.src.class_member(cls, name)
            if fd is None:
                raise Unsupported(f"{cls}.{name}")
            qual = self.src.qualname(defcls, fd)
            if self.src.is_classmethod(fd):
                return self.call_repo(qual, recv, args, kwargs, p, R, node)
            return self.call_repo(qual, args[0], args[1:], kwargs, p, R, node)
        raise Unsupported(f"call through dynamic class .{name}")

    # ------------------------------------------------------------------ repo functions: by contract
    def bind_args(self, fd: ast.FunctionDef, recv, args, kwargs, node) -> dict:
        a = fd.args
        names = [x.arg for x in a.posonlyargs + a.args]
        bound: dict[str, SV] = {}
        pos = list(args)
        if recv is not None and names and names[0] in ("self", "cls"):
            bound[names[0]] = recv
            names = names[1:]
        defaults = a.defaults
        dnames = (a.posonlyargs + a.args)[len(a.posonlyargs + a.args) - len(defaults):]
        dmap = {n.arg: d for n, d in zip(dnames, defaults)}
        for n, d in zip(a.kwonlyargs, a.kw_defaults):
            if d is not None:
                dmap[n.arg] = d
        if len(pos) > len(names):
            raise Unsupported(f"too many positional arguments (line {node.lineno})")
        for n, v in zip(names, pos):
            bound[n] = v
        allnames = names + [x.arg for x in a.kwonlyargs]
        for k, v in kwargs.items():
            if k not in allnames or k in bound:
                return {"__typeerror__": SV("str", k)}
            bound[k] = v
        for n in allnames:
            if n not in bound:
                if n in dmap:
                    bound[n] = self.const_default(dmap[n])
                else:
                    return {"__typeerror__": SV("str", n)}
        return bound

    def const_default(self, d):
        if isinstance(d, ast.Constant):
            v = d.value
            if v is None:
                return NoneV
            if isinstance(v, bool):
                return BoolV(v)
            if isinstance(v, int):
                return IntV(v)
            if isinstance(v, str):
                return SV("str", v)
        if isinstance(d, ast.Attribute) and isinstance(d.value, ast.Name) and d.value.id == "IterMethod":
            from .exprs import ENUM_ITERMETHOD

            return SV("enum", ENUM_ITERMETHOD[d.attr])
        raise Unsupported("non-constant default")

    def call_repo(self, qual: str, recv, args, kwargs, p: Path, R, node):
        c: Contract | None = REGISTRY.get(qual)
        mod, fd = self.src.lookup(qual)
        if fd is None:
            raise Unsupported(f"cannot resolve {qual}")
        if c is None:
            raise Unsupported(f"call of {qual} which has no contract (line {node.lineno})")
        bound = self.bind_args(fd, recv, args, kwargs, node)
        if "__typeerror__" in bound:
            R.append((p, ExcV("TypeError", site=f"L{node.lineno}/call {qual.split('.')[-1]}: bad argument {bound['__typeerror__'].z}")))
            return []
        if c.inline:
            return self.inline_call(qual, fd, bound, p, R, node)
        # parameters on which the contract forks statically (true/false): split a symbolic bool
        worlds = [(p, bound)]
        for name, alts in c.params.items():
            if set(alts) <= {"true", "false"} and name in bound and bound[name].tag == "bool" and not (z3.is_true(bound[name].z) or z3.is_false(bound[name].z)):
                nw = []
                for q, b in worlds:
                    for val in (True, False):
                        q2 = q.fork()
                        q2.assume(b[name].z == val)
                        b2 = dict(b)
                        b2[name] = BoolV(val)
                        nw.append((q2, b2))
                worlds = nw
        # a maybe-None reference for a parameter whose contract distinguishes None from a node
        for name, alts in c.params.items():
            if "none" in alts and ("node" in alts) and name in bound and bound[name].tag == "ref":
                nw = []
                for q, b in worlds:
                    qn, qs = q.fork(), q.fork()
                    qn.assume(b[name].z == L.NONE)
                    qs.assume(b[name].z != L.NONE)
                    bn = dict(b)
                    bn[name] = NoneV
                    nw += [(qn, bn), (qs, b)]
                worlds = nw
        outs = []
        for q, b in worlds:
            outs += self.apply_contract(c, qual, b, q, R, node)
        return outs

    def apply_contract(self, c: Contract, qual, bound: dict, p: Path, R, node):
        line = node.lineno
        short = ".".join(qual.split(".")[2:]) or qual
        # the callee's declared parameter types must admit the actual tags
        for name, alts in c.params.items():
            if name in bound and not self.tag_ok(bound[name], alts):
                if self.infeasible(p):
                    return []  # dead path (e.g. behind an isinstance guard that already raised)
                raise Unsupported(f"argument {name} of {short} has tag {bound[name].tag}/{bound[name].cls}, contract admits {alts} (line {line})")
        a = Args(bound)
        h0 = p.heap
        Tn = self.normal_tree(bound, p)
        x0 = Ctx(self, h0, h0, a, family=self.family, T=Tn)
        hint = self.contract.call_hints.get(short.split(".")[-1]) if isinstance(self.contract.call_hints, dict) else None
        if hint is not None:
            # ghost assert before the call: proved here, then available to the callee's contract
            xh = Ctx(self, self.h_entry, h0, self.args_entry, v=None, family=self.family, T=getattr(self, "T_entry", None))
            xh.call_args = a
            xh.p = p
            f = hint(xh)
            self.oblige(p, f"L{line}/call {short}/ghost-assert", f, kind="inv")
            p.assume(f)
        for rname, rfn in c.requires_:
            self.oblige(p, f"L{line}/call {short}/requires {rname}", rfn(x0), kind="pre")
        if qual == self.qual and getattr(c, "decreases_", None) is not None:
            # recursion: the termination measure strictly decreases and is bounded below
            xe = Ctx(self, self.h_entry, self.h_entry, self.args_entry, family=self.family, T=getattr(self, "T_entry", None))
            m_call, m_entry = c.decreases_(x0), c.decreases_(xe)
            self.oblige(p, f"L{line}/call {short}/decreases", And(m_call < m_entry, m_call >= 0), kind="pre")
        if c.reads_structure:
            self.on_structure_read(p, f"L{line}/call {short}", bound)
        outs = []
        # exceptional outcomes
        for r in c.raises_:
            q = p.fork()
            h1 = h0.havoc(c.modifies_) if (c.modifies_ and r.ensures is not None and getattr(r, "may_modify", False)) else h0
            if getattr(r, "havoc", None):
                h1 = h0.havoc(r.havoc)
            q.heap = h1
            # the clauses of an exceptional outcome may speak about the exception (class, carried value): a symbolic value here
            ev = SV("val", L.fresh("excval", L.Val))
            x = Ctx(self, h0, h1, a, family=self.family, T=Tn, exc=ExcV(r.exc, value=ev, site=f"L{line}/call {short}"))
            if r.when is not None:
                q.assume(r.when(x))
            if r.ensures is not None:
                q.assume(r.ensures(x))
            val = ev if r.exc == "StopTraversal" else None
            if getattr(r, "value", None):
                val = r.value(x)
            if r.exc == "Callback":
                from .values import CALLBACK_EXCS

                for cn in CALLBACK_EXCS:
                    R.append((q.fork(), ExcV(cn, value=SV("val", L.fresh("excval", L.Val)), site=f"L{line}/call {short}")))
                continue
            R.append((q, ExcV(r.exc, value=val, site=f"L{line}/call {short}")))
        # normal outcome
        alts = getattr(c, "result_alternatives", None)
        if c.result_tag == "any" and alts and len(alts) > 1:
            # a result of one of several kinds (e.g. str | dict): one outcome per kind, each constrained by the ensures
            import copy

            for t in alts[1:]:
                q2 = p.fork()
                c2 = copy.copy(c)
                c2.result_tag, c2.result_alternatives = t, None
                outs += self._normal_outcome(c2, q2, h0, a, x0, Tn, short, line)
            c = copy.copy(c)
            c.result_tag, c.result_alternatives = alts[0], None
        outs += self._normal_outcome(c, p, h0, a, x0, Tn, short, line)
        return outs

    def _normal_outcome(self, c, q, h0, a, x0, Tn, short, line):
        outs = []
        h1 = h0.havoc(c.modifies_) if c.modifies_ else h0
        q.heap = h1
        res = self.fresh_result(c, q, short)
        x = Ctx(self, h0, h1, a, res=res, family=self.family, T=Tn)
        for r in c.raises_:
            if r.when is not None and r.must:
                q.assume(Not(r.when(x0)))
        for en in c.ensures_:
            f = en.fn(x)
            if z3.is_expr(f) and z3.is_false(z3.simplify(f)) and "never returns" not in en.name:
                # vacuity guard: a callee clause that is literally False *at the call site* (e.g. one that reads context which
                # exists only in the callee's own proof) would kill the path and make everything behind the call provable
                self.obligations.append(Obligation(f"{self.qual}[{self.variant}]#L+{line - self.line0}/call {short}/must-fail:callee clause '{en.name}' is not literally false here", [z3.BoolVal(False)], z3.BoolVal(False), (), self.qual, "must_fail"))
            q.assume(f)
        if isinstance(res.extra, dict) and "emb" in res.extra and res.tag == "lref":
            q.ghost.setdefault("filters", []).append((res.z, None, res.extra["emb"], res.extra["inv"]))
        if isinstance(res.extra, dict) and res.extra:
            # ghost witnesses the callee's postcondition introduced (existentials): the caller's own clauses may name them
            q.ghost["callee_wits"] = dict(q.ghost.get("callee_wits", {}))
            q.ghost["callee_wits"][short] = dict(res.extra)
        q.labels[f"after:{short}:{line}"] = h1
        q.ghost.setdefault("calls", []).append((short, line, h0, h1, a, res))
        outs.append((q, res))
        return outs

    def normal_tree(self, bound, p: Path):
        """If the callee's tree provably is the tree of the function under verification, use
        that very term, so that re-establishing wf at the call is syntactically trivial."""
        s = bound.get("self")
        T0 = getattr(self, "T_entry", None)
        if s is None or s.tag != "ref" or T0 is None:
            return None
        t = s.z if s.cls == "Tree" else p.heap._tree(s.z)
        if z3.eq(t, T0):
            return T0
        from . import solve

        # first try with the entry assumptions only (shared by every path): cacheable
        cache = self.__dict__.setdefault("_nt_cache", {})
        key = t.sexpr()
        if key in cache:
            if cache[key]:
                return T0
        else:
            sol = solve.make_solver(getattr(self, "entry_conds", []), t == T0)
            sol.set("rlimit", 2000000)
            cache[key] = sol.check() == z3.unsat
            if cache[key]:
                return T0
        sol = solve.make_solver(p.conds, t == T0)
        sol.set("rlimit", 2000000)
        if sol.check() == z3.unsat:
            return T0
        return None

    def infeasible(self, p: Path) -> bool:
        from . import solve

        sol = solve.make_solver(p.conds, z3.BoolVal(False))
        sol.set("rlimit", 3000000)
        return sol.check() == z3.unsat

    def tag_ok(self, v: SV, alts) -> bool:
        for t in alts:
            if t == "any":
                return True
            if t == "node" and v.tag == "ref" and v.cls in (None, "Node"):
                return True
            if t == "node?" and (v.tag == "none" or (v.tag == "ref" and v.cls in (None, "Node"))):
                return True
            if t == "tree" and v.tag == "ref" and v.cls == "Tree":
                return True
            if t == v.tag:
                return True
            if t.startswith("enum:") and v.tag == "enum" and v.z == t[5:]:
                return True
            if t.startswith("str:") and v.tag == "str" and v.z == t[4:]:
                return True
            if t == "true" and v.tag == "bool" and z3.is_true(v.z):
                return True
            if t == "false" and v.tag == "bool" and z3.is_false(v.z):
                return True
            if t in ("kind", "id") and v.tag in ("val", "str", "int"):
                return True
            if t == "data" and v.tag in ("val", "str", "int", "bool"):
                return True
            if t == "cb" and v.tag in ("val", "func"):
                return True
            if t.startswith("cls:") and v.tag == "cls":
                return True
        return False

    def fresh_result(self, c: Contract, p: Path, short) -> SV:
        t = c.result_tag
        if t is None or t == "none":
            return NoneV
        if t == "bool":
            return BoolV(L.fresh(f"r_{short}", L.B))
        if t in ("true", "false"):
            return BoolV(t == "true")
        if t == "int":
            return IntV(L.fresh(f"r_{short}", L.I))
        if t in ("node", "node?"):
            return RefV(L.fresh(f"r_{short}", L.Ref), "Node")
        if t == "tree":
            return RefV(L.fresh(f"r_{short}", L.Ref), "Tree")
        if t == "lref":
            return SV("lref", L.fresh(f"r_{short}", L.LRef))
        if t == "dref":
            return SV("dref", L.fresh(f"r_{short}", L.DRef))
        if t == "val":
            return SV("val", L.fresh(f"r_{short}", L.Val))
        if t == "pseq":
            return SV("gen", L.fresh(f"r_{short}", L.PSeq))
        raise Unsupported(f"result tag {t}")

    def inline_call(self, qual, fd, bound, p: Path, R, node):
        """Trivial accessors (contract.inline): executed in place, documented as inlined."""
        saved = p.env
        p.env = dict(bound)
        outs = []
        for o in self.exec_block(self.body_of(fd), p):
            if o.kind == "return":
                o.path.env = dict(saved)
                outs.append((o.path, o.val if o.val is not None else NoneV))
            elif o.kind == "next":
                o.path.env = dict(saved)
                outs.append((o.path, NoneV))
            elif o.kind == "raise":
                o.path.env = dict(saved)
                R.append((o.path, o.val))
            else:
                raise Unsupported("inline control flow")
        return outs

    # ------------------------------------------------------------------ nested functions under contract
    def call_nested(self, st, args, kwargs, p: Path, R, node):
        """Call of a function defined in the body of the function under verification (or the recursive call inside that
        nested function): modular, against the contract registered as '<outer>.<locals>.<name>'.  Captured variables
        travel as pseudo-arguments <name>__in; a `nonlocal` one is havocked to <name>__out, which the ensures constrain."""
        base = self.qual.rsplit(".<locals>.", 1)[0] if ".<locals>." in self.qual else self.qual
        qual = f"{base}.<locals>.{st.name}"
        c = REGISTRY.get(qual)
        if c is None:
            raise Unsupported(f"call of the nested function {st.name} which has no contract (line {node.lineno})")
        bound = self.bind_args(st, None, args, kwargs, node)
        if "__typeerror__" in bound:
            R.append((p, ExcV("TypeError", site=f"L{node.lineno}/call {st.name}")))
            return []
        for nm, (tag, mode) in c.captures.items():
            if nm not in p.env:
                raise Unsupported(f"captured variable {nm} of {st.name} is not bound at the call (line {node.lineno})")
            bound[nm + "__in"] = p.env[nm]
            if mode == "inout":
                if tag != "int":
                    raise Unsupported(f"nonlocal {nm} of tag {tag}")
                out = IntV(L.fresh(f"{nm}_after_{st.name}", L.I))
                bound[nm + "__out"] = out
        for nm, (tag, mode) in c.captures.items():
            if mode == "inout":
                p.env[nm] = bound[nm + "__out"]  # before the contract forks its outcomes: every outcome sees the new binding
        return self.apply_contract(c, qual, bound, p, R, node)

    # ------------------------------------------------------------------ user callbacks: oracles
    def call_oracle(self, f: SV, args, p: Path, R, node):
        """A user callback is an uninterpreted pure function of its arguments; every
        invocation may also raise UserError (C13) or a control exception."""
        fz = f.z[1]
        zs = []
        for a in args:
            if a.tag == "ref":
                zs.append(("r", a.z))
            elif a.tag in ("val", "str", "int", "bool", "none"):
                zs.append(("v", self.to_sort(a, L.Val)))
            else:
                zs.append(("v", z3.Const("opaque_arg", L.Val)))
        key = "".join(k for k, _ in zs)
        orc = L.oracle_fn(key)
        res = orc(fz, *[z for _, z in zs])
        p.ghost.setdefault("cb_calls", []).append((fz, [z for _, z in zs], node.lineno))
        prev = list(p.ghost.get("cb_events", []))
        bad = p.fork()
        bad.ghost["cb_events"] = prev + [("raise", "UserError", None)]
        R.append((bad, ExcV("UserError", site=f"L{node.lineno}/callback")))
        for ctl in L.CTRL:
            q = p.fork()
            val = SV("val", L.fresh("excval", L.Val))
            q.ghost["cb_events"] = prev + [("raise", ctl, val)]
            R.append((q, ExcV(ctl, value=val, site=f"L{node.lineno}/callback")))
        p.ghost["cb_events"] = prev + [("return", res)]
        return [(p, SV("val", res, extra={"maybe_exc": True}))]
