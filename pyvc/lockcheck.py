"""C18 — lock discipline as effect contracts (DESIGN §5 C18).

Contracts cannot quantify over schedules.  What the schedule argument needs from the code
is discharged here, function by function, on the real AST:

  * `Tree.__enter__` acquires exactly `self._lock` and `Tree.__exit__` releases exactly it;
    `_lock` is assigned once, in `Tree.__init__`, to a `threading.RLock()` (re-entrant).
  * every *snapshot operation* reads tree structure only at program points whose lexical
    `with <tree>:` depth is >= 1 (the ghost `held` counter of the current thread is then
    >= held_at_entry + 1, for every entry value: nothing requires held_at_entry == 0, which
    is the re-entrancy clause), and `with` restores the counter on every exit;
  * no snapshot operation acquires any other lock (no lock-order deadlock).

`with` is lexical in Python, so the ghost counter along any path equals the lexical nesting
depth: the obligations are decided by this effect checker itself (back end 'effect'), no SMT
query is needed.  What is assumed: threading.RLock (mutual exclusion, re-entrancy) and that
callees marked non-reading really do not read the structure (listed below).
"""
from __future__ import annotations

import ast

from .source import Source

# attribute names on the tree object that do NOT read tree structure
NONSTRUCT_ATTRS = {"_root", "system_root", "name", "__class__", "_lock", "DEFAULT_KEY_MAP", "DEFAULT_VALUE_MAP", "DEFAULT_CHILD_TYPE", "DEFAULT_CONNECTOR_STYLE",
                   "serialize_mapper", "deserialize_mapper", "_node_factory", "_calc_data_id_hook", "_forward_attrs"}
# snapshot operations: (qualified name, name of the variable holding the tree)
SNAPSHOT_OPS = [
    ("nutree.tree.Tree.save", "self"), ("nutree.typed_tree.TypedTree.save", "self"), ("nutree.tree.Tree.copy", "self"), ("nutree.tree.Tree.copy_to", "self"),
    ("nutree.tree.Tree.filtered", "self"), ("nutree.tree.Tree.to_dict_list", "self"), ("nutree.dot.tree_to_dotfile", "tree"), ("nutree.tree.Tree.to_dotfile", "self"),
]
# calls on the tree object that are themselves snapshot operations (they take the lock themselves)
SELF_LOCKING = {"save", "copy", "copy_to", "to_dict_list", "to_dotfile", "filtered"}
# module-level functions that take the tree and lock it themselves
SELF_LOCKING_FUNCS = {"tree_to_dotfile"}


def _rooted_at(e, var: str) -> bool:
    """expression is `var`, `var.attr...`, `var.m(...)...`, or super() inside a method of var."""
    while True:
        if isinstance(e, ast.Name):
            return e.id == var
        if isinstance(e, ast.Attribute):
            e = e.value
        elif isinstance(e, ast.Call):
            if isinstance(e.func, ast.Name) and e.func.id == "super" and var == "self":
                return True
            e = e.func
        elif isinstance(e, ast.Subscript):
            e = e.value
        else:
            return False


class OpChecker(ast.NodeVisitor):
    def __init__(self, qual, var, fd, rel):
        self.qual, self.var, self.fd, self.rel = qual, var, fd, rel
        self.depth = 0
        self.obs: list[dict] = []
        self.n_with = 0
        self.derived: set[str] = set()  # locals bound to values derived from the tree (nodes, iterators)

    def ob(self, node, what, ok, detail=""):
        self.obs.append({"name": f"{self.qual}#L+{node.lineno - self.fd.lineno}/{what}", "ok": bool(ok), "detail": detail, "line": node.lineno})

    # -- with
    def visit_With(self, node: ast.With):
        locks_tree = any(isinstance(it.context_expr, ast.Name) and it.context_expr.id == self.var for it in node.items)
        for it in node.items:
            ce = it.context_expr
            if not locks_tree:
                # any other context manager must not be a lock
                txt = ast.unparse(ce)
                self.ob(node, f"no-other-lock:{txt[:40]}", "lock" not in txt.lower() and "acquire" not in txt.lower(), txt)
                self.visit(ce)
        if locks_tree:
            self.n_with += 1
            self.depth += 1
            for st in node.body:
                self.visit(st)
            self.depth -= 1
        else:
            for st in node.body:
                self.visit(st)

    # -- reads
    def is_structure_read(self, e) -> str | None:
        """Return a description if evaluating e reads tree structure."""
        if isinstance(e, ast.Attribute) and _rooted_at(e.value, self.var):
            if isinstance(e.value, ast.Name) and e.value.id == self.var:
                if e.attr in NONSTRUCT_ATTRS:
                    return None
                return f"{self.var}.{e.attr}"
            # deeper chain: var._root.X / var.system_root.X : any attribute of a node reads structure
            return ast.unparse(e)[:60]
        return None

    def visit_Attribute(self, node: ast.Attribute):
        # method calls are handled in visit_Call; plain attribute loads here
        d = self.is_structure_read(node)
        if d and not getattr(node, "_is_callee", False):
            self.ob(node, f"read {d}/held>=entry+1", self.depth >= 1, d)
        self.generic_visit(node)

    def visit_Call(self, node: ast.Call):
        f = node.func
        if isinstance(f, ast.Attribute) and _rooted_at(f.value, self.var):
            f._is_callee = True
            direct = isinstance(f.value, ast.Name) and f.value.id == self.var
            via_super = isinstance(f.value, ast.Call) and isinstance(f.value.func, ast.Name) and f.value.func.id == "super"
            first = f
            while isinstance(first.value, (ast.Attribute, ast.Call, ast.Subscript)) and not (isinstance(first.value, ast.Call) and isinstance(first.value.func, ast.Name)):
                first = first.value if isinstance(first.value, ast.Attribute) else (first.value.func if isinstance(first.value, ast.Call) else first.value.value)
                if not isinstance(first, ast.Attribute):
                    break
            first_attr = first.attr if isinstance(first, ast.Attribute) else None
            if (direct or via_super) and f.attr in SELF_LOCKING:
                pass  # the callee is a snapshot operation with its own obligation
            elif direct and f.attr in NONSTRUCT_ATTRS:
                pass
            elif first_attr is not None and first_attr.startswith("DEFAULT_"):
                pass  # class-level constants
            else:
                self.ob(node, f"call {ast.unparse(f)[:50]}/held>=entry+1", self.depth >= 1, ast.unparse(f))
        elif isinstance(f, ast.Name) and f.id in SELF_LOCKING_FUNCS:
            pass
        elif any(isinstance(a, ast.Attribute) and _rooted_at(a, self.var) and a.attr in ("_root", "system_root") for a in list(node.args) + [k.value for k in node.keywords]):
            # a node of the tree is handed to a callee, which then reads the structure
            self.ob(node, f"call {ast.unparse(f)[:50]}(<node of {self.var}>)/held>=entry+1", self.depth >= 1, ast.unparse(node)[:80])
        elif isinstance(f, ast.Name) and any(isinstance(a, ast.Name) and a.id == self.var for a in list(node.args) + [k.value for k in node.keywords]):
            # the tree is handed to a function: len(tree), list(tree), str(tree) ... read it
            if f.id not in ("isinstance", "id", "type", "tree_to_dotfile", "Tree", "TypedTree"):
                self.ob(node, f"call {f.id}({self.var})/held>=entry+1", self.depth >= 1, ast.unparse(node)[:60])
        self.generic_visit(node)

    def visit_Assign(self, node: ast.Assign):
        # a lazily evaluated iterator over the tree bound to a local: its *consumption* reads the tree
        v = node.value
        if isinstance(v, ast.Call) and isinstance(v.func, ast.Attribute) and _rooted_at(v.func.value, self.var) and not (isinstance(v.func.value, ast.Name) and (v.func.attr in SELF_LOCKING or v.func.attr in NONSTRUCT_ATTRS)) and not ast.unparse(v.func).startswith(f"{self.var}.DEFAULT_"):
            for t in node.targets:
                if isinstance(t, ast.Name):
                    self.derived.add(t.id)
        self.generic_visit(node)

    def visit_Name(self, node: ast.Name):
        if isinstance(node.ctx, ast.Load) and node.id in self.derived:
            self.ob(node, f"use of {node.id} (derived from {self.var})/held>=entry+1", self.depth >= 1, node.id)

    def visit_For(self, node: ast.For):
        if _rooted_at(node.iter, self.var) and isinstance(node.iter, ast.Name):
            self.ob(node, f"iterate {self.var}/held>=entry+1", self.depth >= 1, ast.unparse(node.iter))
        self.generic_visit(node)

    def visit_FunctionDef(self, node):  # nested defs: checked when called; skip body
        if node is self.fd:
            for st in node.body:
                self.visit(st)

    def visit_JoinedStr(self, node):
        # f"{self}" calls __repr__ (name only) -- not a structure read
        for v in node.values:
            if isinstance(v, ast.FormattedValue) and isinstance(v.value, ast.Name) and v.value.id == self.var:
                continue
            self.visit(v)


def check_enter_exit(src: Source) -> list[dict]:
    out = []
    _, cd = src.classes["Tree"]
    fns = {st.name: st for st in cd.body if isinstance(st, ast.FunctionDef)}

    def body_wo_doc(fd):
        b = fd.body
        if b and isinstance(b[0], ast.Expr) and isinstance(b[0].value, ast.Constant):
            b = b[1:]
        return b

    en = fns.get("__enter__")
    ok = False
    if en is not None:
        b = body_wo_doc(en)
        ok = len(b) == 2 and ast.unparse(b[0]) == "self._lock.acquire()" and ast.unparse(b[1]) == "return self"
    out.append({"name": "nutree.tree.Tree.__enter__#ensures held' == held + 1 on self._lock, result is self", "ok": ok, "detail": ast.unparse(en) if en else "missing"})
    ex = fns.get("__exit__")
    ok = False
    if ex is not None:
        b = body_wo_doc(ex)
        ok = len(b) >= 1 and ast.unparse(b[0]) == "self._lock.release()" and all(isinstance(s, (ast.Return, ast.Pass)) and (not isinstance(s, ast.Return) or s.value is None) for s in b[1:])
    out.append({"name": "nutree.tree.Tree.__exit__#ensures held' == held - 1 on self._lock, exceptions are not swallowed", "ok": ok, "detail": ast.unparse(ex) if ex else "missing"})
    # _lock assigned exactly once in the package, in Tree.__init__, to threading.RLock()
    assigns = []
    for m, mod in src.mods.items():
        for n in ast.walk(mod):
            if isinstance(n, (ast.Assign, ast.AnnAssign)):
                tgts = n.targets if isinstance(n, ast.Assign) else [n.target]
                for t in tgts:
                    if isinstance(t, ast.Attribute) and t.attr == "_lock":
                        assigns.append((m, n))
    ok = len(assigns) == 1 and assigns[0][0] == "tree" and ast.unparse(assigns[0][1].value) == "threading.RLock()"
    out.append({"name": "nutree.tree.Tree.__init__#ensures self._lock is a fresh threading.RLock (re-entrant), never re-assigned", "ok": ok, "detail": "; ".join(f"{m}:{ast.unparse(n)}" for m, n in assigns)})
    # TypedTree / FileSystemTree do not override __enter__/__exit__
    for cname in ("TypedTree", "FileSystemTree"):
        if cname in src.classes:
            names = {st.name for st in src.classes[cname][1].body if isinstance(st, ast.FunctionDef)}
            out.append({"name": f"nutree.*.{cname}#inherits __enter__/__exit__ unchanged", "ok": not ({"__enter__", "__exit__"} & names), "detail": ""})
    return out


def run(src: Source) -> dict:
    obs = check_enter_exit(src)
    funcs = [{"function": "nutree.tree.Tree.__enter__/__exit__/__init__", "obligations": len(obs), "discharged": sum(o["ok"] for o in obs)}]
    out_of_reach = []
    for qual, var in SNAPSHOT_OPS:
        mod, fd = src.lookup(qual)
        if fd is None:
            out_of_reach.append({"function": qual, "construct": "not found"})
            continue
        ck = OpChecker(qual, var, fd, None)
        ck.visit_FunctionDef(fd)
        # every snapshot op must read under the lock at least once, or delegate to one that does
        delegates = any(isinstance(n, ast.Call) and ((isinstance(n.func, ast.Attribute) and n.func.attr in SELF_LOCKING) or (isinstance(n.func, ast.Name) and n.func.id in SELF_LOCKING_FUNCS)) for n in ast.walk(fd))
        ck.obs.append({"name": f"{qual}#takes the tree lock (with {var}:) or delegates to an operation that does", "ok": ck.n_with >= 1 or delegates, "detail": f"with-blocks: {ck.n_with}, delegates: {delegates}"})
        obs += ck.obs
        funcs.append({"function": qual, "obligations": len(ck.obs), "discharged": sum(o["ok"] for o in ck.obs), "source_hash": src.fhash(fd)})
    return {"obligations": obs, "functions": funcs, "out_of_reach": out_of_reach}
