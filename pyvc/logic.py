"""Logical encoding (DESIGN §3.3): uninterpreted sorts + one function symbol per heap
component and heap version, explicit triggers, Boogie/Dafny style.  No z3 sequence theory.
"""
from __future__ import annotations

import itertools

import z3
import z3 as z3  # noqa: F811
from z3 import And, BoolVal, Const, Exists, ForAll, Function, If, Implies, IntVal, MultiPattern, Not, Or

I = z3.IntSort()
B = z3.BoolSort()
Ref = z3.DeclareSort("Ref")  # Node / Tree / lock objects;  NONE = Python None
LRef = z3.DeclareSort("LRef")  # list objects holding Refs
DRef = z3.DeclareSort("DRef")  # dict objects
Val = z3.DeclareSort("Val")  # opaque Python values: data objects, data ids, node ids, kinds, strings
PSeq = z3.DeclareSort("PSeq")  # mathematical sequences of Ref (spec only)

NONE = Const("NONE", Ref)
LNONE = Const("LNONE", LRef)
DNONE = Const("DNONE", DRef)
VNONE = Const("VNONE", Val)

_ctr = itertools.count()


def fresh_id() -> int:
    return next(_ctr)


def fresh(name: str, sort):
    return Const(f"{name}!{next(_ctr)}", sort)


# ---------------------------------------------------------------- immutable symbols
cls_of = Function("cls", Ref, I)  # dynamic class tag (never changes)
CLS = {"Node": 1, "_SystemRootNode": 2, "TypedNode": 3, "_SystemRootTypedNode": 4, "Tree": 5, "TypedTree": 6, "FileSystemTree": 7, "RLock": 8}

# Val structure
v_is_int = Function("v_is_int", Val, B)
v_is_str = Function("v_is_str", Val, B)
v_is_bool = Function("v_is_bool", Val, B)
v_truthy = Function("v_truthy", Val, B)
v_int = Function("v_int", I, Val)  # injection of python ints
v_int_of = Function("v_int_of", Val, I)
v_eq = Function("v_eq", Val, Val, B)  # Python ==  on opaque values (reflexive, symmetric; identity implies equality)
v_same = Function("v_same", Val, Val, B)  # `a is b` for str/int values: identity implies equality, not conversely
v_hash = Function("v_hash", Val, Val)  # hash(data) as a Val (an int)
v_hook = Function("v_hook", Val, Ref, Val, Val)  # user calc_data_id(hook, tree, data)
v_callable = Function("v_callable", Val, B)
ANY_KIND = Const("ANY_KIND", Val)
ROOT_DATA_ID = Const("ROOT_DATA_ID", Val)
DELETED_TAG = Const("DELETED_TAG", Val)
V_TRUE = Const("V_TRUE", Val)
V_FALSE = Const("V_FALSE", Val)


def val_axioms():
    a, b = Const("a!v", Val), Const("b!v", Val)
    i = Const("i!v", I)
    return [
        ForAll([i], And(v_int_of(v_int(i)) == i, v_is_int(v_int(i)), v_truthy(v_int(i)) == (i != 0), Not(v_is_str(v_int(i)))), patterns=[v_int(i)]),
        ForAll([a], v_eq(a, a), patterns=[v_eq(a, a)]),
        ForAll([a, b], Implies(v_same(a, b), a == b), patterns=[v_same(a, b)]),
        ForAll([a, b], v_eq(a, b) == v_eq(b, a), patterns=[v_eq(a, b)]),
        # data ids are ints or strs: == on them is identity of value (no two distinct equal ids)
        ForAll([a, b], Implies(And(Or(v_is_int(a), v_is_str(a)), Or(v_is_int(b), v_is_str(b)), v_eq(a, b)), a == b), patterns=[v_eq(a, b)]),
        ForAll([a], v_is_int(v_hash(a)), patterns=[v_hash(a)]),
        # sentinels / class objects / None compare by identity
        ForAll([a], Implies(v_eq(a, ANY_KIND), a == ANY_KIND), patterns=[v_eq(a, ANY_KIND)]),
        ForAll([a], Implies(v_eq(a, VNONE), a == VNONE), patterns=[v_eq(a, VNONE)]),
        Not(v_truthy(VNONE)), Not(v_is_int(VNONE)), Not(v_is_str(VNONE)),
        v_int(0) != VNONE,
        V_TRUE == v_int(1), V_FALSE == v_int(0),  # bool is a subclass of int
        v_is_str(ROOT_DATA_ID), v_truthy(ROOT_DATA_ID), v_is_str(DELETED_TAG),
        Not(v_is_int(ANY_KIND)), Not(v_is_str(ANY_KIND)), ANY_KIND != VNONE,
    ]


# ---------------------------------------------------------------- PSeq prelude (Dafny style)
Len = Function("Len", PSeq, I)
At = Function("At", PSeq, I, Ref)
Empty = Const("Empty", PSeq)
Single = Function("Single", Ref, PSeq)
App = Function("App", PSeq, PSeq, PSeq)
SeqEq = Function("SeqEq", PSeq, PSeq, B)
Rev = Function("Rev", PSeq, PSeq)
OfList = Function("OfList", LRef, I, PSeq)  # snapshot of a list object's content: (list, heap-version-id)


def seq_axioms():
    s, t = Const("s!q", PSeq), Const("t!q", PSeq)
    i, j = Const("i!q", I), Const("j!q", I)
    v = Const("v!q", Ref)
    return [
        ForAll([s], Len(s) >= 0, patterns=[Len(s)]),
        Len(Empty) == 0,
        ForAll([s], Implies(Len(s) == 0, s == Empty), patterns=[Len(s)]),
        ForAll([v], And(Len(Single(v)) == 1, At(Single(v), 0) == v), patterns=[Single(v)]),
        # At is total; fixing its value outside the range keeps the index arithmetic out of E-matching
        # (an index term like `k - Len(s)` that *equals* 0 need not be syntactically 0)
        ForAll([v, i], At(Single(v), i) == v, patterns=[At(Single(v), i)]),
        ForAll([s, t], Len(App(s, t)) == Len(s) + Len(t), patterns=[App(s, t)]),
        ForAll([s], App(s, Empty) == s, patterns=[App(s, Empty)]),
        ForAll([s, t, i], And(Implies(And(0 <= i, i < Len(s)), At(App(s, t), i) == At(s, i)), Implies(And(Len(s) <= i, i < Len(s) + Len(t)), At(App(s, t), i) == At(t, i - Len(s)))), patterns=[At(App(s, t), i)]),
        ForAll([s, t], SeqEq(s, t) == And(Len(s) == Len(t), ForAll([j], Implies(And(0 <= j, j < Len(s)), At(s, j) == At(t, j)), patterns=[At(s, j)])), patterns=[SeqEq(s, t)]),
        ForAll([s, t], Implies(SeqEq(s, t), s == t), patterns=[SeqEq(s, t)]),
        ForAll([s], Len(Rev(s)) == Len(s), patterns=[Rev(s)]),
        ForAll([s, i], Implies(And(0 <= i, i < Len(s)), At(Rev(s), i) == At(s, Len(s) - 1 - i)), patterns=[At(Rev(s), i)]),
    ]


# ---------------------------------------------------------------- heap
FIELD_SORTS = {
    # Node
    "_parent": (Ref,), "_children": (LRef,), "_tree": (Ref,), "_data": (Val,), "_data_id": (Val,), "_node_id": (Val,), "_meta": (DRef,), "_kind": (Val,),
    # Tree
    "_root": (Ref,), "_node_by_id": (DRef,), "_nodes_by_data_id": (DRef,), "_lock": (Ref,), "_calc_data_id_hook": (Val,), "_node_factory": (Val,), "_forward_attrs": (B,), "name": (Val,),
}
# components: field functions + container contents + allocation + ghost witnesses
COMPONENTS = {f: ((Ref,), s[0]) for f, s in FIELD_SORTS.items()}
COMPONENTS.update(
    {
        "llen": ((LRef,), I), "litem": ((LRef, I), Ref),
        "ddom": ((DRef, Val), B), "dref": ((DRef, Val), Ref), "dlst": ((DRef, Val), LRef), "dval": ((DRef, Val), Val), "dcard": ((DRef,), I),
        "alloc": ((Ref,), B), "lalloc": ((LRef,), B), "dalloc": ((DRef,), B),
        # ghost witnesses (never written by code; (re)defined at contract boundaries)
        "pos": ((Ref,), I), "rank": ((Ref,), I), "cpos": ((Ref,), I),
        # ghost re-entrancy depth of the current thread per lock object (C18)
        "held": ((Ref,), I),
        # ghost length of the event trace of a traversal callback (C06): how often call_traversal_cb has been entered with it
        "tlen": ((Val,), I),
    }
)
GHOST = ("pos", "rank", "cpos", "held", "tlen")
# the event trace itself is a prophecy: TN(cb, i) / TK(cb, i) = node and kind of the i-th event of callback cb.  An event is
# *defined* at the exit of call_traversal_cb (index tlen(cb), then tlen(cb) += 1); every index is assigned at most once on a
# path because tlen only grows, so the defining equalities are consistent.
TN = Function("TN", Val, I, Ref)
TK = Function("TK", Val, I, I)
EV_CONT, EV_SKIP, EV_STOP, EV_ERR = 0, 1, 2, 3
ST_DONE = 0  # status of a finished traversal segment; otherwise EV_STOP / EV_ERR


class Heap:
    """Immutable map component -> current function symbol.  Writes return a new Heap plus
    the definitional axiom of the new symbol."""

    def __init__(self, syms: dict, tag: str):
        self.syms = syms
        self.tag = tag

    @classmethod
    def initial(cls, tag="0"):
        return cls({c: Function(f"{c}@{tag}", *(args + (res,))) for c, (args, res) in COMPONENTS.items()}, tag)

    def f(self, comp):
        return self.syms[comp]

    def __getattr__(self, comp):  # h._parent(x), h.llen(l) ...
        try:
            return self.__dict__["syms"][comp]
        except KeyError:
            raise AttributeError(comp) from None

    def havoc(self, comps, tag=None) -> "Heap":
        t = tag or f"h{fresh_id()}"
        s = dict(self.syms)
        for c in comps:
            args, res = COMPONENTS[c]
            s[c] = Function(f"{c}@{t}", *(args + (res,)))
        return Heap(s, t)

    def define(self, comp, body_fn) -> tuple["Heap", list]:
        """New symbol for `comp` with  forall xs. new(xs) == body_fn(old, *xs)."""
        args, res = COMPONENTS[comp]
        t = f"w{fresh_id()}"
        new = Function(f"{comp}@{t}", *(args + (res,)))
        xs = [Const(f"x{k}!{t}", a) for k, a in enumerate(args)]
        ax = ForAll(xs, new(*xs) == body_fn(self.syms[comp], *xs), patterns=[new(*xs)])
        s = dict(self.syms)
        s[comp] = new
        return Heap(s, t), [ax]

    # ---- single-location writes
    def write_field(self, field, obj, value):
        return self.define(field, lambda old, x: If(x == obj, value, old(x)))

    def changed(self, other: "Heap") -> set:
        return {c for c in COMPONENTS if not z3.eq(self.syms[c], other.syms[c])}

    # ---- derived notions
    def clen(self, n):
        """number of children of node n (0 when _children is None)."""
        return If(self._children(n) == LNONE, 0, self.llen(self._children(n)))

    def child(self, n, i):
        return self.litem(self._children(n), i)

    def mem(self, T, n):
        """n is a registered member of tree T (defined through the id index, DESIGN I1)."""
        nbi = self._node_by_id(T)
        return And(n != NONE, self._tree(n) == T, self.ddom(nbi, self._node_id(n)), self.dref(nbi, self._node_id(n)) == n)

    def inP(self, T, p):
        return Or(p == self._root(T), self.mem(T, p))

    def clones(self, T, did):
        return self.dlst(self._nodes_by_data_id(T), did)


# ---------------------------------------------------------------- wf(T)
_WF_CACHE: dict = {}


def wf_clauses(h: Heap, T, tag: str | None = None, pending=None) -> dict:
    """The representation invariant, clause by clause (names as in DESIGN §4).
    Cached per (heap symbols, T): the same invariant over the same state is the *same*
    formula, so re-establishing an unchanged wf at a call site is propositional."""
    key = (tuple(h.syms[c].name() for c in sorted(COMPONENTS)), T.sexpr(), None if pending is None else pending.sexpr())
    if key in _WF_CACHE:
        return _WF_CACHE[key]
    r = _wf_clauses(h, T, tag, pending)
    _WF_CACHE[key] = r
    return r


def _wf_clauses(h: Heap, T, tag: str | None = None, pending=None) -> dict:
    """`pending`: a node that is already registered (member) but not yet inserted into its
    parent's child list (state between Node.__init__ and the insertion in add_child): it is
    exempt from the 'appears in its parent's list' part of S2."""
    t = tag or f"wf{fresh_id()}"
    n, p, q = Const(f"n!{t}", Ref), Const(f"p!{t}", Ref), Const(f"q!{t}", Ref)
    i, j = Const(f"i!{t}", I), Const(f"j!{t}", I)
    k, d, e = Const(f"k!{t}", Val), Const(f"d!{t}", Val), Const(f"e!{t}", Val)
    root = h._root(T)
    nbi, nbd = h._node_by_id(T), h._nodes_by_data_id(T)
    mem = lambda x: h.mem(T, x)  # noqa: E731
    inP = lambda x: h.inP(T, x)  # noqa: E731
    ch = h._children
    c = {}
    c["S1"] = And(T != NONE, root != NONE, h._parent(root) == NONE, h._tree(root) == T, Not(mem(root)), h.rank(root) == 0, h.alloc(T), h.alloc(root),
                  nbi != DNONE, nbd != DNONE, h.dalloc(nbi), h.dalloc(nbd), nbi != nbd, Or(cls_of(T) == CLS["Tree"], cls_of(T) == CLS["TypedTree"], cls_of(T) == CLS["FileSystemTree"]),
                  cls_of(root) == If(cls_of(T) == CLS["TypedTree"], CLS["_SystemRootTypedNode"], CLS["_SystemRootNode"]))
    attached = (lambda x: BoolVal(True)) if pending is None else (lambda x: x != pending)
    c["S2"] = ForAll([n], Implies(mem(n), And(inP(h._parent(n)), h._parent(n) != n, h.alloc(n), Implies(attached(n), And(0 <= h.pos(n), h.pos(n) < h.clen(h._parent(n)), h.child(h._parent(n), h.pos(n)) == n)),
                                               cls_of(n) == If(cls_of(T) == CLS["TypedTree"], CLS["TypedNode"], CLS["Node"]))), patterns=[h._parent(n), h._tree(n), h.pos(n)])
    c["S3"] = ForAll([p, i], Implies(And(inP(p), 0 <= i, i < h.clen(p)), And(mem(h.child(p, i)), h._parent(h.child(p, i)) == p, h.pos(h.child(p, i)) == i)), patterns=[h.litem(ch(p), i)])
    c["S4"] = ForAll([n], Implies(mem(n), And(h.rank(n) == h.rank(h._parent(n)) + 1, h.rank(n) >= 1)), patterns=[h.rank(n), h._parent(n)])
    c["S5"] = And(
        ForAll([p, q], Implies(And(inP(p), inP(q), p != q, ch(p) != LNONE), ch(p) != ch(q)), patterns=[z3.MultiPattern(ch(p), ch(q))]),
        ForAll([p], Implies(And(inP(p), ch(p) != LNONE), h.lalloc(ch(p))), patterns=[ch(p)]),
        ForAll([p, d], Implies(And(inP(p), ch(p) != LNONE, h.ddom(nbd, d)), ch(p) != h.dlst(nbd, d)), patterns=[z3.MultiPattern(ch(p), h.dlst(nbd, d))]),
    )
    c["S6"] = ForAll([n], Implies(And(mem(n), ch(n) != LNONE), h.llen(ch(n)) > 0), patterns=[ch(n)])
    c["S6r"] = Implies(ch(root) != LNONE, h.llen(ch(root)) >= 0)
    # I1: id index exact + injective  (mem is *defined* through the index, so only one direction + key facts)
    c["I1"] = And(
        ForAll([k], Implies(h.ddom(nbi, k), And(h.dref(nbi, k) != NONE, h._tree(h.dref(nbi, k)) == T, h._node_id(h.dref(nbi, k)) == k, v_truthy(k))), patterns=[h.dref(nbi, k), h.ddom(nbi, k)]),
    )
    # I2: clone lists exact (cpos = ghost position inside the clone list)
    c["I2"] = And(
        ForAll([d], Implies(h.ddom(nbd, d), And(h.dlst(nbd, d) != LNONE, h.lalloc(h.dlst(nbd, d)), h.llen(h.dlst(nbd, d)) > 0)), patterns=[h.dlst(nbd, d)]),
        ForAll([d, i], Implies(And(h.ddom(nbd, d), 0 <= i, i < h.llen(h.dlst(nbd, d))),
                               And(mem(h.litem(h.dlst(nbd, d), i)), h._data_id(h.litem(h.dlst(nbd, d), i)) == d, h.cpos(h.litem(h.dlst(nbd, d), i)) == i)), patterns=[h.litem(h.dlst(nbd, d), i)]),
        ForAll([n], Implies(mem(n), And(h.ddom(nbd, h._data_id(n)), 0 <= h.cpos(n), h.cpos(n) < h.llen(h.dlst(nbd, h._data_id(n))), h.litem(h.dlst(nbd, h._data_id(n)), h.cpos(n)) == n)), patterns=[h._data_id(n), h.cpos(n)]),
        ForAll([d, e], Implies(And(h.ddom(nbd, d), h.ddom(nbd, e), d != e), h.dlst(nbd, d) != h.dlst(nbd, e)), patterns=[z3.MultiPattern(h.dlst(nbd, d), h.dlst(nbd, e))]),
    )
    # data ids are ints or strs (DataIdType): `==` on them is value identity
    c["D"] = ForAll([n], Implies(mem(n), Or(v_is_int(h._data_id(n)), v_is_str(h._data_id(n)))), patterns=[h._data_id(n)])
    c["U"] = ForAll([p, i, j], Implies(And(inP(p), 0 <= i, i < j, j < h.clen(p)), h._data_id(h.child(p, i)) != h._data_id(h.child(p, j))), patterns=[z3.MultiPattern(h.litem(ch(p), i), h.litem(ch(p), j))])
    # typed trees: every member has a str kind different from ANY_KIND
    c["K"] = ForAll([n], Implies(And(mem(n), cls_of(T) == CLS["TypedTree"], attached(n)), And(h._kind(n) != ANY_KIND, h._kind(n) != VNONE, v_is_str(h._kind(n)))), patterns=[h._kind(n)])
    return c


def wf(h: Heap, T, tag=None, only=None, pending=None):
    cs = wf_clauses(h, T, tag, pending)
    return And(*[v for k, v in cs.items() if only is None or k in only])


WF_STRUCT = ("S1", "S2", "S3", "S4", "S5", "S6", "S6r", "K", "D")
WF_INDEX = ("I1", "I2")
WF_PROP = {"S1": "C01", "S2": "C01", "S3": "C01", "S4": "C01", "S5": "C01", "S6": "C01", "S6r": "C01", "K": "C01", "I1": "C01", "I2": "C02", "U": "C03", "D": "C02"}


CTRL = ("SkipBranch", "SelectBranch", "StopTraversal", "StopIteration")
exc_value = Function("exc_value", Val, Val)  # .value of an exception instance held as opaque value
exc_and_self = Function("exc_and_self", Val, Val)


def clsobj(name: str):
    return Const(f"clsobj!{name}", Val)


def exc_pred(name: str):
    """v is an *instance* of exception class `name` (exact class for the control classes)."""
    return Function(f"val_is_exc_{name}", Val, B)


def ctrl_axioms():
    """Opaque callback results that are control classes / instances (DESIGN §3.2 'User callbacks')."""
    v = Const("v!ctl", Val)
    out = [z3.Distinct(*[clsobj(n) for n in CTRL])]
    for n in CTRL:
        c = clsobj(n)
        out += [Not(v_is_int(c)), Not(v_is_str(c)), c != VNONE, v_truthy(c), Not(Function("val_is_other_class", Val, B)(c))]
        out.append(ForAll([v], Implies(exc_pred(n)(v), And(Not(v_is_int(v)), Not(v_is_str(v)), v != VNONE, v_truthy(v), *[v != clsobj(m) for m in CTRL], *[Not(exc_pred(m)(v)) for m in CTRL if m != n])), patterns=[exc_pred(n)(v)]))
        for m in CTRL:
            out.append(Not(exc_pred(m)(c)))
    return out


def oracle_fn(sig: str):
    """Uninterpreted pure function standing for a user callback with argument kinds `sig`
    ('r' = object reference, 'v' = value): oracle(callback value, args...) -> Val."""
    return Function(f"oracle_{sig}", *([Val] + [Ref if k == "r" else Val for k in sig] + [Val]))


SPEC_AXIOMS: list = []
_UPK: dict = {}


def upk(h: Heap):
    """k-th ancestor in heap h:  upk(n,0) = n,  upk(n,k+1) = parent(upk(n,k)).
    One function per _parent symbol; the unfolding axiom is triggered by parent(upk(n,k)),
    i.e. only when the code (or a spec) actually steps to the parent -- no matching loop."""
    key = h.syms["_parent"].name()
    if key not in _UPK:
        f = Function(f"upk<{key}>", Ref, I, Ref)
        n, k = Const(f"n!upk{len(_UPK)}", Ref), Const(f"k!upk{len(_UPK)}", I)
        SPEC_AXIOMS.append(ForAll([n], f(n, 0) == n, patterns=[f(n, 0)]))
        SPEC_AXIOMS.append(ForAll([n, k], Implies(k >= 0, f(n, k + 1) == h._parent(f(n, k))), patterns=[h._parent(f(n, k))]))
        SPEC_AXIOMS.append(ForAll([n], f(n, 1) == h._parent(n), patterns=[f(n, 1)]))
        _UPK[key] = f
    return _UPK[key]


_ANC: dict = {}


def anc_chain(h: Heap):
    """E(c, a): walking up from c (inclusive) through *non-root* nodes meets a.
         E(c, a)  ==  c != None  and  parent(c) != None  and  (c == a  or  E(parent(c), a))
    `x is a proper descendant of a`  ==  E(parent(x), a)   (what Node.is_descendant_of computes).
    The unfolding is triggered by the pair (E(c,a), parent(c)), so it unfolds one level per
    parent step that actually occurs -- no matching loop.  Well-founded on rank (wf.S4)."""
    key = h.syms["_parent"].name()
    if key not in _ANC:
        f = Function(f"E<{key}>", Ref, Ref, B)
        c, a = Const(f"c!anc{len(_ANC)}", Ref), Const(f"a!anc{len(_ANC)}", Ref)
        SPEC_AXIOMS.append(ForAll([c, a], f(c, a) == And(c != NONE, h._parent(c) != NONE, Or(c == a, f(h._parent(c), a))), patterns=[z3.MultiPattern(f(c, a), h._parent(c))]))
        SPEC_AXIOMS.append(ForAll([a], Not(f(NONE, a)), patterns=[f(NONE, a)]))
        _ANC[key] = f
    return _ANC[key]


def is_desc(h: Heap, x, a):
    """x is a direct or indirect child of the (non-root) node a."""
    return anc_chain(h)(h._parent(x), a)


_PRE: dict = {}


def pre_post(h: Heap):
    """Recursive spec sequences of the depth-first orders over the child lists of heap h:
         PreL(n,0) = []            PreL(n,i+1) = PreL(n,i) ++ [child(n,i)] ++ Pre(child(n,i))
         PostL(n,0) = []           PostL(n,i+1) = PostL(n,i) ++ Post(child(n,i)) ++ [child(n,i)]
         Pre(n) = PreL(n, clen(n)) Post(n) = PostL(n, clen(n))"""
    key = (h.syms["_children"].name(), h.syms["llen"].name(), h.syms["litem"].name())
    if key not in _PRE:
        k = len(_PRE)
        Pre, PreL = Function(f"Pre<{k}>", Ref, PSeq), Function(f"PreL<{k}>", Ref, I, PSeq)
        Post, PostL = Function(f"Post<{k}>", Ref, PSeq), Function(f"PostL<{k}>", Ref, I, PSeq)
        n, i = Const(f"n!pre{k}", Ref), Const(f"i!pre{k}", I)
        SPEC_AXIOMS.extend([
            ForAll([n], PreL(n, 0) == Empty, patterns=[PreL(n, 0)]),
            ForAll([n, i], Implies(And(0 <= i, i < h.clen(n)), PreL(n, i + 1) == App(App(PreL(n, i), Single(h.child(n, i))), Pre(h.child(n, i)))), patterns=[PreL(n, i)]),
            ForAll([n], Pre(n) == PreL(n, h.clen(n)), patterns=[Pre(n)]),
            ForAll([n], PostL(n, 0) == Empty, patterns=[PostL(n, 0)]),
            ForAll([n, i], Implies(And(0 <= i, i < h.clen(n)), PostL(n, i + 1) == App(App(PostL(n, i), Post(h.child(n, i))), Single(h.child(n, i)))), patterns=[PostL(n, i)]),
            ForAll([n], Post(n) == PostL(n, h.clen(n)), patterns=[Post(n)]),
        ])
        _PRE[key] = (Pre, PreL, Post, PostL)
    return _PRE[key]


_LEVEL: dict = {}


def level_spec(h: Heap):
    """Spec functions of the breadth-first orders over the child lists of heap h:
         Kids(n)            the children of n as a sequence
         CML(s, i)          Kids(s[0]) ++ ... ++ Kids(s[i-1])
         Lvl(n, 0) = Kids(n)     Lvl(n, j+1) = CML(Lvl(n,j), len(Lvl(n,j)))        -- the nodes j+1 levels below n
         RevAt(r, t, 0) = r      RevAt(r, t, j+1) = not RevAt(r,t,j) if t else RevAt(r,t,j)   -- direction of level j
         LOP(n, 0, r, t) = []    LOP(n, j+1, r, t) = LOP(n,j,r,t) ++ (reversed(Lvl(n,j)) if RevAt(r,t,j) else Lvl(n,j))
    The unfolding axioms of Lvl / RevAt / LOP are triggered by the (j+1) instance only: no matching loop."""
    key = (h.syms["_children"].name(), h.syms["llen"].name(), h.syms["litem"].name())
    if key not in _LEVEL:
        k = len(_LEVEL)
        Kids = Function(f"Kids<{k}>", Ref, PSeq)
        CML = Function(f"CML<{k}>", PSeq, I, PSeq)
        Lvl = Function(f"Lvl<{k}>", Ref, I, PSeq)
        RevAt = Function("RevAt", B, B, I, B)
        LOP = Function(f"LOP<{k}>", Ref, I, B, B, PSeq)
        n, i, j = Const(f"n!lv{k}", Ref), Const(f"i!lv{k}", I), Const(f"j!lv{k}", I)
        s = Const(f"s!lv{k}", PSeq)
        r, t = Const(f"r!lv{k}", B), Const(f"t!lv{k}", B)
        SPEC_AXIOMS.extend([
            ForAll([n], Len(Kids(n)) == h.clen(n), patterns=[Kids(n)]),
            ForAll([n, i], Implies(And(0 <= i, i < h.clen(n)), At(Kids(n), i) == h.child(n, i)), patterns=[At(Kids(n), i)]),
            ForAll([s], CML(s, 0) == Empty, patterns=[CML(s, 0)]),
            ForAll([s, i], Implies(And(0 <= i, i < Len(s)), CML(s, i + 1) == App(CML(s, i), Kids(At(s, i)))), patterns=[CML(s, i + 1)]),
            ForAll([n], Lvl(n, 0) == Kids(n), patterns=[Lvl(n, 0)]),
            ForAll([n, j], Implies(j >= 0, Lvl(n, j + 1) == CML(Lvl(n, j), Len(Lvl(n, j)))), patterns=[Lvl(n, j + 1)]),
            ForAll([n, r, t], LOP(n, 0, r, t) == Empty, patterns=[LOP(n, 0, r, t)]),
            ForAll([n, j, r, t], Implies(j >= 0, LOP(n, j + 1, r, t) == App(LOP(n, j, r, t), If(RevAt(r, t, j), Rev(Lvl(n, j)), Lvl(n, j)))), patterns=[LOP(n, j + 1, r, t)]),
        ])
        if k == 0:
            SPEC_AXIOMS.extend([
                ForAll([r, t], RevAt(r, t, 0) == r, patterns=[RevAt(r, t, 0)]),
                ForAll([r, t, j], Implies(j >= 0, RevAt(r, t, j + 1) == If(t, Not(RevAt(r, t, j)), RevAt(r, t, j))), patterns=[RevAt(r, t, j + 1)]),
            ])
        _LEVEL[key] = (Kids, CML, Lvl, RevAt, LOP)
    return _LEVEL[key]


_LEAFCNT: dict = {}


def leaf_count(h: Heap):
    """LeafCnt(s, i): number of elements among the first i of s that have no children:
         LeafCnt(s,0) = 0    LeafCnt(s,i+1) = LeafCnt(s,i) + (1 if clen(s[i]) == 0 else 0)"""
    key = (h.syms["_children"].name(), h.syms["llen"].name())
    if key not in _LEAFCNT:
        k = len(_LEAFCNT)
        F = Function(f"LeafCnt<{k}>", PSeq, I, I)
        s, i = Const(f"s!lc{k}", PSeq), Const(f"i!lc{k}", I)
        SPEC_AXIOMS.extend([
            ForAll([s], F(s, 0) == 0, patterns=[F(s, 0)]),
            ForAll([s, i], Implies(And(0 <= i, i < Len(s)), F(s, i + 1) == F(s, i) + If(h.clen(At(s, i)) == 0, 1, 0)), patterns=[F(s, i + 1)]),
        ])
        _LEAFCNT[key] = F
    return _LEAFCNT[key]


_VISIT: dict = {}


def visit_spec(h: Heap):
    """Grammar of the event trace of the depth-first visits, as *introduction rules* of four relations (least fixed point: what
    is derivable from them is a visit in the documented order).  cb: callback, n: node, [i, j): index range of the trace,
    st: 0 = ran to completion, EV_STOP / EV_ERR = ended by that event.
      VKp(cb,n,k,i,m)   the children 0..k-1 of n were visited in pre-order, completely, by the events [i,m)
      VPre(cb,n,i,j,st) the events [i,j) are the pre-order visit of the branch n: n first; a skip answer at n ends it; a
                        stop / error anywhere ends it with that status
      VKq / VPost       the same for post-order: children first, then the node; a skip answer has no effect there"""
    key = (h.syms["_children"].name(), h.syms["llen"].name(), h.syms["litem"].name())
    if key in _VISIT:
        return _VISIT[key]
    k0 = len(_VISIT)
    VPre = Function(f"VPre<{k0}>", Val, Ref, I, I, I, B)
    VKp = Function(f"VKp<{k0}>", Val, Ref, I, I, I, B)
    VPost = Function(f"VPost<{k0}>", Val, Ref, I, I, I, B)
    VKq = Function(f"VKq<{k0}>", Val, Ref, I, I, I, B)
    # children segments *with a status*: all children visited (0), or child k ended the visit with st
    VKpS = Function(f"VKpS<{k0}>", Val, Ref, I, I, I, B)
    VKqS = Function(f"VKqS<{k0}>", Val, Ref, I, I, I, B)
    cb, n = Const(f"cb!v{k0}", Val), Const(f"n!v{k0}", Ref)
    i, j, m, k, st, c, i1 = (Const(f"{x}!v{k0}", I) for x in ("i", "j", "m", "k", "st", "c", "i1"))
    bad = lambda s: Or(s == EV_STOP, s == EV_ERR)  # noqa: E731
    MP = MultiPattern
    # patterns hold variables only (no arithmetic, no If): successor indices and child counts are named by equations
    SPEC_AXIOMS.extend([
        # ---- pre-order
        ForAll([cb, n, i], VKp(cb, n, 0, i, i), patterns=[VKp(cb, n, 0, i, i)]),
        ForAll([cb, n, k, i, m, j], Implies(And(VKp(cb, n, k, i, m), 0 <= k, k < h.clen(n), VPre(cb, h.child(n, k), m, j, ST_DONE)), VKp(cb, n, k + 1, i, j)),
               patterns=[MP(VKp(cb, n, k, i, m), VPre(cb, h.child(n, k), m, j, ST_DONE))]),
        ForAll([cb, n, i, j], Implies(And(TN(cb, i) == n, TK(cb, i) == EV_SKIP, j == i + 1), VPre(cb, n, i, j, ST_DONE)), patterns=[VPre(cb, n, i, j, ST_DONE)]),
        ForAll([cb, n, i, j, st], Implies(And(TN(cb, i) == n, TK(cb, i) == st, bad(st), j == i + 1), VPre(cb, n, i, j, st)), patterns=[VPre(cb, n, i, j, st)]),
        ForAll([cb, n, i, j, c, i1], Implies(And(TN(cb, i) == n, TK(cb, i) == EV_CONT, i1 == i + 1, c == h.clen(n), VKp(cb, n, c, i1, j)), VPre(cb, n, i, j, ST_DONE)),
               patterns=[MP(VPre(cb, n, i, j, ST_DONE), VKp(cb, n, c, i1, j))]),
        ForAll([cb, n, k, i, i1, m, j, st], Implies(And(TN(cb, i) == n, TK(cb, i) == EV_CONT, i1 == i + 1, VKp(cb, n, k, i1, m), 0 <= k, k < h.clen(n), VPre(cb, h.child(n, k), m, j, st), bad(st)), VPre(cb, n, i, j, st)),
               patterns=[MP(VPre(cb, n, i, j, st), VKp(cb, n, k, i1, m), VPre(cb, h.child(n, k), m, j, st))]),
        # (a leaf needs no child segment: derived rules, stated so that they fire on the goal alone)
        ForAll([cb, n, i, j], Implies(And(h.clen(n) == 0, TN(cb, i) == n, TK(cb, i) == EV_CONT, j == i + 1), VPre(cb, n, i, j, ST_DONE)), patterns=[VPre(cb, n, i, j, ST_DONE)]),
        ForAll([cb, n, i, j], Implies(And(h.clen(n) == 0, TN(cb, i) == n, Or(TK(cb, i) == EV_CONT, TK(cb, i) == EV_SKIP), j == i + 1), VPost(cb, n, i, j, ST_DONE)), patterns=[VPost(cb, n, i, j, ST_DONE)]),
        ForAll([cb, n, i, j, st], Implies(And(h.clen(n) == 0, TN(cb, i) == n, TK(cb, i) == st, bad(st), j == i + 1), VPost(cb, n, i, j, st)), patterns=[VPost(cb, n, i, j, st)]),
        ForAll([cb, n, i, j, c], Implies(And(VKp(cb, n, c, i, j), c == h.clen(n)), VKpS(cb, n, i, j, ST_DONE)), patterns=[MP(VKpS(cb, n, i, j, ST_DONE), VKp(cb, n, c, i, j))]),
        ForAll([cb, n, k, i, m, j, st], Implies(And(VKp(cb, n, k, i, m), 0 <= k, k < h.clen(n), VPre(cb, h.child(n, k), m, j, st), bad(st)), VKpS(cb, n, i, j, st)),
               patterns=[MP(VKpS(cb, n, i, j, st), VKp(cb, n, k, i, m), VPre(cb, h.child(n, k), m, j, st))]),
        ForAll([cb, n, i, j, c], Implies(And(VKq(cb, n, c, i, j), c == h.clen(n)), VKqS(cb, n, i, j, ST_DONE)), patterns=[MP(VKqS(cb, n, i, j, ST_DONE), VKq(cb, n, c, i, j))]),
        ForAll([cb, n, k, i, m, j, st], Implies(And(VKq(cb, n, k, i, m), 0 <= k, k < h.clen(n), VPost(cb, h.child(n, k), m, j, st), bad(st)), VKqS(cb, n, i, j, st)),
               patterns=[MP(VKqS(cb, n, i, j, st), VKq(cb, n, k, i, m), VPost(cb, h.child(n, k), m, j, st))]),
        # ---- post-order
        ForAll([cb, n, i], VKq(cb, n, 0, i, i), patterns=[VKq(cb, n, 0, i, i)]),
        ForAll([cb, n, k, i, m, j], Implies(And(VKq(cb, n, k, i, m), 0 <= k, k < h.clen(n), VPost(cb, h.child(n, k), m, j, ST_DONE)), VKq(cb, n, k + 1, i, j)),
               patterns=[MP(VKq(cb, n, k, i, m), VPost(cb, h.child(n, k), m, j, ST_DONE))]),
        ForAll([cb, n, i, m, j, c], Implies(And(VKq(cb, n, c, i, m), c == h.clen(n), TN(cb, m) == n, Or(TK(cb, m) == EV_CONT, TK(cb, m) == EV_SKIP), j == m + 1), VPost(cb, n, i, j, ST_DONE)),
               patterns=[MP(VPost(cb, n, i, j, ST_DONE), VKq(cb, n, c, i, m))]),
        ForAll([cb, n, i, m, j, c, st], Implies(And(VKq(cb, n, c, i, m), c == h.clen(n), TN(cb, m) == n, TK(cb, m) == st, bad(st), j == m + 1), VPost(cb, n, i, j, st)),
               patterns=[MP(VPost(cb, n, i, j, st), VKq(cb, n, c, i, m))]),
        ForAll([cb, n, k, i, m, j, st], Implies(And(VKq(cb, n, k, i, m), 0 <= k, k < h.clen(n), VPost(cb, h.child(n, k), m, j, st), bad(st)), VPost(cb, n, i, j, st)),
               patterns=[MP(VPost(cb, n, i, j, st), VKq(cb, n, k, i, m), VPost(cb, h.child(n, k), m, j, st))]),
    ])
    _VISIT[key] = (VPre, VKp, VPost, VKq, VKpS, VKqS)
    return _VISIT[key]


_HEIGHT: dict = {}


def height_spec(h: Heap):
    """(Ht, HtL): Ht(n) = 0 for a node without children, else HtL(n, clen(n)) with
         HtL(n,1) = 1 + Ht(child(n,0))      HtL(n,i+1) = max(HtL(n,i), 1 + Ht(child(n,i)))   (1 <= i < clen(n))
    i.e. the longest downward path.  Nothing is said about its sign: Ht >= 0 holds on finite trees by induction, which the
    solver cannot do -- clauses that need it say max(0, Ht)."""
    key = (h.syms["_children"].name(), h.syms["llen"].name(), h.syms["litem"].name())
    if key not in _HEIGHT:
        k = len(_HEIGHT)
        Ht = Function(f"Ht<{k}>", Ref, I)
        HtL = Function(f"HtL<{k}>", Ref, I, I)
        n, i = Const(f"n!ht{k}", Ref), Const(f"i!ht{k}", I)
        SPEC_AXIOMS.extend([
            ForAll([n], Ht(n) == If(h.clen(n) == 0, 0, HtL(n, h.clen(n))), patterns=[Ht(n)]),
            ForAll([n], Implies(h.clen(n) >= 1, HtL(n, 1) == 1 + Ht(h.child(n, 0))), patterns=[HtL(n, 1)]),
            ForAll([n, i], Implies(And(1 <= i, i < h.clen(n)), HtL(n, i + 1) == If(HtL(n, i) >= 1 + Ht(h.child(n, i)), HtL(n, i), 1 + Ht(h.child(n, i)))), patterns=[HtL(n, i + 1)]),
        ])
        _HEIGHT[key] = (Ht, HtL)
    return _HEIGHT[key]


_FILT: dict = {}


def filt_kind(h: Heap):
    """FiltK(s, kind, i): the sub-sequence of the first i elements of s whose kind equals `kind` (order kept):
         FiltK(s,kd,0) = []      FiltK(s,kd,i+1) = FiltK(s,kd,i) ++ [s[i]]  if kind(s[i]) == kd  else  FiltK(s,kd,i)"""
    key = h.syms["_kind"].name()
    if key not in _FILT:
        k = len(_FILT)
        F = Function(f"FiltK<{k}>", PSeq, Val, I, PSeq)
        s, kd, i = Const(f"s!flt{k}", PSeq), Const(f"kd!flt{k}", Val), Const(f"i!flt{k}", I)
        SPEC_AXIOMS.extend([
            ForAll([s, kd], F(s, kd, 0) == Empty, patterns=[F(s, kd, 0)]),
            ForAll([s, kd, i], Implies(And(0 <= i, i < Len(s)), F(s, kd, i + 1) == If(h._kind(At(s, i)) == kd, App(F(s, kd, i), Single(At(s, i))), F(s, kd, i))), patterns=[F(s, kd, i)]),
        ])
        _FILT[key] = F
    return _FILT[key]


_FILTCB: list = []


def filt_cb():
    """FiltCb(s, cb, i): the sub-sequence of the first i elements of s for which the user callback cb is true:
         FiltCb(s,cb,0) = []   FiltCb(s,cb,i+1) = FiltCb(s,cb,i) ++ [s[i]]  if truthy(cb(s[i]))  else  FiltCb(s,cb,i)
    (cb is a pure oracle of its argument, DESIGN §8.6)"""
    if not _FILTCB:
        F = Function("FiltCb", PSeq, Val, I, PSeq)
        s, cb, i = Const("s!fcb", PSeq), Const("cb!fcb", Val), Const("i!fcb", I)
        orc = oracle_fn("r")
        SPEC_AXIOMS.extend([
            ForAll([s, cb], F(s, cb, 0) == Empty, patterns=[F(s, cb, 0)]),
            ForAll([s, cb, i], Implies(And(0 <= i, i < Len(s)), F(s, cb, i + 1) == If(v_truthy(orc(cb, At(s, i))), App(F(s, cb, i), Single(At(s, i))), F(s, cb, i))), patterns=[F(s, cb, i)]),
        ])
        _FILTCB.append(F)
    return _FILTCB[0]


def prelude():
    return val_axioms() + seq_axioms() + ctrl_axioms() + SPEC_AXIOMS
