"""Expression evaluation of the symbolic executor (mixin)."""
from __future__ import annotations

import ast

import z3
from z3 import And, If, Not, Or

from . import logic as L
from .values import SV, BoolV, ExcV, IntV, NoneV, Path, RefV, Unsupported

STR_CONSTS: dict[str, object] = {}


def str_const(s: str):
    """Python string literal as a Val constant (distinct literals are distinct values)."""
    if s not in STR_CONSTS:
        STR_CONSTS[s] = z3.Const(f"str!{len(STR_CONSTS)}", L.Val)
    return STR_CONSTS[s]


def str_axioms():
    cs = list(STR_CONSTS.items())
    out = []
    if len(cs) > 1:
        out.append(z3.Distinct(*[c for _, c in cs]))
    for s, c in cs:
        out += [L.v_is_str(c), Not(L.v_is_int(c)), L.v_truthy(c) == bool(s), c != L.VNONE, c != L.ANY_KIND]
    return out


FIELD_CLS = {"_parent": "Node", "_tree": "Tree", "_root": "Node", "_lock": "Lock"}
ENUM_ITERMETHOD = {"PRE_ORDER": "pre", "POST_ORDER": "post", "LEVEL_ORDER": "level", "LEVEL_ORDER_RTL": "level_rtl", "ZIGZAG": "zigzag", "ZIGZAG_RTL": "zigzag_rtl", "RANDOM_ORDER": "random", "UNORDERED": "unordered"}


class ExprMixin:
    # ------------------------------------------------------------------ coercions
    def to_sort(self, v: SV, sort):
        """Term of `sort` for value v (None literal becomes the NONE of that sort)."""
        if sort == L.Ref:
            if v.tag == "none":
                return L.NONE
            if v.tag == "ref":
                return v.z
        elif sort == L.LRef:
            if v.tag == "none":
                return L.LNONE
            if v.tag == "lref":
                return v.z
        elif sort == L.DRef:
            if v.tag == "none":
                return L.DNONE
            if v.tag == "dref":
                return v.z
        elif sort == L.Val:
            if v.tag == "none":
                return L.VNONE
            if v.tag == "val":
                return v.z
            if v.tag == "str":
                return str_const(v.z)
            if v.tag == "int":
                return L.v_int(v.z)
            if v.tag == "bool":
                return If(v.z, L.V_TRUE, L.V_FALSE)
        elif sort == L.I:
            if v.tag == "int":
                return v.z
            if v.tag == "bool":
                return If(v.z, 1, 0)
        elif sort == L.B:
            if v.tag == "bool":
                return v.z
        raise Unsupported(f"cannot coerce {v.tag} to {sort}")

    def truthy(self, v: SV, p: Path):
        t = v.tag
        if t == "bool":
            return v.z
        if t == "none":
            return z3.BoolVal(False)
        if t == "int":
            return v.z != 0
        if t == "ref":
            if v.cls == "Tree":  # Tree.__len__: empty trees are falsy
                return And(v.z != L.NONE, p.heap.dcard(p.heap._node_by_id(v.z)) > 0)
            return v.z != L.NONE
        if t == "lref":
            return And(v.z != L.LNONE, p.heap.llen(v.z) > 0)
        if t == "dref":
            return And(v.z != L.DNONE, p.heap.dcard(v.z) > 0)
        if t == "val":
            return And(v.z != L.VNONE, L.v_truthy(v.z))
        if t == "str":
            return z3.BoolVal(bool(v.z))
        if t == "tuple":
            return z3.BoolVal(len(v.z) > 0)
        if t in ("func", "cls", "method"):
            return z3.BoolVal(True)
        if t == "pseq":
            return L.Len(v.z) > 0
        raise Unsupported(f"truthiness of {t}")

    # ------------------------------------------------------------------ comparison helpers
    def is_same(self, a: SV, b: SV):
        """`a is b`."""
        if a.tag == "none" and b.tag == "none":
            return z3.BoolVal(True)
        if a.tag == "none" or b.tag == "none":
            o = b if a.tag == "none" else a
            if o.tag == "ref":
                return o.z == L.NONE
            if o.tag == "lref":
                return o.z == L.LNONE
            if o.tag == "dref":
                return o.z == L.DNONE
            if o.tag == "val":
                return o.z == L.VNONE
            return z3.BoolVal(False)
        if a.tag == b.tag == "val":
            # opaque objects: term equality is identity.  Strings / ints: two equal values need not be
            # the same object, so `is` is an uninterpreted relation that merely implies equality.
            valueish = Or(L.v_is_str(a.z), L.v_is_int(a.z), L.v_is_str(b.z), L.v_is_int(b.z))
            return If(valueish, L.v_same(a.z, b.z), a.z == b.z)
        if a.tag == b.tag:
            if a.tag in ("ref", "lref", "dref", "bool", "int"):
                return a.z == b.z
            if a.tag in ("str", "cls"):
                return z3.BoolVal(a.z == b.z)
            if a.tag == "func":
                return z3.BoolVal(a.z is b.z)
        if {a.tag, b.tag} == {"val", "str"}:
            return self.to_sort(a, L.Val) == self.to_sort(b, L.Val)
        if {a.tag, b.tag} == {"val", "bool"}:  # `res is False` on an opaque callback result
            return self.to_sort(a, L.Val) == self.to_sort(b, L.Val)
        if {a.tag, b.tag} == {"val", "cls"}:
            v, c = (a, b) if a.tag == "val" else (b, a)
            return v.z == self.class_as_val(c.z)
        return z3.BoolVal(False)

    def class_as_val(self, name: str):
        return L.clsobj(name)

    def py_eq(self, a: SV, b: SV, p: Path):
        """`a == b`."""
        if a.tag == "none" or b.tag == "none":
            o = b if a.tag == "none" else a
            if o.tag == "ref" and o.cls != "Tree":  # Node.__eq__(None): data == None
                return If(o.z == L.NONE, True, p.heap._data(o.z) == L.VNONE)
            return self.is_same(a, b)
        nums = ("int", "bool")
        if a.tag in nums and b.tag in nums:
            return self.to_sort(a, L.I) == self.to_sort(b, L.I)
        if a.tag == "ref" and b.tag == "ref":
            if a.cls == "Tree" or b.cls == "Tree":
                raise Unsupported("Tree.__eq__ raises NotImplementedError")
            # Node.__eq__: compares the embedded data
            return Or(a.z == b.z, L.v_eq(p.heap._data(a.z), p.heap._data(b.z)))
        if a.tag == "ref" or b.tag == "ref":
            n, o = (a, b) if a.tag == "ref" else (b, a)
            if o.tag in ("val", "str", "int", "bool"):
                return L.v_eq(p.heap._data(n.z), self.to_sort(o, L.Val))
            return z3.BoolVal(False)
        vals = ("val", "str", "int", "bool")
        if a.tag in vals and b.tag in vals:
            if a.tag == "str" and b.tag == "str":
                return z3.BoolVal(a.z == b.z)
            return L.v_eq(self.to_sort(a, L.Val), self.to_sort(b, L.Val))
        if a.tag == "cls" and b.tag == "cls":
            return z3.BoolVal(a.z == b.z)
        if a.tag == "enum" and b.tag == "enum":
            return z3.BoolVal(a.z == b.z)
        if a.tag == "cls" or b.tag == "cls":  # e.g. `x == int`
            c, o = (a, b) if a.tag == "cls" else (b, a)
            if o.tag == "val":
                return o.z == self.class_as_val(c.z)
            return z3.BoolVal(False)
        if a.tag in ("lref", "dref") and a.tag == b.tag:
            raise Unsupported("container ==")
        return z3.BoolVal(False)

    # ------------------------------------------------------------------ expressions
    def ev(self, e, p: Path, R: list) -> list[tuple[Path, SV]]:
        """Evaluate e on path p.  Normal outcomes are returned; raising outcomes are appended
        to R as (Path, ExcV)."""
        m = getattr(self, "ev_" + type(e).__name__, None)
        if m is None:
            raise Unsupported(f"expression {type(e).__name__} at line {getattr(e, 'lineno', '?')}")
        return m(e, p, R)

    def ev_seq(self, es, p, R):
        """Evaluate expressions left to right; returns [(path, [values])]."""
        outs = [(p, [])]
        for e in es:
            nxt = []
            for q, vs in outs:
                for q2, v in self.ev(e, q, R):
                    nxt.append((q2, vs + [v]))
            outs = nxt
        return outs

    def ev_Constant(self, e, p, R):
        v = e.value
        if v is None:
            return [(p, NoneV)]
        if isinstance(v, bool):
            return [(p, BoolV(v))]
        if isinstance(v, int):
            return [(p, IntV(v))]
        if isinstance(v, str):
            return [(p, SV("str", v))]
        raise Unsupported(f"constant {v!r}")

    def ev_Name(self, e, p, R):
        if e.id in p.env:
            return [(p, p.env[e.id])]
        g = self.global_name(e.id)
        if g is not None:
            return [(p, g)]
        raise Unsupported(f"unknown name {e.id} (line {e.lineno})")

    def global_name(self, name):
        if name in ("ANY_KIND",):
            return SV("val", L.ANY_KIND)
        if name == "ROOT_DATA_ID":
            return SV("val", L.ROOT_DATA_ID)
        if name == "ROOT_NODE_ID":
            return IntV(0)
        if name == "_DELETED_TAG":
            return SV("val", L.DELETED_TAG)
        if name in ("int", "str", "bool", "list", "tuple", "dict", "Node", "TypedNode", "Tree", "TypedTree", "SkipBranch", "StopTraversal", "SelectBranch", "StopIteration", "IterationControl",
                    "ValueError", "KeyError", "AttributeError", "NotImplementedError", "UniqueConstraintError", "AmbiguousMatchError", "RuntimeError", "AssertionError", "TypeError", "IndexError", "Path", "IterMethod", "DictWrapper", "Randomizer", "RuntimeWarning", "DeprecationWarning"):
            return SV("cls", name)
        if name in ("warnings", "json", "zipfile", "io", "random"):
            return SV("extmod", name)
        if name == "attrgetter":  # operator.attrgetter("x"): a pure callable of one argument
            return SV("func", ("builtin", "attrgetter"))
        fq = self.resolve_global_function(name)
        if fq:
            return SV("func", ("repo", fq))
        if name in ("len", "bool", "isinstance", "id", "hash", "callable", "getattr", "hasattr", "enumerate", "reversed", "range", "filter", "sorted", "min", "max", "iter", "next", "print", "type", "issubclass"):
            return SV("func", ("builtin", name))
        return None

    def ev_Attribute(self, e, p, R):
        # IterMethod.X
        if isinstance(e.value, ast.Name) and e.value.id == "IterMethod" and "IterMethod" not in p.env:
            return [(p, SV("enum", ENUM_ITERMETHOD[e.attr]))]
        out = []
        for q, o in self.ev(e.value, p, R):
            out += self.get_attr(o, e.attr, q, R, e)
        return out

    def get_attr(self, o: SV, attr: str, p: Path, R, node):
        line = getattr(node, "lineno", 0)
        if o.tag == "none":
            R.append((p, ExcV("AttributeError", site=f"L{line}")))
            return []
        if o.tag == "enum" and attr == "value":
            return [(p, SV("str", o.z))]
        if o.tag == "exc":
            if attr in ("value", "and_self"):
                return [(p, o.extra.get(attr, NoneV))]
        if o.tag == "val" and o.extra and attr in o.extra:  # structured opaque values (exception instances)
            return [(p, o.extra[attr])]
        if o.tag != "ref":
            return self.get_attr_other(o, attr, p, R, node)
        # attribute access on None is never intended: a safety obligation, then assumed
        self.oblige(p, f"L{line}/attr-on-None:{attr}", o.z != L.NONE, kind="safety")
        p.assume(o.z != L.NONE)
        h = p.heap
        if attr in L.FIELD_SORTS:
            z = h.f(attr)(o.z)
            srt = L.FIELD_SORTS[attr][0]
            if srt == L.Ref:
                return [(p, RefV(z, FIELD_CLS.get(attr)))]
            if srt == L.LRef:
                return [(p, SV("lref", z))]
            if srt == L.DRef:
                return [(p, SV("dref", z, extra={"_node_by_id": "ref", "_nodes_by_data_id": "lref"}.get(attr, "val")))]
            if srt == L.Val:
                return [(p, SV("val", z, extra={"factory": True} if attr == "_node_factory" else None))]
            if srt == L.B:
                return [(p, BoolV(z))]
        if attr == "__class__":
            return [(p, SV("clsof", o.z, o.cls))]
        # property / method of a repo class
        return self.get_member(o, attr, p, R, node)

    def get_attr_other(self, o, attr, p, R, node):
        if o.tag == "super":
            recv = o.z
            mro = self.src.mro(self.node_class_for(recv, p))
            # continue the lookup after the class that defines the function under verification
            own = self.qual.split(".")[-2]
            rest = mro[mro.index(own) + 1:] if own in mro else mro[1:]
            for c in rest:
                defcls, fd = self.src.class_member(c, attr)
                if fd is not None:
                    qual = self.src.qualname(defcls, fd)
                    if self.src.is_property(fd):
                        return self.call_repo(qual, recv, [], {}, p, R, node)
                    return [(p, SV("bound", (recv, defcls, qual)))]
            raise Unsupported(f"super().{attr}")
        if o.tag == "val" and attr == "value":
            return [(p, SV("val", L.exc_value(o.z)))]
        if o.tag == "val" and attr == "and_self":
            return [(p, SV("val", L.exc_and_self(o.z)))]
        if o.tag == "extmod":
            return [(p, SV("extfn", (o.z, attr)))]
        if o.tag in ("lref", "dref", "cls", "str", "val", "func", "clsof"):
            return [(p, SV("method", (o, attr)))]
        raise Unsupported(f"attribute {attr} of {o.tag} (line {getattr(node, 'lineno', '?')})")

    def ev_UnaryOp(self, e, p, R):
        out = []
        for q, v in self.ev(e.operand, p, R):
            if isinstance(e.op, ast.Not):
                out.append((q, BoolV(Not(self.truthy(v, q)))))
            elif isinstance(e.op, ast.USub):
                out.append((q, IntV(-self.to_sort(v, L.I))))
            else:
                raise Unsupported("unary op")
        return out

    def ev_BinOp(self, e, p, R):
        out = []
        for q, (a, b) in self.ev_seq([e.left, e.right], p, R):
            if a.tag in ("int", "bool") and b.tag in ("int", "bool"):
                x, y = self.to_sort(a, L.I), self.to_sort(b, L.I)
                if isinstance(e.op, ast.Add):
                    out.append((q, IntV(x + y)))
                elif isinstance(e.op, ast.Sub):
                    out.append((q, IntV(x - y)))
                elif isinstance(e.op, ast.Mult):
                    out.append((q, IntV(x * y)))
                else:
                    raise Unsupported("int binop")
            elif isinstance(e.op, ast.Add) and a.tag in ("str", "val") and b.tag in ("str", "val"):
                out.append((q, SV("val", self.str_concat(self.to_sort(a, L.Val), self.to_sort(b, L.Val)))))
            else:
                raise Unsupported(f"binop on {a.tag},{b.tag} line {e.lineno}")
        return out

    def str_concat(self, a, b):
        f = z3.Function("str_concat", L.Val, L.Val, L.Val)
        return f(a, b)

    def ev_BoolOp(self, e, p, R):
        """Short-circuit semantics by forking; the value of the whole expression is the
        deciding operand (Python semantics), which matters for `res = res or n`."""
        is_or = isinstance(e.op, ast.Or)
        outs = []
        if getattr(self, "pure_bool", False):
            # inside a quantified condition: combine truth values symbolically, no forking
            acc = None
            q = p
            for sub in e.values:
                r = self.ev(sub, q, R)
                if len(r) != 1:
                    raise Unsupported("condition forks")
                q, v = r[0]
                t = self.truthy(v, q)
                acc = t if acc is None else (Or(acc, t) if is_or else And(acc, t))
            return [(q, BoolV(acc))]

        def rec(i, q):
            for q2, v in self.ev(e.values[i], q, R):
                if i == len(e.values) - 1:
                    outs.append((q2, v))
                    continue
                t = self.truthy(v, q2)
                a, b = q2.fork(), q2.fork()
                a.assume(t)
                b.assume(Not(t))
                if is_or:
                    if self.feasible_quick(a):
                        outs.append((a, v))
                    if self.feasible_quick(b):
                        rec(i + 1, b)
                else:
                    if self.feasible_quick(b):
                        outs.append((b, v))
                    if self.feasible_quick(a):
                        rec(i + 1, a)

        rec(0, p)
        return outs

    def feasible_quick(self, p: Path) -> bool:
        """Cheap syntactic pruning: drop paths whose last condition is literally False."""
        if p.conds:
            c = z3.simplify(p.conds[-1])
            if z3.is_false(c):
                return False
        return True

    def ev_IfExp(self, e, p, R):
        out = []
        for q, c in self.ev(e.test, p, R):
            t = self.truthy(c, q)
            a, b = q.fork(), q.fork()
            a.assume(t)
            b.assume(Not(t))
            if self.feasible_quick(a):
                out += self.ev(e.body, a, R)
            if self.feasible_quick(b):
                out += self.ev(e.orelse, b, R)
        return out

    def ev_Compare(self, e, p, R):
        if len(e.ops) != 1:
            # a < b < c  ->  (a < b) and (b < c), operands are simple here
            parts = []
            left = e.left
            for op, right in zip(e.ops, e.comparators):
                parts.append(ast.Compare(left=left, ops=[op], comparators=[right], lineno=e.lineno, col_offset=0))
                left = right
            return self.ev(ast.BoolOp(op=ast.And(), values=parts, lineno=e.lineno, col_offset=0), p, R)
        op = e.ops[0]
        out = []
        for q, (a, b) in self.ev_seq([e.left, e.comparators[0]], p, R):
            out.append((q, BoolV(self.compare(op, a, b, q, R, e))))
        return out

    def compare(self, op, a, b, p, R, node):
        if isinstance(op, ast.Is):
            return self.is_same(a, b)
        if isinstance(op, ast.IsNot):
            return Not(self.is_same(a, b))
        if isinstance(op, ast.Eq):
            return self.py_eq(a, b, p)
        if isinstance(op, ast.NotEq):
            return Not(self.py_eq(a, b, p))
        if isinstance(op, (ast.Lt, ast.LtE, ast.Gt, ast.GtE)):
            if a.tag in ("int", "bool") and b.tag in ("int", "bool"):
                x, y = self.to_sort(a, L.I), self.to_sort(b, L.I)
                return {ast.Lt: x < y, ast.LtE: x <= y, ast.Gt: x > y, ast.GtE: x >= y}[type(op)]
            raise Unsupported(f"ordering on {a.tag},{b.tag} line {node.lineno}")
        if isinstance(op, (ast.In, ast.NotIn)):
            r = self.contains(b, a, p, node)
            return Not(r) if isinstance(op, ast.NotIn) else r
        raise Unsupported("compare op")

    def contains(self, cont: SV, x: SV, p: Path, node):
        if cont.tag == "tuple":  # is-or-==
            return Or(*[Or(self.is_same(x, el), self.py_eq(x, el, p)) for el in cont.z]) if cont.z else z3.BoolVal(False)
        if cont.tag == "dref":
            return p.heap.ddom(cont.z, self.to_sort(x, L.Val))
        if cont.tag == "vset":
            return cont.z(self.to_sort(x, L.Val))
        if cont.tag == "lref" and x.tag == "ref":
            i = L.fresh("ci", L.I)
            return z3.Exists([i], And(0 <= i, i < p.heap.llen(cont.z), Or(p.heap.litem(cont.z, i) == x.z, L.v_eq(p.heap._data(p.heap.litem(cont.z, i)), p.heap._data(x.z)))))
        if cont.tag in ("str", "val") and x.tag in ("str", "val"):
            f = z3.Function("str_contains", L.Val, L.Val, L.B)
            return f(self.to_sort(cont, L.Val), self.to_sort(x, L.Val))
        raise Unsupported(f"`in` on {cont.tag} (line {node.lineno})")

    def ev_Tuple(self, e, p, R):
        return [(q, SV("tuple", tuple(vs))) for q, vs in self.ev_seq(e.elts, p, R)]

    def ev_List(self, e, p, R):
        out = []
        for q, vs in self.ev_seq(e.elts, p, R):
            if all(v.tag in ("ref", "none") for v in vs):
                out.append((q, self.new_list(q, [self.to_sort(v, L.Ref) for v in vs])))
            else:
                raise Unsupported(f"list literal of {[v.tag for v in vs]} line {e.lineno}")
        return out

    def ev_Dict(self, e, p, R):
        if e.keys:
            out = []
            for q, vs in self.ev_seq([k for k in e.keys] + list(e.values), p, R):
                n = len(e.keys)
                d = self.new_dict(q)
                for k, v in zip(vs[:n], vs[n:]):
                    self.dict_set(q, d.z, k, v)
                out.append((q, d))
            return out
        return [(p, self.new_dict(p))]

    def ev_JoinedStr(self, e, p, R):
        """f-string: an abstract formatting symbol of its template and operands."""
        parts = [v.value if isinstance(v, ast.Constant) else "{}" for v in e.values]
        exprs = [v.value for v in e.values if isinstance(v, ast.FormattedValue)]
        out = []
        for q, vs in self.ev_seq(exprs, p, R):
            if all(v.tag == "str" for v in vs) and not any(isinstance(v, ast.FormattedValue) and v.conversion != -1 for v in e.values):
                s = "".join(parts).format(*[v.z for v in vs])
                out.append((q, SV("str", s)))
                continue
            tmpl = "".join(parts)
            f = z3.Function(f"fmt!{abs(hash(tmpl)) % 10**8}_{len(vs)}", *([L.Val] * len(vs) + [L.Val]))
            args = []
            for v in vs:
                if v.tag == "ref":
                    args.append(z3.Function("repr_of", L.Ref, L.Val)(v.z))
                elif v.tag in ("lref", "dref", "tuple", "cls", "clsof", "enum", "func", "method"):
                    args.append(z3.Const("opaque_fmt_arg", L.Val))
                else:
                    args.append(self.to_sort(v, L.Val))
            out.append((q, SV("val", f(*args) if args else z3.Const(f"fmt0!{abs(hash(tmpl)) % 10**8}", L.Val))))
        return out

    def ev_Subscript(self, e, p, R):
        out = []
        if isinstance(e.slice, ast.Slice):
            return self.ev_slice(e, p, R)
        for q, (c, i) in self.ev_seq([e.value, e.slice], p, R):
            out += self.subscript(c, i, q, R, e)
        return out

    def subscript(self, c: SV, i: SV, p: Path, R, node):
        line = node.lineno
        h = p.heap
        if c.tag == "lref":
            self.oblige(p, f"L{line}/subscript-of-None", c.z != L.LNONE, kind="safety")
            p.assume(c.z != L.LNONE)
            n = h.llen(c.z)
            iz = self.to_sort(i, L.I)
            ok = And(-n <= iz, iz < n)
            bad = p.fork()
            bad.assume(Not(ok))
            R.append((bad, ExcV("IndexError", site=f"L{line}")))
            p.assume(ok)
            izs = z3.simplify(iz)
            if z3.is_int_value(izs):
                idx = (n + izs.as_long()) if izs.as_long() < 0 else izs
            else:
                idx = If(iz < 0, iz + n, iz)
            return [(p, RefV(h.litem(c.z, idx), "Node"))]
        if c.tag == "dref":
            k = self.to_sort(i, L.Val)
            self.oblige(p, f"L{line}/subscript-of-None", c.z != L.DNONE, kind="safety")
            bad = p.fork()
            bad.assume(Not(h.ddom(c.z, k)))
            R.append((bad, ExcV("KeyError", site=f"L{line}")))
            p.assume(h.ddom(c.z, k))
            return [(p, self.dict_value(p, c, k))]
        if c.tag == "ref" and c.cls == "Tree":  # tree[key] -> Tree.__getitem__ (by contract)
            defcls, fd = self.src.class_member(self.node_class_for(c, p), "__getitem__")
            return self.call_repo(self.src.qualname(defcls, fd), c, [i], {}, p, R, node)
        if c.tag == "tuple" and i.tag == "int" and z3.is_int_value(i.z):
            return [(p, c.z[i.z.as_long()])]
        if c.tag == "val" and c.extra and i.tag == "str" and i.z in c.extra:
            return [(p, c.extra[i.z])]
        raise Unsupported(f"subscript on {c.tag}[{i.tag}] line {line}")

    def dict_value(self, p, d: SV, k):
        kind = (d.extra or {}).get("values", None) if isinstance(d.extra, dict) else d.extra
        h = p.heap
        if kind == "ref":
            return RefV(h.dref(d.z, k), "Node")
        if kind == "lref":
            return SV("lref", h.dlst(d.z, k))
        return SV("val", h.dval(d.z, k))

    def ev_slice(self, e, p, R):
        out = []
        sl = e.slice
        parts = [x if x is not None else ast.Constant(value=None) for x in (sl.lower, sl.upper)]
        if sl.step is not None:
            raise Unsupported("slice step")
        for q, (c, lo, hi) in self.ev_seq([e.value] + parts, p, R):
            if c.tag != "lref":
                raise Unsupported("slice of non-list")
            h = q.heap
            n = h.llen(c.z)

            def clampi(v, default):
                if v.tag == "none":
                    return default
                z = self.to_sort(v, L.I)
                z = If(z < 0, z + n, z)
                return If(z < 0, 0, If(z > n, n, z))

            a = clampi(lo, z3.IntVal(0))
            b = clampi(hi, n)
            ln = If(b > a, b - a, 0)
            src = c.z
            res = self.new_list_fn(q, ln, lambda i: h.litem(src, a + i))
            if lo.tag == "none" and isinstance(c.extra, dict) and "emb" in c.extra:
                # lst[:k] of a filter result: the same embedding witnesses, restricted to the prefix
                res.extra = dict(res.extra or {}, emb=c.extra["emb"], inv=c.extra["inv"], filter_of=c.extra.get("filter_of"), prefix_of=c.z)
            out.append((q, res))
        return out

    def ev_Lambda(self, e, p, R):
        return [(p, SV("func", ("lambda", e, dict(p.env))))]

    def ev_ListComp(self, e, p, R):
        return self.comprehension(e, p, R)

    def ev_GeneratorExp(self, e, p, R):
        return self.comprehension(e, p, R)

    def ev_SetComp(self, e, p, R):
        """{f(x) for x in xs if cond(x)} over a list of nodes: a mathematical set of values, represented
        by its membership formula  v in S  <=>  exists t. 0 <= t < len(xs) and cond(xs[t]) and f(xs[t]) == v."""
        if len(e.generators) != 1 or not isinstance(e.generators[0].target, ast.Name):
            raise Unsupported("set comprehension shape")
        g = e.generators[0]
        outs = []
        for q, src in self.ev(g.iter, p, R):
            if src.tag != "lref":
                raise Unsupported(f"set comprehension over {src.tag}")
            self.oblige(q, f"L{e.lineno}/iterate-None", src.z != L.LNONE, kind="safety")
            q.assume(src.z != L.LNONE)
            h = q.heap
            var = g.target.id
            env0 = dict(q.env)

            def member(v, h=h, q=q, src=src, var=var, env0=env0):
                t = L.fresh("t", L.I)
                x = h.litem(src.z, t)
                qq = q.fork()
                qq.env = dict(env0)
                qq.env[var] = RefV(x, "Node")
                saved_pb, saved_n = getattr(self, "pure_bool", False), len(self.obligations)
                self.pure_bool = True
                try:
                    cond = z3.BoolVal(True)
                    for c in g.ifs:
                        r = self.ev(c, qq, [])
                        if len(r) != 1:
                            raise Unsupported("set comprehension condition forks")
                        cond = And(cond, self.truthy(r[0][1], r[0][0]))
                    r = self.ev(e.elt, qq, [])
                    if len(r) != 1:
                        raise Unsupported("set comprehension element forks")
                    elt = self.to_sort(r[0][1], L.Val)
                finally:
                    self.pure_bool = saved_pb
                    del self.obligations[saved_n:]
                return z3.Exists([t], And(0 <= t, t < h.llen(src.z), cond, elt == v))

            outs.append((q, SV("vset", member)))
        return outs

    def ev_Starred(self, e, p, R):
        raise Unsupported("starred expression")

    def ev_Call(self, e, p, R):
        if isinstance(e.func, ast.Name) and e.func.id == "super" and not e.args and "super" not in p.env:
            return [(p, SV("super", p.env["self"]))]
        return self.call(e, p, R)

    def ev_NamedExpr(self, e, p, R):
        out = []
        for q, v in self.ev(e.value, p, R):
            q.env[e.target.id] = v
            out.append((q, v))
        return out
