"""Run-time evaluation of the sidecar contracts on the real functions under CPython
(DESIGN §3.10, "cross-check").

The deductive tier proves  requires => ensures  for the *symbolic executor's* reading of the
source.  This module checks the same clauses against what CPython actually does: it builds
small concrete trees through the public API, snapshots the object graph (entry heap), calls
the real function, snapshots again (exit heap), and evaluates every clause of the function's
contract -- the very z3 formulas the prover discharges -- in the finite structure made of the
two snapshots.  A clause that is proved but evaluates to false on a real run means the
encoding, an axiom or an assumed callee contract is wrong (an unsound proof); a `requires`
that rejects a state built through the public API means the proof may be vacuous there.

Nothing here is a proof and nothing here is counted as one: it is a soundness guard of the
trusted base (engine semantics, axioms, ghost definitions), run by `check` in every tier.

Evaluation: formulas are compiled once into Python closures; quantifiers range over the finite
universes of the two snapshots (objects, lists, dicts, values) and, for integers, over
-1 .. N+1 where N bounds every length in the snapshots (all integer quantifiers in the
contracts are index quantifiers guarded by such lengths).
"""
from __future__ import annotations

import itertools

import z3

from . import logic as L

NOTHING = object()


class NotEvaluable(Exception):
    pass


# ---------------------------------------------------------------------------- snapshots
NODE_FIELDS = ("_parent", "_children", "_tree", "_data", "_data_id", "_node_id", "_meta", "_kind")
TREE_FIELDS = ("_root", "_node_by_id", "_nodes_by_data_id", "_lock", "_calc_data_id_hook", "_node_factory", "_forward_attrs", "name")


class Snapshot:
    """Frozen copy of the object graph reachable from some trees / nodes / lists."""

    def __init__(self, roots, keep: list):
        from nutree.node import Node
        from nutree.tree import Tree

        self.field = {f: {} for f in NODE_FIELDS + TREE_FIELDS}
        self.lists = {}  # id -> tuple(content)
        self.dicts = {}  # id -> dict copy
        self.objs, self.lobjs, self.dobjs = {}, {}, {}  # id -> object
        self.vals = []
        todo = list(roots)
        while todo:
            o = todo.pop()
            if o is None:
                continue
            if isinstance(o, list):
                if id(o) in self.lobjs:
                    continue
                self.lobjs[id(o)] = o
                self.lists[id(o)] = tuple(o)
                todo.extend(x for x in o if isinstance(x, (Node, Tree)))
                continue
            if isinstance(o, dict):
                if id(o) in self.dobjs:
                    continue
                self.dobjs[id(o)] = o
                self.dicts[id(o)] = dict(o)
                for k, v in o.items():
                    self.vals.append(k)
                    if isinstance(v, (Node, Tree, list)):
                        todo.append(v)
                    else:
                        self.vals.append(v)
                continue
            if isinstance(o, Tree):
                if id(o) in self.objs:
                    continue
                self.objs[id(o)] = o
                for f in TREE_FIELDS:
                    v = getattr(o, f, None)
                    self.field[f][id(o)] = v
                    if f in ("_root", "_node_by_id", "_nodes_by_data_id"):
                        todo.append(v)
                    elif f == "_lock":
                        self.objs[id(v)] = v
                    elif f != "_forward_attrs":
                        self.vals.append(v)
                continue
            if isinstance(o, Node):
                if id(o) in self.objs:
                    continue
                self.objs[id(o)] = o
                for f in NODE_FIELDS:
                    try:
                        v = object.__getattribute__(o, f)
                    except AttributeError:
                        v = None
                    self.field[f][id(o)] = v
                    if f in ("_parent", "_children", "_tree", "_meta"):
                        todo.append(v)
                    else:
                        self.vals.append(v)
                continue
            self.vals.append(o)
        keep.extend(self.objs.values())
        keep.extend(self.lobjs.values())
        keep.extend(self.dobjs.values())
        self._ghost()

    def _ghost(self):
        """ghost witnesses, recomputed from the structure (unique when wf holds)."""
        self.pos, self.rank, self.cpos = {}, {}, {}
        from nutree.tree import Tree

        for o in self.objs.values():
            if isinstance(o, Tree):
                root = self.field["_root"].get(id(o))
                if root is None:
                    continue
                self.rank[id(root)] = 0
                stack = [root]
                seen = set()
                while stack:
                    n = stack.pop()
                    if id(n) in seen:
                        continue
                    seen.add(id(n))
                    ch = self.field["_children"].get(id(n))
                    for i, c in enumerate(self.lists.get(id(ch), ()) if ch is not None else ()):
                        if id(c) not in self.pos:
                            self.pos[id(c)] = i
                            self.rank[id(c)] = self.rank[id(n)] + 1
                            stack.append(c)
                # registered nodes that are not (yet) in a child list: depth from the parent chain
                for n in list(self.objs.values()):
                    if id(n) in self.rank or id(n) not in self.field["_parent"]:
                        continue
                    chain, m = [], n
                    while m is not None and id(m) not in self.rank and len(chain) < 64:
                        chain.append(m)
                        m = self.field["_parent"].get(id(m))
                    if m is not None and id(m) in self.rank and self.field["_tree"].get(id(n)) is o:
                        r = self.rank[id(m)]
                        for k in reversed(chain):
                            r += 1
                            self.rank[id(k)] = r
                nbd = self.field["_nodes_by_data_id"].get(id(o))
                for lst in (self.dicts.get(id(nbd), {}) if nbd is not None else {}).values():
                    if isinstance(lst, list):
                        for i, c in enumerate(self.lists.get(id(lst), ())):
                            self.cpos.setdefault(id(c), i)


COMPONENT_NAMES = set(L.COMPONENTS)


def snaps_of(ev):
    return ev.snaps


def val_eq(a, b) -> bool:
    """equality of Val elements: ints (incl. bool) and strs by value, everything else by identity"""
    if a is b:
        return True
    ia, ib = isinstance(a, int), isinstance(b, int)
    if ia and ib:
        return int(a) == int(b)
    if isinstance(a, str) and isinstance(b, str):
        return a == b
    return False


# ---------------------------------------------------------------------------- evaluator
class Evaluator:
    def __init__(self):
        self.cache = {}  # term id -> (term, closure): closures look the world up when called, so they survive set_world()
        self.snaps, self.consts, self.universe = {}, {}, {}

    def set_world(self, snaps: dict, consts: dict, max_len: int):
        """snaps: heap-version tag ('0', 'rt1') -> Snapshot"""
        self.snaps = snaps
        self.consts = dict(consts)
        objs, lobjs, dobjs, vals = {}, {}, {}, []
        for s in snaps.values():
            objs.update(s.objs)
            lobjs.update(s.lobjs)
            dobjs.update(s.dobjs)
            vals += s.vals
        uv = []
        for v in vals + [None, 0, 1, "", "__root__"]:
            if not any(val_eq(v, w) for w in uv):
                uv.append(v)
        self.universe = {
            "Ref": [None] + list(objs.values()), "LRef": [None] + list(lobjs.values()), "DRef": [None] + list(dobjs.values()),
            "Val": uv, "Int": list(range(-1, max_len + 2)), "Bool": [False, True],
        }

    # -- interpretation of function symbols
    def heap_fn(self, name: str):
        comp, _, tag = name.partition("@")
        if comp not in COMPONENT_NAMES:
            raise NotEvaluable(name)
        snaps = self.snaps

        def S():
            try:
                return snaps_of(self)[tag]
            except KeyError:
                raise NotEvaluable(f"heap version {name}") from None
        if comp in NODE_FIELDS or comp in TREE_FIELDS:
            return lambda o: S().field[comp].get(id(o))
        if comp == "llen":
            return lambda l: len(S().lists.get(id(l), ()))
        if comp == "litem":
            def litem(l, i):
                c = S().lists.get(id(l), ())
                return c[i] if 0 <= i < len(c) else None
            return litem
        if comp == "ddom":
            def ddom(d, k):
                dd = S().dicts.get(id(d))
                if dd is None:
                    return False
                try:
                    return k in dd
                except TypeError:
                    return False
            return ddom
        if comp in ("dref", "dlst", "dval"):
            def dget(d, k):
                dd = S().dicts.get(id(d))
                if dd is None:
                    return None
                try:
                    return dd.get(k)
                except TypeError:
                    return None
            return dget
        if comp == "dcard":
            return lambda d: len(S().dicts.get(id(d), ()))
        if comp == "alloc":
            return lambda o: id(o) in S().objs
        if comp == "lalloc":
            return lambda l: id(l) in S().lobjs
        if comp == "dalloc":
            return lambda d: id(d) in S().dobjs
        if comp in ("pos", "rank", "cpos"):
            return lambda o: getattr(S(), comp).get(id(o), 0)
        if comp == "held":
            raise NotEvaluable("ghost lock depth")
        raise NotEvaluable(name)

    def spec_fn(self, name: str):
        from nutree.node import Node
        from nutree.tree import Tree

        if "@" in name and not name.startswith(("upk<", "E<")):
            return self.heap_fn(name)
        if name == "cls":
            return lambda o: L.CLS.get(type(o).__name__, 8 if o is not None and type(o).__name__ in ("RLock", "_RLock") else 0)
        if name == "v_is_int":
            return lambda v: isinstance(v, int)
        if name == "v_is_str":
            return lambda v: isinstance(v, str)
        if name == "v_is_bool":
            return lambda v: isinstance(v, bool)
        if name == "v_truthy":
            return lambda v: bool(v)
        if name == "v_int":
            return lambda i: i
        if name == "v_int_of":
            return lambda v: int(v) if isinstance(v, int) else 0
        if name == "v_eq":
            def veq(a, b):
                try:
                    return bool(a == b)
                except Exception:  # noqa: BLE001
                    return a is b
            return veq
        if name == "v_same":
            return lambda a, b: a is b
        if name == "v_hash":
            def vh(a):
                try:
                    return hash(a)
                except TypeError:
                    raise NotEvaluable("hash of unhashable") from None
            return vh
        if name == "v_callable":
            return callable
        if name.startswith("oracle_") or name == "v_hook":
            # a user callback is a pure function of its arguments (DESIGN §8): its value is what the real callable returns
            return lambda cb, *args: cb(*args)
        if name == "py_id":
            return lambda o: id(o)
        if name.startswith("upk<"):
            par = self.heap_fn(name[4:-1])

            def upk(n, k):
                for _ in range(max(k, 0)):
                    if n is None:
                        return None
                    n = par(n)
                return n
            return upk
        if name.startswith("E<"):
            par = self.heap_fn(name[2:-1])

            def E(c, a):
                while c is not None and par(c) is not None:
                    if c is a:
                        return True
                    c = par(c)
                return False
            return E
        raise NotEvaluable(f"uninterpreted symbol {name}")

    # -- compilation of formulas into closures over the bound-variable stack
    def compile(self, e):
        key = e.get_id()
        hit = self.cache.get(key)
        if hit is None:
            f = self._compile(e)
            self.cache[key] = (e, f)  # keep the term alive: z3 re-uses the ids of collected terms
            return f
        return hit[1]

    def sort_universe(self, s):
        n = s.name()
        if n not in self.universe:
            raise NotEvaluable(f"quantifier over sort {n}")
        return self.universe[n]

    def _compile(self, e):
        if z3.is_quantifier(e):
            n = e.num_vars()
            sorts = [e.var_sort(i).name() for i in range(n)]
            for sn in sorts:
                if sn not in ("Ref", "LRef", "DRef", "Val", "Int", "Bool"):
                    raise NotEvaluable(f"quantifier over sort {sn}")
            body = self.compile(e.body())
            fa = e.is_forall()
            if not fa and not e.is_exists():
                raise NotEvaluable("lambda")

            def q(env, sorts=sorts, body=body, fa=fa):
                for combo in itertools.product(*[self.universe[sn] for sn in sorts]):
                    r = body(env + list(combo))
                    if fa and not r:
                        return False
                    if not fa and r:
                        return True
                return fa
            return q
        if z3.is_var(e):
            idx = z3.get_var_index(e)
            return lambda env, idx=idx: env[-1 - idx]
        if z3.is_int_value(e):
            v = e.as_long()
            return lambda env: v
        if z3.is_true(e):
            return lambda env: True
        if z3.is_false(e):
            return lambda env: False
        if not z3.is_app(e):
            raise NotEvaluable(str(e)[:60])
        k = e.decl().kind()
        ch = [self.compile(c) for c in e.children()]
        K = z3
        if k == K.Z3_OP_AND:
            return lambda env: all(c(env) for c in ch)
        if k == K.Z3_OP_OR:
            return lambda env: any(c(env) for c in ch)
        if k == K.Z3_OP_NOT:
            return lambda env: not ch[0](env)
        if k == K.Z3_OP_IMPLIES:
            return lambda env: (not ch[0](env)) or ch[1](env)
        if k == K.Z3_OP_ITE:
            return lambda env: ch[1](env) if ch[0](env) else ch[2](env)
        if k in (K.Z3_OP_EQ, K.Z3_OP_IFF):
            srt = e.children()[0].sort().name()
            if srt == "Val":
                return lambda env: val_eq(ch[0](env), ch[1](env))
            if srt in ("Ref", "LRef", "DRef"):
                return lambda env: ch[0](env) is ch[1](env)
            if srt == "PSeq":
                return lambda env: tuple(map(id, ch[0](env))) == tuple(map(id, ch[1](env)))
            return lambda env: ch[0](env) == ch[1](env)
        if k == K.Z3_OP_DISTINCT:
            srt = e.children()[0].sort().name()
            same = val_eq if srt == "Val" else (lambda a, b: a is b) if srt in ("Ref", "LRef", "DRef") else (lambda a, b: a == b)
            return lambda env: not any(same(a(env), b(env)) for a, b in itertools.combinations(ch, 2))
        if k == K.Z3_OP_ADD:
            return lambda env: sum(c(env) for c in ch)
        if k == K.Z3_OP_SUB:
            return lambda env: ch[0](env) - sum(c(env) for c in ch[1:])
        if k == K.Z3_OP_UMINUS:
            return lambda env: -ch[0](env)
        if k == K.Z3_OP_MUL:
            def mul(env):
                r = 1
                for c in ch:
                    r *= c(env)
                return r
            return mul
        if k == K.Z3_OP_LE:
            return lambda env: ch[0](env) <= ch[1](env)
        if k == K.Z3_OP_LT:
            return lambda env: ch[0](env) < ch[1](env)
        if k == K.Z3_OP_GE:
            return lambda env: ch[0](env) >= ch[1](env)
        if k == K.Z3_OP_GT:
            return lambda env: ch[0](env) > ch[1](env)
        if k == K.Z3_OP_UNINTERPRETED:
            name = e.decl().name()
            if not ch:
                if name.startswith("str!"):
                    from .exprs import STR_CONSTS

                    for lit, c in STR_CONSTS.items():
                        if c.decl().name() == name:
                            return lambda env, lit=lit: lit
                def const(env, name=name):
                    try:
                        return self.consts[name]
                    except KeyError:
                        raise NotEvaluable(f"free constant {name}") from None
                return const
            try:
                fn = self.seq_fn(name) or self.spec_fn(name)
            except NotEvaluable as e:
                msg = str(e)

                def lazy(env, msg=msg):  # only an error if this sub-term is actually needed
                    raise NotEvaluable(msg)
                return lazy
            return lambda env: fn(*[c(env) for c in ch])
        raise NotEvaluable(f"operator {e.decl().name()}")

    def seq_fn(self, name):
        if name == "Len":
            return len
        if name == "At":
            return lambda s, i: s[i] if 0 <= i < len(s) else None
        if name == "Single":
            return lambda v: (v,)
        if name == "App":
            return lambda a, b: tuple(a) + tuple(b)
        if name == "Rev":
            return lambda a: tuple(reversed(a))
        if name == "SeqEq":
            return lambda a, b: tuple(map(id, a)) == tuple(map(id, b))
        if name.startswith("LeafCnt<"):
            key = [kk for kk, v in L._LEAFCNT.items() if v.name() == name][0]
            children, llen = (self.heap_fn(n) for n in key)
            return lambda s, i: sum(1 for e in s[:max(i, 0)] if children(e) is None or llen(children(e)) == 0)
        if name.startswith("Kids<"):
            key = [kk for kk, v in L._LEVEL.items() if v[0].name() == name][0]
            children, llen, litem = (self.heap_fn(n) for n in key)

            def kids(n):
                c = children(n)
                return tuple(litem(c, i) for i in range(llen(c))) if c is not None else ()
            return kids
        if name.startswith(("Ht<", "HtL<")):
            kind, _, k = name[:-1].partition("<")
            key = [kk for kk, v in L._HEIGHT.items() if v[0].name() == f"Ht<{k}>"][0]
            children, llen, litem = (self.heap_fn(n) for n in key)

            def kids(n):
                c = children(n)
                return [litem(c, i) for i in range(llen(c))] if c is not None else []

            def ht(n, depth=0):
                if depth > 200:
                    raise NotEvaluable("Ht: structure deeper than 200 (cycle?)")
                return max((1 + ht(c, depth + 1) for c in kids(n)), default=0)

            if kind == "Ht":
                return ht
            return lambda n, i: max((1 + ht(c) for c in kids(n)[:max(i, 0)]), default=0)
        if name == "FiltCb":
            return lambda s, cb, i: tuple(e for e in s[:max(i, 0)] if cb(e))
        if name.startswith("FiltK<"):
            key = [kk for kk, v in L._FILT.items() if v.name() == name][0]
            kind_of = self.heap_fn(key)
            return lambda s, kd, i: tuple(e for e in s[:max(i, 0)] if val_eq(kind_of(e), kd))
        if name.startswith(("Pre<", "PreL<", "Post<", "PostL<")):
            kind, _, k = name[:-1].partition("<")
            key = [kk for kk, v in L._PRE.items() if L._PRE[kk][0].name() == f"Pre<{k}>"][0]
            children, llen, litem = (self.heap_fn(n) for n in key)

            def kids(n):
                c = children(n)
                return [litem(c, i) for i in range(llen(c))] if c is not None else []

            def pre(n):
                out = []
                for c in kids(n):
                    out.append(c)
                    out.extend(pre(c))
                return tuple(out)

            def post(n):
                out = []
                for c in kids(n):
                    out.extend(post(c))
                    out.append(c)
                return tuple(out)

            def prel(n, i):
                out = []
                for c in kids(n)[:max(i, 0)]:
                    out.append(c)
                    out.extend(pre(c))
                return tuple(out)

            def postl(n, i):
                out = []
                for c in kids(n)[:max(i, 0)]:
                    out.extend(post(c))
                    out.append(c)
                return tuple(out)

            return {"Pre": pre, "PreL": prel, "Post": post, "PostL": postl}[kind]
        return None

    def value(self, term):
        if isinstance(term, (int, bool)):
            return term
        return self.compile(term)([])

    def holds(self, formula) -> bool:
        if isinstance(formula, bool):
            return formula
        return bool(self.compile(formula)([]))

    def failing_conjuncts(self, formula, depth=0) -> list:
        """the smallest failing conjuncts (for the report)"""
        if isinstance(formula, bool):
            return [] if formula else ["False"]
        if z3.is_and(formula) and depth < 4:
            out = []
            for c in formula.children():
                try:
                    if not self.holds(c):
                        out += self.failing_conjuncts(c, depth + 1)
                except NotEvaluable:
                    pass
            return out or [str(formula)[:300]]
        return [" ".join(str(formula).split())[:300]]
