#!/bin/bash
# run every claimed check (quick tier by default) and report exit codes
cd "$(dirname "$0")"
tier=${1:-quick}
for p in $(python3 -c "import json;print(' '.join(c['property_id'] for c in json.load(open('MANIFEST.json'))['checks']))"); do
  s=$(date +%s); ./check $p --tier $tier > /tmp/check_$p.out 2>&1; rc=$?; e=$(date +%s)
  echo "$p exit=$rc $((e-s))s $(grep -c '^VIOLATION' /tmp/check_$p.out) violations $(grep -c '^KNOWN-FINDING' /tmp/check_$p.out) known"
done
