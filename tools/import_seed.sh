#!/bin/bash
# tools/import_seed.sh <PROP> <name>  : copy /tmp/seed/<PROP>/seeded/* to seeded/<name>/ with a meta.json stub
p=$1; n=$2; d=/verif/seeded/$n; mkdir -p $d
cp /tmp/seed/$p/seeded/patch.diff /tmp/seed/$p/seeded/demo.py $d/; cp /tmp/seed/$p/seeded/NOTES.md $d/ 2>/dev/null
[ -f $d/meta.json ] || cat > $d/meta.json <<M
{"property": "$p", "origin": "independent sub-agent given only the property text and a scratch worktree", "needs": "see NOTES.md", "confirmed": {}, "detected_by": {}}
M
echo imported $d
