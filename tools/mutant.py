# dev helper: python3-vt tools/mutant.py <file> <func-filter> <<< "old\n===\nnew"   (scratch copy, one edit, re-prove)
import sys, shutil, os, subprocess
# usage: mutt.py <file> <func-filter> <<< "old\n===\nnew"
file, flt = sys.argv[1], sys.argv[2]
old, new = sys.stdin.read().split("\n===\n")
new = new.rstrip("\n")
d='/tmp/mutX'; shutil.rmtree(d, ignore_errors=True); os.makedirs(d); shutil.copytree('/repo/nutree', d+'/nutree')
p=f'{d}/nutree/{file}'; s=open(p).read(); assert s.count(old)>=1, "pattern not found"; s=s.replace(old,new,1); open(p,'w').write(s)
r=subprocess.run(['python3-vt','/verif/tools/prove.py',d,flt],capture_output=True,text=True)
lines=[l for l in r.stdout.split('\n') if 'mf ' not in l]
print('\n'.join(l[:170] for l in lines[:8])); print('...', len([l for l in lines if '??' in l or '~~' in l]), 'open;', r.stderr[-300:])
shutil.rmtree(d)
