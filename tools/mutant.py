# dev helper: python3-vt tools/mutant.py <file under nutree/> <Class.func | func> <<< "old\n===\nnew"
# scratch copy of /repo/nutree, ONE textual edit inside the named function only, re-prove every contract whose name contains <func>
import ast, os, shutil, subprocess, sys

file, flt = sys.argv[1], sys.argv[2]
old, new = sys.stdin.read().split("\n===\n")
new = new.rstrip("\n")
d = "/tmp/mutX"
shutil.rmtree(d, ignore_errors=True)
os.makedirs(d)
shutil.copytree("/repo/nutree", d + "/nutree")
p = f"{d}/nutree/{file}"
s = open(p).read()
cls, _, fn = flt.rpartition(".")
span = None
for node in ast.walk(ast.parse(s)):
    if isinstance(node, ast.ClassDef) and (not cls or node.name == cls.split(".")[-1]):
        for b in node.body:
            if isinstance(b, ast.FunctionDef) and b.name == fn:
                span = (b.lineno, b.end_lineno)
    if not cls and isinstance(node, ast.FunctionDef) and node.name == fn and span is None:
        span = (node.lineno, node.end_lineno)
assert span, f"function {flt} not found in {file}"
lines = s.split("\n")
body = "\n".join(lines[span[0] - 1:span[1]])
assert body.count(old) >= 1, "pattern not found inside the function"
body = body.replace(old, new, 1)
s = "\n".join(lines[:span[0] - 1] + body.split("\n") + lines[span[1]:])
open(p, "w").write(s)
r = subprocess.run(["python3-vt", "/verif/tools/prove.py", d, fn], capture_output=True, text=True)
out = [l for l in r.stdout.split("\n") if "mf " not in l]
print("\n".join(l[:170] for l in out[:8]))
print("...", len([l for l in out if "??" in l or "~~" in l]), "open;", r.stderr[-300:])
shutil.rmtree(d)
