# dev helper: python3-vt tools/prove.py [<srcroot>] [name-filter ...] [-v] [-d]   (T2V=variant restricts)
import sys, time
sys.path.insert(0,'/verif')
from pyvc.source import Source
from pyvc import engine, solve
import contracts
from pyvc.contract import REGISTRY
src=Source(sys.argv[1] if len(sys.argv)>1 and sys.argv[1].startswith('/') else '/repo')
for q in REGISTRY:
    c=REGISTRY[q]
    if c.inline or c.assumed: continue
    flt=[a for a in sys.argv[1:] if not a.startswith('/') and not a.startswith('-')]
    if flt and not any(f in q for f in flt): continue
    t0=time.time()
    r=engine.verify_function(src,q)
    print(q, 'OUT-OF-REACH: '+r['out_of_reach'] if r['out_of_reach'] else f"{len(r['obligations'])} VCs", f"{time.time()-t0:.2f}s")
    import os
    for ob in r['obligations']:
        if os.environ.get('T2V') and ('['+os.environ['T2V']+']') not in ob.name: continue
        solve.discharge(ob, use_cvc5=False)
        flag = {'proved':'ok ','unproved':'?? ','undecided':'~~ '}[ob.status]
        if ob.kind=='must_fail': flag = 'mf ' if ob.status!='proved' else 'VACUOUS '
        if ob.status!='proved' and ob.kind!='must_fail' and '-d' in sys.argv:
            import z3
            def conj(g,depth=0):
                g2=g
                if z3.is_and(g2):
                    for ch in g2.children(): conj(ch,depth)
                    return
                from pyvc.values import Obligation
                o2=Obligation('x',ob.hyps,g2); solve.discharge(o2,use_cvc5=False)
                if o2.status!='proved': print('        FAILS:',str(g2)[:600].replace('\n',' '))
            conj(ob.goal)
        if not (ob.status=='proved' and ob.kind!='must_fail') or '-v' in sys.argv: print('   ',flag,ob.name.split(']#')[0].split('[')[1], ob.name.split(']#')[1], f"{ob.time:.2f}s", ob.reason)
