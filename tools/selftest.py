#!/usr/bin/env python3
"""tools/selftest.py [--only NAME-substring] [--refactors-only | --seeds-only]

Self-test of the machinery against its two catalogues (DESIGN §3.9):
  * seeded/<name>/          property-breaking changes: the property's check must exit 1
  * selftest/refactors/*.diff  harmless refactorings: the checks named in the .txt must exit 0
Each patch is applied to a scratch worktree of /repo HEAD (outside /repo and /verif), the
pinned suite is run there (must pass), the checks run with NUTREE_SRC=<scratch>; the
worktree is removed afterwards.  Evidence / replay files of these runs go to the scratch dir."""
import glob, json, os, re, shutil, subprocess, sys, tempfile, time

VERIF = os.path.dirname(os.path.dirname(os.path.abspath(__file__)))
args = sys.argv[1:]
only = args[args.index("--only") + 1] if "--only" in args else None


def scratch(patch):
    tmp = tempfile.mkdtemp(prefix="nutree-selftest-")
    wt = tmp + "/wt"
    subprocess.run(["git", "-C", "/repo", "worktree", "add", "-q", "--detach", wt, "HEAD"], check=True)
    r = subprocess.run(["git", "-C", wt, "apply", patch], capture_output=True, text=True)
    return tmp, wt, r


def cleanup(tmp):
    subprocess.run(["git", "-C", "/repo", "worktree", "remove", "--force", tmp + "/wt"], capture_output=True)
    shutil.rmtree(tmp, ignore_errors=True)


def suite_ok(wt):
    t = subprocess.run(["/venv/bin/python", "-m", "pytest", "-q", "-p", "no:cacheprovider", "--no-cov", "-x"], cwd=wt, env=dict(os.environ, PYTHONPATH=wt), capture_output=True, text=True)
    return t.returncode == 0


def check(prop, wt, tmp):
    c = subprocess.run([os.path.join(VERIF, "check"), prop, "--tier", "quick"], env=dict(os.environ, NUTREE_SRC=wt, VERIF_EVIDENCE_DIR=tmp + "/ev", VERIF_REPLAY_DIR=tmp + "/rp"), capture_output=True, text=True, cwd=VERIF)
    return c.returncode, [l for l in c.stdout.split("\n") if l.startswith("VIOLATION")]


bad = 0
if "--refactors-only" not in args:
    for d in sorted(glob.glob(os.path.join(VERIF, "seeded", "*"))):
        name = os.path.basename(d)
        if only and only not in name:
            continue
        meta = json.load(open(os.path.join(d, "meta.json")))
        tmp, wt, r = scratch(os.path.join(d, "patch.diff"))
        try:
            if r.returncode:
                print(f"SEED {name}: patch does not apply any more ({r.stderr.strip()[:80]})")
                continue
            ok = suite_ok(wt)
            t0 = time.time()
            rc, v = check(meta["property"], wt, tmp)
            verdict = "caught" if rc == 1 else f"NOT CAUGHT (exit {rc})"
            bad += rc != 1
            print(f"SEED {name}: suite {'passes' if ok else 'FAILS'}; check {meta['property']} -> {verdict} in {time.time() - t0:.0f}s; {len(v)} VIOLATION lines")
        finally:
            cleanup(tmp)
if "--seeds-only" not in args:
    for f in sorted(glob.glob(os.path.join(VERIF, "selftest", "refactors", "*.diff"))):
        name = os.path.basename(f)[:-5]
        if only and only not in name:
            continue
        note = open(f[:-5] + ".txt").read()
        props = re.findall(r"C\d\d", note.split("propert")[-1])
        tmp, wt, r = scratch(f)
        try:
            if r.returncode:
                print(f"REFACTOR {name}: patch does not apply any more")
                continue
            ok = suite_ok(wt)
            res = []
            for p in props:
                rc, v = check(p, wt, tmp)
                res.append(f"{p}:exit{rc}")
                bad += rc != 0
            print(f"REFACTOR {name}: suite {'passes' if ok else 'FAILS'}; " + " ".join(res) + ("   <-- FALSE ALARM" if any(not x.endswith("exit0") for x in res) else ""))
        finally:
            cleanup(tmp)
sys.exit(1 if bad else 0)
