#!/usr/bin/env python3
"""tools/try_seed.py <seed-dir> [PROP ...]
Apply <seed-dir>/patch.diff to a scratch copy of /repo (outside /repo and /verif), confirm that
the pinned suite still passes and that demo.py fails there (and passes on /repo), then run the
given checks (default: the property in meta.json, or all) against the scratch copy via NUTREE_SRC.
The scratch copy is removed afterwards."""
import json, os, shutil, subprocess, sys, tempfile, time

seed = os.path.abspath(sys.argv[1])
props = sys.argv[2:]
VERIF = os.path.dirname(os.path.dirname(os.path.abspath(__file__)))
meta = json.load(open(os.path.join(seed, "meta.json"))) if os.path.exists(os.path.join(seed, "meta.json")) else {}
if not props:
    props = [meta["property"]] if meta.get("property") else []
tmp = tempfile.mkdtemp(prefix="nutree-seed-")
try:
    subprocess.run(["git", "-C", "/repo", "worktree", "add", "-q", "--detach", tmp + "/wt", "HEAD"], check=True)
    wt = tmp + "/wt"
    r = subprocess.run(["git", "-C", wt, "apply", os.path.join(seed, "patch.diff")], capture_output=True, text=True)
    if r.returncode:
        print("PATCH DOES NOT APPLY:", r.stderr[-500:]); sys.exit(2)
    env = dict(os.environ, PYTHONPATH=wt)
    t = subprocess.run(["/venv/bin/python", "-m", "pytest", "-q", "-p", "no:cacheprovider", "--no-cov", "-x"], cwd=wt, env=env, capture_output=True, text=True)
    tail = [l for l in t.stdout.strip().split("\n") if "passed" in l or "failed" in l][-1:] or [t.stdout[-200:]]
    print(f"suite with patch: exit={t.returncode} ({'passes' if t.returncode == 0 else 'FAILS'})", tail[0].strip()[-60:])
    demo = os.path.join(seed, "demo.py")
    if os.path.exists(demo):
        d1 = subprocess.run(["/venv/bin/python", demo], env=env, capture_output=True, text=True, cwd=tmp)
        d0 = subprocess.run(["/venv/bin/python", demo], env=dict(os.environ, PYTHONPATH="/repo"), capture_output=True, text=True, cwd=tmp)
        print(f"demo: patched exit={d1.returncode}  pristine exit={d0.returncode}   {d1.stdout.strip()[-200:]}")
    for p in props:
        t0 = time.time()
        c = subprocess.run([os.path.join(VERIF, "check"), p, "--tier", os.environ.get("SEED_TIER", "quick")], env=dict(os.environ, NUTREE_SRC=wt, VERIF_EVIDENCE_DIR=tmp + "/ev"), capture_output=True, text=True, cwd=VERIF)
        lines = [l for l in c.stdout.split("\n") if l.startswith(("VIOLATION", "KNOWN", "UNDECIDED", "["))]
        print(f"check {p}: exit={c.returncode} ({time.time()-t0:.0f}s)")
        for l in lines[:8]:
            print("    " + l[:260])
        if c.returncode not in (0, 1):
            print("    stderr:", c.stderr[-600:])
finally:
    subprocess.run(["git", "-C", "/repo", "worktree", "remove", "--force", tmp + "/wt"], capture_output=True)
    shutil.rmtree(tmp, ignore_errors=True)
