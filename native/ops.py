"""Operation descriptors, their application to the real tree and to the model, the
enumeration of every documented-valid (and documented-invalid) argument combination for a
given pre-state, and the comparison real-vs-model (DESIGN §3.7).

Node references inside an op are indexes into the spec's record list (-1 = the tree / the
invisible root).  `before` is None | False | True | ("i", k) | ("n", idx).
"""
from __future__ import annotations

from typing import Any, Iterator

from . import gen, view
from .model import INVALID, UNIQUE, MTree, MNode, Refused, all_reasons

# the "other" tree used for cross-tree copies / add(tree)
OTHER = gen.Spec(((-1, "p", None, None), (0, "q", None, None), (-1, "a", None, None), (-1, "r", None, None)))
# a second foreign tree whose labels never occur in the enumerated states: adding it is never refused for uniqueness, so the
# positions `before=` can take next to two or more existing children (of mixed kinds, in typed trees) are really exercised
OTHER_NC = gen.Spec(((-1, "u", None, None), (0, "v", None, None), (-1, "w", None, None)))
OTHER_NC_TYPED = gen.Spec(((-1, "u", None, "k2"), (0, "v", None, "k1"), (-1, "w", None, "k1")), typed=True)
OTHER_TYPED = gen.Spec(((-1, "p", None, "k1"), (0, "q", None, "k2"), (-1, "a", None, "k2"), (-1, "r", None, "k1")), typed=True)


class World:
    """A real tree + the model of it, kept in lock-step."""

    def __init__(self, spec: gen.Spec, *, flavour="str", with_other=False):
        self.spec = spec
        self.flavour = flavour
        self.mk = gen.make_data_factory(flavour)
        self.tree, self.nodes = gen.build(spec, flavour=flavour, mk=self.mk)
        calc = (lambda d: gen.keyed_calc_id(None, d)) if flavour in ("keyed", "keyedsub") else hash
        self.calc = calc
        self.mtree, self.mnodes = MTree.from_spec(spec, [self.mk(r[1]) for r in spec.nodes], calc=calc)
        self.uid = {id(n): m.uid for n, m in zip(self.nodes, self.mnodes)}
        self.keep = list(self.nodes)  # keep objects alive so id() stays unique
        self.otree = None
        if with_other:
            osp = OTHER_TYPED if spec.typed else OTHER
            self.other_spec = osp
            self.otree, self.onodes = gen.build(osp, name="O", flavour=flavour, mk=self.mk)
            self.omtree, self.omnodes = MTree.from_spec(osp, [self.mk(r[1]) for r in osp.nodes], calc=calc)
            self.other_obs0 = view.obs(self.otree)
            osp2 = OTHER_NC_TYPED if spec.typed else OTHER_NC
            self.otree2, self.onodes2 = gen.build(osp2, name="O2", flavour=flavour, mk=self.mk)
            self.omtree2, self.omnodes2 = MTree.from_spec(osp2, [self.mk(r[1]) for r in osp2.nodes], calc=calc)

    # -- reference resolution
    def rn(self, i):
        return self.tree._root if i == -1 else self.nodes[i]

    def rt(self, i):
        """parent-like reference for the public API: the Tree object for -1."""
        return self.tree if i == -1 else self.nodes[i]

    def mn(self, i) -> MNode:
        return self.mtree.root if i == -1 else self.mnodes[i]

    def before_real(self, b):
        if isinstance(b, tuple):
            return b[1] if b[0] == "i" else self.nodes[b[1]]
        return b

    def before_model(self, b):
        if isinstance(b, tuple):
            return b[1] if b[0] == "i" else self.mnodes[b[1]]
        return b


def _kind_kw(w: World, kind):
    return {"kind": kind} if w.spec.typed and kind is not None else {}


# ------------------------------------------------------------------ application
class OpTimeout(Exception):
    """the library call did not return within the time limit (non-termination)"""


def _alarm(signum, frame):
    raise OpTimeout("library call did not terminate within 5 s")


def apply_real(w: World, op: tuple):
    """Run `op` on the real tree under a watchdog.  Returns ('ok', result) or ('exc', exception)."""
    import signal

    old = signal.signal(signal.SIGALRM, _alarm)
    signal.setitimer(signal.ITIMER_REAL, 5.0)
    try:
        return _apply_real(w, op)
    except OpTimeout as e:
        return "exc", e
    finally:
        signal.setitimer(signal.ITIMER_REAL, 0)
        signal.signal(signal.SIGALRM, old)


def _apply_real(w: World, op: tuple):
    t = op[0]
    try:
        if t == "add":
            _, p, lab, b, did, *rest = op
            kw = {}
            if did is not None:
                kw["data_id"] = did
            kw.update(_kind_kw(w, rest[0] if rest else None))
            return "ok", w.rt(p).add(w.mk(lab), before=w.before_real(b), **kw)
        if t in ("append_child", "prepend_child"):
            _, p, lab, *rest = op
            return "ok", getattr(w.rn(p), t)(w.mk(lab), **_kind_kw(w, rest[0] if rest else None))
        if t in ("prepend_sibling", "append_sibling"):
            _, n, lab = op
            return "ok", getattr(w.nodes[n], t)(w.mk(lab))
        if t == "addnode":
            _, p, src, b, deep, *rest = op
            kw = {}
            if rest and rest[0] is not None:
                kw["data_id"] = rest[0]
            if len(rest) > 1 and rest[1] is not None:
                kw["node_id"] = rest[1]
            return "ok", w.rt(p).add(w.nodes[src], before=w.before_real(b), deep=deep, **kw)
        if t == "addnode_x":
            _, p, src, b, deep = op
            return "ok", w.rt(p).add(w.onodes[src], before=w.before_real(b), deep=deep)
        if t == "addtree":
            _, p, b, deep = op
            return "ok", w.rt(p).add(w.otree, before=w.before_real(b), deep=deep)
        if t == "addtree_nc":
            _, p, b, deep = op
            return "ok", w.rt(p).add(w.otree2, before=w.before_real(b), deep=deep)
        if t == "shortcut_tree":  # append_child / prepend_child / prepend_sibling / append_sibling handed a whole tree
            _, name, ref = op
            return "ok", getattr(w.rn(ref), name)(w.otree2)
        if t == "addself":  # the tree added into one of its own nodes
            return "ok", w.rt(op[1]).add(w.tree)
        if t == "copy_to":
            _, src, p, add_self, b, deep = op
            return "ok", w.nodes[src].copy_to(w.rt(p), add_self=add_self, before=w.before_real(b), deep=deep)
        if t == "tree_copy_to":  # copy OTHER tree into a node of this tree
            _, p, deep = op
            return "ok", w.otree.copy_to(w.rt(p), deep=deep)
        if t == "move":
            _, n, p, b = op
            return "ok", w.nodes[n].move_to(w.rt(p), before=w.before_real(b))
        if t == "move_x":  # into the other tree
            _, n = op
            return "ok", w.nodes[n].move_to(w.otree)
        if t == "remove":
            _, n, keep, clones = op
            return "ok", w.nodes[n].remove(keep_children=keep, with_clones=clones)
        if t == "remove_children":
            return "ok", w.rn(op[1]).remove_children()
        if t == "clear":
            return "ok", w.tree.clear()
        if t == "del":
            del w.tree[w.mk(op[1])]
            return "ok", None
        if t == "sort":
            _, p, keyname, reverse, deep = op
            key = SORT_KEYS[keyname][0]
            if p == -1:
                return "ok", w.tree.sort(key=key, reverse=reverse, deep=deep)
            return "ok", w.nodes[p].sort_children(key=key, reverse=reverse, deep=deep)
        if t == "set_data":
            _, n, lab, did, wc = op
            kw = {}
            if did is not None:
                kw["data_id"] = did
            if wc is not None:
                kw["with_clones"] = wc
            return "ok", w.nodes[n].set_data(None if lab is None else w.mk(lab), **kw)
        if t == "rename":
            return "ok", w.nodes[op[1]].rename(op[2])
        if t == "set_meta":
            return "ok", w.nodes[op[1]].set_meta(op[2], op[3])
        if t == "clear_meta":
            return "ok", w.nodes[op[1]].clear_meta(op[2])
        if t == "update_meta":
            # the caller's dict is a shared 'defaults' object, re-used by later calls of the history
            cache = w.__dict__.setdefault("_dicts", {})
            d = cache.setdefault(op[2], dict(op[2]))
            w.last_values = (d, dict(d))
            return "ok", w.nodes[op[1]].update_meta(d, replace=op[3])
        raise KeyError(t)
    except OpTimeout:
        raise
    except RecursionError as e:  # pragma: no cover - reported as an exception like any other
        return "exc", e
    except Exception as e:  # noqa: BLE001
        return "exc", e


SORT_KEYS = {
    None: (None, None),
    "name_desc_len": (lambda n: (-len(n.name), n.name), lambda m: (-len(f"{m.data}"), f"{m.data}")),
    "const": (lambda n: 0, lambda m: 0),  # all keys equal: stable sort must keep the order
}


def apply_model(w: World, op: tuple):
    """Run `op` on the model.  Returns ('ok', result) or ('refused', Refused)."""
    t = op[0]
    M = w.mtree
    try:
        if t == "add":
            _, p, lab, b, did, *rest = op
            return "ok", M.add_data(w.mn(p), w.mk(lab), before=w.before_model(b), data_id=did, kind=rest[0] if rest else None)
        if t == "append_child":
            _, p, lab, *rest = op
            return "ok", M.add_data(w.mn(p), w.mk(lab), before=None, kind=rest[0] if rest else None)
        if t == "prepend_child":
            _, p, lab, *rest = op
            return "ok", M.add_data(w.mn(p), w.mk(lab), before=True, kind=rest[0] if rest else None)
        if t == "prepend_sibling":
            n = w.mnodes[op[1]]
            return "ok", M.add_data(n.parent, w.mk(op[2]), before=n, kind=n.kind)  # typed: "of same kind"
        if t == "append_sibling":
            n = w.mnodes[op[1]]
            sibs = n.parent.children
            i = next(k for k, c in enumerate(sibs) if c is n)
            nxt = sibs[i + 1] if i + 1 < len(sibs) else None
            return "ok", M.add_data(n.parent, w.mk(op[2]), before=nxt, kind=n.kind)  # typed: "of same kind"
        if t == "addnode":
            _, p, src, b, deep, *rest = op
            did = rest[0] if rest else None
            nid = rest[1] if len(rest) > 1 else None
            return "ok", M.add_node(w.mn(p), w.mnodes[src], before=w.before_model(b), deep=deep, data_id=did, node_id=nid)
        if t == "addnode_x":
            _, p, src, b, deep = op
            return "ok", M.add_node(w.mn(p), w.omnodes[src], before=w.before_model(b), deep=deep)
        if t == "addtree":
            _, p, b, deep = op
            return "ok", M.add_tree(w.mn(p), w.omtree, before=w.before_model(b), deep=deep)
        if t == "addtree_nc":
            _, p, b, deep = op
            return "ok", M.add_tree(w.mn(p), w.omtree2, before=w.before_model(b), deep=deep)
        if t == "shortcut_tree":
            _, name, ref = op
            n = w.mn(ref)
            if name == "append_child":
                return "ok", M.add_tree(n, w.omtree2, before=None, deep=None)
            if name == "prepend_child":
                return "ok", M.add_tree(n, w.omtree2, before=True, deep=None)
            if name == "prepend_sibling":
                return "ok", M.add_tree(n.parent, w.omtree2, before=n, deep=None)
            sibs = n.parent.children
            i = next(k for k, c in enumerate(sibs) if c is n)
            return "ok", M.add_tree(n.parent, w.omtree2, before=sibs[i + 1] if i + 1 < len(sibs) else None, deep=None)
        if t == "addself":
            # a (deep) copy of every top-level branch below a node of that very tree: the target lies inside one of the
            # branches to be copied (or is the root, whose children the copies would duplicate) -> refused, nothing changes
            tops = list(M.root.children)
            if not tops:
                return "ok", None
            raise Refused(UNIQUE if op[1] == -1 else INVALID + UNIQUE + ("TreeError", "RuntimeError"), "copy of a branch into itself (add(tree) below a node of the same tree)")
        if t == "copy_to":
            _, src, p, add_self, b, deep = op
            s = w.mnodes[src]
            if add_self:
                return "ok", M.add_node(w.mn(p), s, before=w.before_model(b), deep=deep)
            if b is not None:
                raise Refused(("AssertionError", "ValueError"), "before needs add_self")
            if not s.children:
                raise Refused(("ValueError",), "no children to copy")
            # all-or-nothing: validate every child first
            tgt = w.mn(p)
            ids = [c.data_id for c in s.children]

            def cu():
                for d in ids:
                    M._check_unique(tgt, d)

            def cd():
                if deep and any(tgt is x for x in M.subtree(s)):
                    raise Refused(("ValueError", "UniqueConstraintError"), "deep copy into itself")

            all_reasons(cu, cd)
            src_children = list(s.children)
            res = [M.add_node(tgt, c, before=None, deep=deep) for c in src_children]
            return "ok", res[0]
        if t == "tree_copy_to":
            _, p, deep = op
            return "ok", M.add_tree(w.mn(p), w.omtree, before=None, deep=deep)
        if t == "move":
            _, n, p, b = op
            if M.typed:  # TypedNode.move_to is documented as not implemented
                raise Refused(("NotImplementedError",), "typed move")
            return "ok", M.move_to(w.mnodes[n], w.mn(p), before=w.before_model(b))
        if t == "move_x":
            if M.typed:
                raise Refused(("NotImplementedError",), "typed move")
            return "ok", M.move_to(w.mnodes[op[1]], w.omtree.root)
        if t == "remove":
            _, n, keep, clones = op
            return "ok", M.remove(w.mnodes[n], keep_children=keep, with_clones=clones)
        if t == "remove_children":
            return "ok", M.remove_children(w.mn(op[1]))
        if t == "clear":
            return "ok", M.clear()
        if t == "del":
            d = w.mk(op[1])
            hits = M.clones(w.calc(d))
            if not hits:
                raise Refused(("KeyError",), "no such node")
            if len(hits) > 1:
                raise Refused(("AmbiguousMatchError",), "several nodes")
            return "ok", M.remove(hits[0])
        if t == "sort":
            _, p, keyname, reverse, deep = op
            return "ok", M.sort_children(w.mn(p), key=SORT_KEYS[keyname][1], reverse=reverse, deep=deep)
        if t == "set_data":
            _, n, lab, did, wc = op
            return "ok", M.set_data(w.mnodes[n], None if lab is None else w.mk(lab), data_id=did, with_clones=wc)
        if t == "rename":
            return "ok", M.rename(w.mnodes[op[1]], op[2])
        if t == "set_meta":
            return "ok", M.set_meta(w.mnodes[op[1]], op[2], op[3])
        if t == "clear_meta":
            return "ok", M.clear_meta(w.mnodes[op[1]], op[2])
        if t == "update_meta":
            return "ok", M.update_meta(w.mnodes[op[1]], dict(op[2]), replace=op[3])
        raise KeyError(t)
    except Refused as r:
        return "refused", r


# ------------------------------------------------------------------ comparison
def exc_names(e: BaseException) -> set[str]:
    return {c.__name__ for c in type(e).__mro__}


def compare(w: World) -> list[tuple[str, str]]:
    """Differences between the real tree and the model after an accepted operation.
    Returns [(clause, text)].  New real nodes are bound to new model nodes by position."""
    diffs: list[tuple[str, str]] = []
    uid = w.uid

    def walk(rp, mp, path):
        rk = view.kids(rp)
        mk_ = mp.children
        if len(rk) != len(mk_):
            diffs.append(("effect", f"children of {path or '/'}: real {[repr(c._data) for c in rk]} vs spec {[repr(c.data) for c in mk_]}"))
            return
        for i, (rc, mc) in enumerate(zip(rk, mk_)):
            here = f"{path}/{mc.data!r}"
            known = uid.get(id(rc))
            if known is None:
                if mc.uid in uid.values():
                    diffs.append(("effect", f"{here}: real tree has a new node where the spec has existing node {mc!r}"))
                    continue
                uid[id(rc)] = mc.uid
                w.keep.append(rc)
            elif known != mc.uid:
                diffs.append(("effect", f"{here}: position {i} holds node uid {known}, spec says uid {mc.uid}"))
                continue
            if rc._data is not mc.data:
                diffs.append(("effect", f"{here}: data object differs ({rc._data!r} vs {mc.data!r})"))
            if rc._data_id != mc.data_id:
                diffs.append(("effect", f"{here}: data_id {rc._data_id!r} vs spec {mc.data_id!r}"))
            if getattr(rc, "_kind", None) != mc.kind:
                diffs.append(("effect", f"{here}: kind {getattr(rc, '_kind', None)!r} vs spec {mc.kind!r}"))
            if (rc._meta or None) != (mc.meta or None) or (rc._meta is not None and not rc._meta):
                diffs.append(("effect", f"{here}: meta {rc._meta!r} vs spec {mc.meta!r}"))
            walk(rc, mc, here)

    walk(w.tree._root, w.mtree.root, "")
    for v in view.wf_violations(w.tree):
        diffs.append(("wf." + v.split(":")[0], v))
    if not diffs:
        diffs += stale_handles(w)
    return diffs


def stale_handles(w: World) -> list[tuple[str, str]]:
    """"Nodes that were removed are neither reachable nor counted" -- also not through a handle the caller kept: a removed
    node must refuse to take a child and to be moved back, and the attempt must leave the tree as it is."""
    out: list[tuple[str, str]] = []
    live = {id(n) for n in view.reachable(w.tree)}
    stale = [n for n in w.keep if id(n) in w.uid and id(n) not in live and n is not w.tree._root][:3]
    for n in stale:
        for what, call in (("add('zz')", lambda n=n: n.add("zz_stale")), ("move_to(tree)", lambda n=n: n.move_to(w.tree))):
            before = view.obs(w.tree)
            try:
                call()
                raised = False
            except Exception:  # noqa: BLE001  (any refusal will do: nothing documents the class)
                raised = True
            bad = view.wf_violations(w.tree)
            if not raised or bad or view.obs(w.tree) != before:
                out.append(("wf.stale", f"removed node {n!r}.{what} {'was accepted' if not raised else 'raised'}; tree afterwards {view.fmt(w.tree)}; count={w.tree.count}; {'; '.join(bad[:2])}"))
                return out
    return out


def step(w: World, op: tuple) -> list[tuple[str, str]]:
    """step_() guarded: a structure the oracle cannot even read is a wf violation, not a checker crash."""
    try:
        return step_(w, op)
    except (AttributeError, TypeError, RecursionError, RuntimeError) as e:
        return [("wf.S3", f"tree structure unreadable after the operation: {type(e).__name__}: {e}")]


def step_(w: World, op: tuple) -> list[tuple[str, str]]:
    """Apply `op` to both sides and return the list of (clause, text) violations.
    Clauses: effect (C04/C07), wf.S*/wf.I*/wf.U (C01/C02/C03), refuse.missing (C03/C13),
    refuse.kind, refuse.changed (C13), exc.unexpected (C04/C13), source.changed (C07)."""
    before = view.obs(w.tree)
    m_status, m_res = apply_model(w, op)
    r_status, r_res = apply_real(w, op)
    out: list[tuple[str, str]] = []
    if m_status == "refused":
        if r_status == "ok":
            out.append(("refuse.missing", f"spec refuses ({m_res.why}; {'/'.join(m_res.kinds)}) but the call returned {r_res!r}"))
            # the model was left unchanged; state diverged -> also report wf of the real tree
            for v in view.wf_violations(w.tree):
                out.append(("wf." + v.split(":")[0], v))
        else:
            if not (exc_names(r_res) & set(m_res.kinds)):
                out.append(("refuse.kind", f"spec refuses with {'/'.join(m_res.kinds)} ({m_res.why}), got {type(r_res).__name__}: {r_res}"))
            if view.obs(w.tree) != before:
                out.append(("refuse.changed", f"refused with {type(r_res).__name__} but the tree changed: {view.fmt(w.tree)}; count={w.tree.count}"))
                for v in view.wf_violations(w.tree):
                    out.append(("wf." + v.split(":")[0], v))
    else:
        if r_status == "exc":
            out.append(("exc.unexpected", f"spec accepts, real code raised {type(r_res).__name__}: {r_res}"))
            if view.obs(w.tree) != before:
                out.append(("refuse.changed", f"raised {type(r_res).__name__} and the tree changed: {view.fmt(w.tree)}; count={w.tree.count}"))
                for v in view.wf_violations(w.tree):  # an exception does not excuse a broken invariant (C01/C02/C03)
                    out.append(("wf." + v.split(":")[0], v))
            # resynchronise is impossible; caller must stop this history
        else:
            out += compare(w)
            out += check_result(w, op, m_res, r_res)
    if w.otree is not None:
        if view.obs(w.otree) != w.other_obs0:
            out.append(("source.changed", f"the source tree was modified: {view.fmt(w.otree)}"))
    return out


def check_result(w: World, op, m_res, r_res) -> list[tuple[str, str]]:
    t = op[0]
    if t == "update_meta":
        d, snapshot = w.last_values
        out = []
        if d != snapshot:
            out.append(("effect", f"update_meta() modified the caller's dict: {d!r} (was {snapshot!r})"))
        n = w.nodes[op[1]]
        if n._meta is d:
            out.append(("effect", "update_meta() stored the caller's dict object itself: later edits of the node's metadata and of the dict (or of other nodes given the same dict) leak into each other"))
        return out
    if t in ("add", "append_child", "prepend_child", "prepend_sibling", "append_sibling", "addnode", "addnode_x", "copy_to"):
        if isinstance(m_res, MNode):
            if r_res is None or w.uid.get(id(r_res)) != m_res.uid:
                return [("effect", f"returned {r_res!r}, spec returns the new node {m_res!r}")]
    return []


# ------------------------------------------------------------------ enumeration of ops
def befores(w: World, p: int, *, extra_foreign=True) -> list:
    """Every `before` value for target parent p: None, False, True, every index 0..len, one index behind the
    end (len+2: appends, like list.insert), every child, and one node that is not a child (documented-invalid)."""
    ch = [i for i, r in enumerate(w.spec.nodes) if r[0] == p]
    out = [None, False, True] + [("i", k) for k in range(len(ch) + 1)] + [("i", len(ch) + 2)] + [("n", c) for c in ch]
    if extra_foreign:
        foreign = [i for i in range(len(w.spec.nodes)) if i not in ch]
        if foreign:
            out.append(("n", foreign[0]))
    return out


def enum_ops(spec: gen.Spec, groups=("add", "shortcut", "addnode", "addtree", "move", "remove", "sort", "data", "meta", "del")) -> Iterator[tuple]:
    n = len(spec.nodes)
    w = World.__new__(World)
    w.spec = spec
    labels = sorted({r[1] for r in spec.nodes} | {"a", "n"})  # existing labels (clone/duplicate) + a new one
    P = [-1] + list(range(n))
    typed = spec.typed
    if "add" in groups:
        for p in P:
            for lab in labels:
                for b in befores(w, p):
                    if typed:
                        for k in ("k1", None):
                            yield ("add", p, lab, b, None, k)
                    else:
                        yield ("add", p, lab, b, None)
            # explicit ids: a fresh id for existing data, and an id equal to an existing child's
            yield ("add", p, "a", None, "id9") + ((None,) if typed else ())
            yield ("add", p, "n", None, "id9") + ((None,) if typed else ())
    if "shortcut" in groups:
        for p in P:
            for lab in labels:
                yield ("append_child", p, lab) + (("k2",) if typed else ())
                yield ("prepend_child", p, lab) + (("k2",) if typed else ())
        for i in range(n):
            for lab in labels:
                yield ("prepend_sibling", i, lab)
                yield ("append_sibling", i, lab)
    if "addnode" in groups:
        for p in P:
            for src in range(n):
                for deep in (None, False, True):
                    for b in (None, True, ("i", 0)) + tuple(("n", c) for c, r in enumerate(spec.nodes) if r[0] == p)[:1]:
                        yield ("addnode", p, src, b, deep)
                yield ("addnode", p, src, None, False, None, 4242)  # shallow copy with node_id
                yield ("addnode", p, src, None, True, "id9")  # deep copy with data_id: refused
            for src in range(len(OTHER.nodes)):
                for deep in (False, True):
                    yield ("addnode_x", p, src, None, deep)
        for src in range(n):
            for p in P:
                for add_self in (True, False):
                    for deep in (False, True):
                        yield ("copy_to", src, p, add_self, None, deep)
    if "addtree" in groups:
        for p in P:
            yield ("addself", p)
        for p in P:
            for b in befores(w, p, extra_foreign=False):
                yield ("addtree", p, b, None)
            yield ("addtree", p, None, False)
            yield ("tree_copy_to", p, True)
            for b in befores(w, p, extra_foreign=False):
                yield ("addtree_nc", p, b, None)
            yield ("addtree_nc", p, True, False)
        if not typed:  # (the typed shortcuts take a kind for data children; a tree child is documented for the plain ones)
            for p in P:
                yield ("shortcut_tree", "append_child", p)
                yield ("shortcut_tree", "prepend_child", p)
            for i in range(n):
                yield ("shortcut_tree", "prepend_sibling", i)
                yield ("shortcut_tree", "append_sibling", i)
    if "move" in groups:
        for i in range(n):
            for p in P:
                for b in befores(w, p):
                    if isinstance(b, tuple) and b[0] == "i" and spec.nodes[i][0] == p:
                        continue  # int index for a move inside the same parent: documentation ambiguous
                    yield ("move", i, p, b)
            yield ("move_x", i)
    if "remove" in groups:
        for i in range(n):
            for keep in (False, True):
                for clones in (False, True):
                    yield ("remove", i, keep, clones)
        for p in P:
            yield ("remove_children", p)
        yield ("clear",)
    if "del" in groups:
        for lab in labels:
            yield ("del", lab)
    if "sort" in groups:
        for p in P:
            for keyname in SORT_KEYS:
                for reverse in (False, True):
                    for deep in (False, True):
                        yield ("sort", p, keyname, reverse, deep)
    if "data" in groups:
        for i in range(n):
            for lab in labels:
                for wc in (None, False, True):
                    yield ("set_data", i, lab, None, wc)
            for wc in (None, False, True):
                yield ("set_data", i, None, "id9", wc)
                yield ("set_data", i, "n", "id9", wc)
                yield ("set_data", i, None, 0, wc)
                yield ("set_data", i, "n", 0, wc)
            yield ("set_data", i, None, None, None)
            yield ("rename", i, "n")
            yield ("rename", i, "a")
    if "meta" in groups:
        for i in range(min(n, 2)):
            yield ("set_meta", i, "k", 1)
            yield ("set_meta", i, "k", None)
            yield ("clear_meta", i, None)
            yield ("clear_meta", i, "k")
            yield ("update_meta", i, (("k", 2), ("j", 3)), False)
            yield ("update_meta", i, (), True)
            yield ("update_meta", i, (("j", 3),), True)
            yield ("update_meta", i, (("k", None),), False)  # None is a value here (dict.update), unlike set_meta(k, None)
            yield ("update_meta", i, (("k", None), ("j", 0), ("", False)), True)


def needs_other(op) -> bool:
    return op[0] in ("addnode_x", "addtree", "addtree_nc", "shortcut_tree", "tree_copy_to", "move_x")
