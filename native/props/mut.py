"""Bounded stand-in for the mutator contracts (C01, C02 index part, C03, C04, C07 copy
routes, C13 refusals): every enumerated wf pre-state x every enumerated operation is run
on the real tree and on the independent model (native/model.py); wf, effect, frame and
refusal clauses are evaluated on the result.  One sweep serves several properties; each
property's check reports the clauses tagged with it.
"""
from __future__ import annotations

import random

from .. import gen, ops, view
from ..harness import Result, Violation, clip, parallel, seed

FUNC_OF_OP = {
    "add": "Node.add_child", "append_child": "Node.append_child", "prepend_child": "Node.prepend_child",
    "prepend_sibling": "Node.prepend_sibling", "append_sibling": "Node.append_sibling",
    "addnode": "Node.add_child(node)", "addnode_x": "Node.add_child(node)", "addtree": "Node.add_child(tree)", "addtree_nc": "Node.add_child(tree)", "shortcut_tree": "Node.append_child / prepend_child / prepend_sibling / append_sibling (tree)", "addself": "Node.add_child(tree)",
    "copy_to": "Node.copy_to", "tree_copy_to": "Tree.copy_to",
    "move": "Node.move_to", "move_x": "Node.move_to", "remove": "Node.remove", "remove_children": "Node.remove_children",
    "clear": "Tree.clear", "del": "Tree.__delitem__", "sort": "Node.sort_children", "set_data": "Node.set_data",
    "rename": "Node.rename", "set_meta": "Node.set_meta", "clear_meta": "Node.clear_meta", "update_meta": "Node.update_meta",
}
COPY_OPS = {"addnode", "addnode_x", "addtree", "addtree_nc", "shortcut_tree", "addself", "copy_to", "tree_copy_to"}


def props_of(op, clause: str, text: str) -> set[str]:
    """Which properties a failed clause belongs to (DESIGN §5)."""
    t = op[0]
    if clause.startswith("wf."):
        c = clause[3:]
        if c == "U":
            return {"C03"}
        if c == "I2":
            return {"C02"}
        return {"C01"}
    if clause == "effect":
        if t in ("addtree", "addtree_nc", "shortcut_tree", "tree_copy_to") and ": kind " not in text:
            return {"C04", "C07"}  # documented position (C04) in source order (C07); kinds of copies are C07 only
        return {"C07"} if t in COPY_OPS else {"C04"}
    if clause == "source.changed":
        return {"C07"}
    if clause == "refuse.missing":
        # C13 quantifies over "all operations with arguments that the documentation declares invalid": such a call that is
        # *not* refused (and goes on to change the tree) is a C13 case as well as a case of the property the refusal protects
        if "UniqueConstraintError" in text and "move below itself" not in text and "into itself" not in text:
            return {"C03", "C13"}
        if "below itself" in text or "into itself" in text:
            return {"C01", "C07", "C13"} if t in COPY_OPS else {"C01", "C13"}
        return {"C13"}
    if clause == "refuse.kind":
        if "spec refuses with UniqueConstraintError (" in text:
            return {"C03"}
        if "RecursionError" in text:
            return {"C07", "C13"}
        return set()  # the class of an invalid-argument error is not pinned by any property
    if clause == "refuse.changed":
        return {"C13"}
    if clause == "exc.unexpected":
        return {"C07"} if t in COPY_OPS else {"C04"}
    return set()


def _run_chunk(chunk, prop, groups, flavour):
    res = Result(prop)
    for spec in chunk:
        for op in ops.enum_ops(spec, groups):
            w = ops.World(spec, flavour=flavour, with_other=ops.needs_other(op))
            before = view.obs(w.tree)
            try:
                diffs = ops.step(w, op)
            except Exception as e:  # noqa: BLE001
                import traceback

                res.errors.append(f"{spec.short()} {op}: {traceback.format_exc()[-800:]}")
                continue
            changed = view.obs(w.tree) != before
            res.add_case(f"{spec.short()} :: {op}", nontrivial=changed or bool(diffs))
            for clause, text in diffs:
                if prop in props_of(op, clause, text):
                    res.violations.append(
                        Violation(prop, clause, FUNC_OF_OP[op[0]], {"kind": "op", "spec": _spec_json(spec), "flavour": flavour, "op": _op_json(op)}, clip(text))
                    )
    return res


def _spec_json(spec):
    j = {"nodes": [list(r) for r in spec.nodes], "typed": spec.typed, "short": spec.short()}
    if spec.hist is not None:
        j["hist"] = [[list(r) for r in spec.hist[0]], list(spec.hist[1])]
    return j


def _op_json(op):
    return [list(x) if isinstance(x, tuple) else x for x in op]


def spec_from_json(j) -> gen.Spec:
    h = j.get("hist")
    return gen.Spec(tuple(tuple(r) for r in j["nodes"]), typed=j.get("typed", False), hist=None if not h else (tuple(tuple(r) for r in h[0]), gen._jsonable(h[1])))


def op_from_json(j):
    def t(x):
        if isinstance(x, list):
            return tuple(t(y) for y in x)
        return x

    return tuple(t(x) for x in j)


GROUPS_OF = {
    "C01": ("add", "shortcut", "addnode", "addtree", "move", "remove", "data", "del", "sort"),
    "C02": ("add", "addnode", "move", "remove", "data", "del"),
    "C03": ("add", "shortcut", "addnode", "addtree", "move", "remove", "data"),
    "C04": ("add", "shortcut", "addtree", "move", "remove", "sort", "data", "meta", "del"),
    "C07": ("addnode", "addtree"),
    "C13": ("add", "shortcut", "addnode", "addtree", "move", "remove", "data", "del"),
}


def states(tier: str, prop: str):
    """Pre-states: every plain labelled forest up to the bound, the equal-but-distinct
    variant, the typed variant (smaller bound), other data flavours in the thorough tier."""
    n_plain = 3 if tier == "quick" else 4
    out = [("str", s) for s in gen.plain_specs(n_plain)]
    out += [("str", s) for s in gen.eqpair_specs(3 if tier == "quick" else 4)]
    out += [("str", s) for s in gen.typed_specs(2 if tier == "quick" else 3)]
    # pre-states reached by a history: base tree, every accessor evaluated once, one change (gen.history_specs)
    out += [("str", s) for s in gen.history_specs(gen.plain_specs(2 if tier == "quick" else 3))]
    # ids from a Tree subclass that overrides calc_data_id() (every tier; operations that bring in a tree of another class excluded)
    out += [("keyedsub", s) for s in gen.plain_specs(3, min_n=2, alphabet=("a", "b"))]
    if tier == "thorough":
        for fl in ("int", "tuple", "dataclass", "dictwrapper", "keyed"):
            out += [(fl, s) for s in gen.plain_specs(3, alphabet=("a", "b"))]
        out += [("str", s) for s in gen.explicit_id_specs(3)]
    return out


def clone_group_specs():
    """Targeted family for operations on clone *groups* (remove(with_clones=True), set_data(with_clones=
    True)): three parents p, q, r each holding a clone x; every x optionally has a child d, every parent
    optionally has a further child d (a sibling of x), and x itself may be nested once more."""
    import itertools

    out = []
    for kids_ in itertools.product((False, True), repeat=3):
        for sibs in itertools.product((False, True), repeat=3):
            if sum(kids_) + sum(sibs) == 0 or sum(kids_) + sum(sibs) > 4:
                continue
            nodes = []
            for k, lab in enumerate("pqr"):
                pi = len(nodes)
                nodes.append((-1, lab, None, None))
                xi = len(nodes)
                nodes.append((pi, "x", None, None))
                if kids_[k]:
                    nodes.append((xi, "d", None, None))
                if sibs[k]:
                    nodes.append((pi, "d", None, None))
            out.append(gen.Spec(tuple(nodes)))
    # a clone nested inside another clone's branch
    out.append(gen.Spec(((-1, "p", None, None), (0, "x", None, None), (1, "q", None, None), (2, "x", None, None), (3, "d", None, None), (2, "d", None, None), (-1, "x", None, None))))
    # un-nesting collisions: x has 2..3 children, the j-th of them equals a sibling of x (in front of / behind x), at top level
    # and one level down: remove(keep_children=True) must be refused whatever the position of the colliding child
    for m in (2, 3):
        for j in range(m):
            for sib_first in (False, True):
                for nested in (False, True):
                    nodes, par = [], -1
                    if nested:
                        nodes.append((-1, "p", None, None))
                        par = 0
                    kids_ = "abc"[:m]
                    if sib_first:
                        nodes.append((par, kids_[j], None, None))
                    xi = len(nodes)
                    nodes.append((par, "x", None, None))
                    for lab in kids_:
                        nodes.append((xi, lab, None, None))
                    if not sib_first:
                        nodes.append((par, kids_[j], None, None))
                    out.append(gen.Spec(tuple(nodes)))
    # clones nested *directly* below each other (x[x[..]]): with keep_children their children move up several levels
    for depth in (2, 3):
        for sibs in itertools.product((False, True), repeat=depth):  # a sibling d next to the x of level k
            for leaf in (False, True):  # a child d below the innermost x
                if not leaf and not any(sibs):
                    continue
                nodes, parent = [], -1
                for k in range(depth):
                    xi = len(nodes)
                    nodes.append((parent, "x", None, None))
                    if sibs[k]:
                        nodes.append((parent, "d", None, None))
                    parent = xi
                if leaf:
                    nodes.append((parent, "d", None, None))
                out.append(gen.Spec(tuple(nodes)))
                # the same chain one level down, below another node p that may hold a d of its own next to the outer x
                for p_has_d in (False, True):
                    shifted = [(-1, "p", None, None)] + [(pp + 1, lab, a, b) for pp, lab, a, b in nodes]
                    if p_has_d:
                        shifted.append((0, "d", None, None))
                    sp = gen.Spec(tuple(shifted))
                    if gen.sibling_ids_unique(sp):
                        out.append(sp)
    return out


def sort_specs():
    """Targeted family for sort(deep=True): unsorted child lists at depth 1..3 below chains of single-child nodes and
    next to already sorted / one-element / empty lists (5..7 nodes, beyond the exhaustive bound)."""
    N = None
    shapes = [
        # P > C > [z x y]
        ((-1, "p"), (0, "c"), (1, "z"), (1, "x"), (1, "y")),
        # P > C > D > [z x]
        ((-1, "p"), (0, "c"), (1, "d"), (2, "z"), (2, "x")),
        # two top nodes (unsorted), the second a chain above an unsorted pair
        ((-1, "q"), (-1, "p"), (1, "c"), (2, "z"), (2, "x")),
        # an unsorted list whose first element is a chain above another unsorted list
        ((-1, "p"), (0, "z"), (1, "m"), (2, "y"), (2, "x"), (0, "a")),
        # sorted at the top, unsorted below a two-child node and below a single-child node
        ((-1, "a"), (0, "y"), (0, "x"), (-1, "b"), (3, "c"), (4, "z"), (4, "w")),
    ]
    return [gen.Spec(tuple((p, lab, N, N) for p, lab in sh)) for sh in shapes]


def _sort_chunk(chunk, prop):
    res = Result(prop)
    for spec in chunk:
        P = [-1] + list(range(len(spec)))
        for op in (("sort", p, key, rev, deep) for p in P for key in ops.SORT_KEYS for rev in (False, True) for deep in (False, True)):
            w = ops.World(spec)
            before = view.obs(w.tree)
            diffs = ops.step(w, op)
            res.add_case(f"{spec.short()} :: {op}", nontrivial=view.obs(w.tree) != before or bool(diffs))
            for clause, text in diffs:
                if prop in props_of(op, clause, text):
                    res.violations.append(Violation(prop, clause, FUNC_OF_OP[op[0]], {"kind": "op", "spec": _spec_json(spec), "flavour": "str", "op": _op_json(op)}, clip(text)))
    return res


def _targeted_chunk(chunk, prop):
    res = Result(prop)
    for spec in chunk:
        idx = [i for i, r in enumerate(spec.nodes) if r[1] == "x"]
        cand = [("remove", i, keep, clones) for i in idx for keep in (False, True) for clones in (False, True)]
        cand += [("set_data", i, lab, None, wc) for i in idx for lab in ("d", "n") for wc in (None, False, True)]
        cand += [("move", i, p, None) for i in idx for p in (-1,) + tuple(j for j, r in enumerate(spec.nodes) if r[1] in "pqr")]
        for op in cand:
            w = ops.World(spec)
            before = view.obs(w.tree)
            diffs = ops.step(w, op)
            res.add_case(f"{spec.short()} :: {op}", nontrivial=view.obs(w.tree) != before or bool(diffs))
            for clause, text in diffs:
                if prop in props_of(op, clause, text):
                    res.violations.append(Violation(prop, clause, FUNC_OF_OP[op[0]], {"kind": "op", "spec": _spec_json(spec), "flavour": "str", "op": _op_json(op)}, clip(text)))
    return res


def _big_chunk(chunk, prop, groups, per_tree):
    """Larger pre-states (size-dependent paths): a seeded sample of the operation catalogue per tree."""
    res = Result(prop)
    for spec, sd in chunk:
        rng = random.Random(sd)
        cat = list(ops.enum_ops(spec, groups))
        for op in rng.sample(cat, min(per_tree, len(cat))):
            w = ops.World(spec, with_other=ops.needs_other(op))
            before = view.obs(w.tree)
            try:
                diffs = ops.step(w, op)
            except Exception:  # noqa: BLE001
                import traceback

                res.errors.append(f"{spec.short()} {op}: {traceback.format_exc()[-800:]}")
                continue
            res.add_case(f"{spec.short()} :: {op}", nontrivial=view.obs(w.tree) != before or bool(diffs))
            for clause, text in diffs:
                if prop in props_of(op, clause, text):
                    res.violations.append(Violation(prop, clause, FUNC_OF_OP[op[0]], {"kind": "op", "spec": _spec_json(spec), "flavour": "str", "op": _op_json(op)}, clip(text)))
    return res


def sweep(prop: str, tier: str) -> Result:
    total = Result(prop)
    groups = GROUPS_OF[prop]
    st = states(tier, prop)
    by_flavour: dict[str, list] = {}
    for fl, s in st:
        by_flavour.setdefault(fl, []).append(s)
    for fl, specs in by_flavour.items():
        g_fl = tuple(g for g in groups if g not in ("addtree", "shortcut", "addnode")) if fl == "keyedsub" else groups
        if g_fl:
            total.merge(parallel(_run_chunk, specs, prop, g_fl, fl, prop=prop))
    total.bounds["mutators (model-vs-real, one step)"] = (
        f"all ordered forests with <= {3 if tier == 'quick' else 4} nodes x labelings over {{a,b,c}} (clones incl.), "
        f"trees of <= {3 if tier == 'quick' else 4} nodes reached by one change of a tree (<= {2 if tier == 'quick' else 3} nodes) whose accessors had all been evaluated, "
        f"equal-but-distinct pairs, typed trees <= {2 if tier == 'quick' else 3} nodes x kinds {{k1,k2}}; every operation/argument combination of ops.enum_ops"
    )
    if prop in ("C01", "C02", "C03", "C04", "C13"):
        total.merge(parallel(_targeted_chunk, clone_group_specs(), prop, prop=prop))
        total.bounds["clone groups (targeted)"] = "three parents each holding a clone x, with/without a child d below x and a sibling d next to x (<= 4 extras), x with 2..3 children of which the j-th equals a sibling of x (every j, sibling before / behind, top level / nested), plus a clone nested in a clone and chains of 2..3 directly nested clones x[x[..]] with d below the innermost and/or next to each level: remove (all flag combinations), set_data (with_clones None/False/True) and move_to of every clone"
    if "sort" in groups:
        total.merge(parallel(_sort_chunk, sort_specs(), prop, prop=prop))
        total.bounds["deep sort (targeted)"] = "5 trees of 5..7 nodes with unsorted child lists at depth 1..3 below single-child chains and next to sorted / one-element lists: sort_children / Tree.sort from every node, every key, reverse and deep on/off"
    n_big, per_tree = (16, 40) if tier == "quick" else (64, 150)
    big = [(s, seed() * 7 + k) for k, s in enumerate(gen.big_specs(seed() + 1, n_big, lo=17, hi=30) + gen.big_specs(seed() + 2, n_big // 4, lo=17, hi=24, typed=True))]
    r = parallel(_big_chunk, big, prop, groups, per_tree, prop=prop)
    r.exhaustive = False
    total.merge(r)
    total.bounds["mutators on larger trees (sampled)"] = f"{len(big)} seeded trees with 17..30 nodes (long sibling runs / chains / mixed; a quarter typed) x {per_tree} sampled operations of ops.enum_ops each (VERIF_SEED={seed()})"
    total.merge(histories(prop, tier))
    return total


# ------------------------------------------------------------------ histories
from .. import hist as _hist  # noqa: E402


def _hist_chunk(chunk, prop, length, groups):
    res = Result(prop)
    for (spec_seed,) in chunk:
        rng = random.Random(spec_seed)
        n = rng.randint(0, 4)
        spec = gen.random_spec(rng, n)
        w = ops.World(spec, with_other=False)
        hist = []
        for _ in range(length):
            cur = gen.spec_of(w.tree) if False else None
            cands = _live_ops(w, groups, rng)
            if not cands:
                break
            op = rng.choice(cands)
            hist.append(op)
            try:
                if spec_seed % 2:
                    _hist.warm(w.tree)  # every accessor evaluated between the steps: nothing memoised may survive the next change
                diffs = ops.step(w, op)
            except Exception:  # noqa: BLE001
                import traceback

                res.errors.append(f"{spec.short()} {hist}: {traceback.format_exc()[-800:]}")
                break
            stop = False
            for clause, text in diffs:
                if clause in ("exc.unexpected", "refuse.missing") or clause.startswith("wf."):
                    stop = True  # model and real tree diverged; later steps would be noise
                if prop in props_of(op, clause, text):
                    res.violations.append(
                        Violation(prop, clause, FUNC_OF_OP[op[0]] + " (history)", {"kind": "history", "spec": _spec_json(spec), "ops": [_op_json(o) for o in hist]}, clip(text))
                    )
            if stop or diffs:
                break
        res.add_case(f"{spec.short()} :: {hist}", nontrivial=len(hist) > 1)
    return res


def _live_ops(w: ops.World, groups, rng):
    """Ops over the *current* node list of a running history.  New nodes created by earlier
    steps are addressed through w.nodes, which step() keeps extended."""
    _sync_nodes(w)
    n = len(w.nodes)
    live = [i for i in range(n) if w.mtree._is_member(w.mnodes[i])]
    P = [-1] + live
    labels = ["a", "b", "c", "n"]
    out = []
    for _ in range(12):
        kind = rng.choice(groups)
        if kind == "add":
            p = rng.choice(P)
            ch = [i for i in live if w.mnodes[i].parent is w.mn(p)]
            b = rng.choice([None, False, True] + [("i", k) for k in range(len(ch) + 1)] + [("n", c) for c in ch])
            out.append(("add", p, rng.choice(labels), b, None))
        elif kind == "move" and live:
            i = rng.choice(live)
            p = rng.choice(P)
            ch = [c for c in live if w.mnodes[c].parent is w.mn(p) and c != i]
            b = rng.choice([None, True] + [("n", c) for c in ch])
            out.append(("move", i, p, b))
        elif kind == "remove" and live:
            out.append(("remove", rng.choice(live), rng.random() < 0.4, rng.random() < 0.3))
            if rng.random() < 0.2:
                out.append(("remove_children", rng.choice(P)))
        elif kind == "addnode" and live:
            out.append(("addnode", rng.choice(P), rng.choice(live), rng.choice([None, True]), rng.choice([None, False, True])))
        elif kind == "data" and live:
            i = rng.choice(live)
            out.append(rng.choice([("set_data", i, rng.choice(labels), None, rng.choice([None, False, True])), ("rename", i, rng.choice(labels))]))
        elif kind == "sort":
            out.append(("sort", rng.choice(P), rng.choice([None, "const"]), rng.random() < 0.5, rng.random() < 0.5))
        elif kind == "meta" and live:
            i = rng.choice(live)
            out.append(rng.choice([("set_meta", i, "k", 1), ("set_meta", i, "k", None), ("clear_meta", i, "k"), ("clear_meta", i, None), ("update_meta", i, (("j", 2),), rng.random() < 0.5), ("update_meta", i, (), True), ("update_meta", i, (("k", None), ("j", 0)), rng.random() < 0.5)]))
        elif kind == "del":
            out.append(("del", rng.choice(labels)))
    return out


def _sync_nodes(w: ops.World):
    """Extend w.nodes / w.mnodes with nodes created by earlier steps (bound by compare())."""
    have = {m.uid for m in w.mnodes}
    by_uid = {}
    for m in w.mtree.members():
        if m.uid not in have:
            by_uid[m.uid] = m
    if not by_uid:
        return
    real_by_uid = {}
    for r in view.reachable(w.tree):
        u = w.uid.get(id(r))
        if u in by_uid:
            real_by_uid[u] = r
    for u in sorted(by_uid):
        if u in real_by_uid:
            w.mnodes.append(by_uid[u])
            w.nodes.append(real_by_uid[u])


def histories(prop: str, tier: str) -> Result:
    n_hist = 600 if tier == "quick" else 6000
    length = 4 if tier == "quick" else 8
    groups = tuple(g for g in GROUPS_OF[prop] if g in ("add", "move", "remove", "addnode", "data", "sort", "meta", "del"))
    base = seed() * 1_000_003
    items = [(base + i,) for i in range(n_hist)]
    r = parallel(_hist_chunk, items, prop, length, groups, prop=prop)
    r.exhaustive = False
    r.bounds["mutators (histories)"] = f"{n_hist} random histories of <= {length} operations from random trees with <= 4 nodes, in every second history all accessors are evaluated between the steps (VERIF_SEED={seed()})"
    return r


# ------------------------------------------------------------------ replay
def replay(witness: dict, prop: str) -> list[tuple[str, str]]:
    spec = spec_from_json(witness["spec"])
    if witness["kind"] == "op":
        op = op_from_json(witness["op"])
        w = ops.World(spec, flavour=witness.get("flavour", "str"), with_other=ops.needs_other(op))
        return [(c, t) for c, t in ops.step(w, op) if prop in props_of(op, c, t)]
    w = ops.World(spec)
    out = []
    for oj in witness["ops"]:
        op = op_from_json(oj)
        _sync_nodes(w)
        d = ops.step(w, op)
        out += [(c, t) for c, t in d if prop in props_of(op, c, t)]
        if d:
            break
    return out
