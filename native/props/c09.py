"""Bounded stand-in for C09 -- searches return exactly the matching nodes, in order, within the
limit; index access resolves node_id, then data_id, then data.

Oracle (from the property statement, docs/sphinx/ug_search_and_navigate.rst and ug_advanced.rst;
raw slots `_children`, `_data`, `_data_id`, `_node_id` only, `re.fullmatch` from the standard
library as the meaning of "the name fully matches the pattern"):

    name(n)           = str(n._data)
    Pre(start)        = pre-order of the branch below start (start first if add_self)
    M(n)              = re.fullmatch(pattern, name(n), flags) is not None   |   callback(n) is true
    find_all(match)   = [n in Pre(start) | M(n)]            by identity, in order
    max_results = k   = the first k of them (k >= 1)
    find_first(match) = the first of them or None
    calc(data)        = the tree's calc_data_id hook, else hash(data)
    tree.find_all(data | data_id=)        = exactly the nodes n with n._data_id == calc(data) | data_id
                                            (no order promised: index path), with max_results=k:
                                            min(k, total) different ones of them
    tree.find_first(data | data_id=)      = one of them or None;  find_first(node_id=) = that node or None
    node.find_all(data | data_id=, add_self, max_results) = [n in Pre(node) | n._data_id == id] in order, first k
    node.find_first(data | data_id=)      = the first of them or None
    data in tree                          = some node has _data_id == calc(data)
    tree[key]:  Node key -> ValueError;  int key equal to some node's node_id -> that node;
                int/str key equal to some node's data_id -> candidates = the nodes with that data_id;
                otherwise candidates = the nodes with data_id == calc(key);
                no candidate -> KeyError, several -> AmbiguousMatchError, one -> it
    del tree[key] = as tree[key], then that node and its branch are gone (everything else, by identity,
                stays); a refused call leaves the tree unchanged

Every search must leave the tree unchanged (view.obs) and must not raise.

Tree dressings (own builder, public API only):
    str    data = label, labels from {a, b, ab}  (so that `fullmatch` differs from `match`/`search`)
    case   data = label, labels from {a, A, ''}  (case-insensitive flags; '' is falsy data)
    int    data = a->0, b->1, c->2 (0 is falsy data), explicit node_id = position+1 -- so an int key can
           be a node_id, a data_id, data, or nothing
    eqpair two nodes with equal data 'x' under explicit data_ids 1 and 2 (gen.eqpair_specs)
    xid    one node with the explicit data_id 'id7' (gen.explicit_id_specs)
    keyed  gen.Keyed objects in a tree with a calc_data_id hook (data_id 'key_<label>')

Not constrained by the property and therefore not exercised: `match` callbacks that return control
values (SkipBranch, StopTraversal), max_results=0, unhashable keys.
"""
from __future__ import annotations

import functools
import itertools
import random
import re
import signal
import traceback

from nutree import Tree
from nutree.common import AmbiguousMatchError
from nutree.node import Node

from .. import gen, view
from ..harness import Result, Violation, clip, parallel, seed
from .mut import _spec_json, spec_from_json

CL_MATCH = "ensures find_all(match=) == [n in Pre(start) | matches(n)] by identity, in order"
CL_LIMIT = "ensures find_all(match=, max_results=k) == the first k matches"
CL_FIRST = "ensures find_first(match=) == first match or None"
CL_IDX = "ensures tree.find_all(data | data_id=) == exactly the nodes with that data_id"
CL_IDX_LIMIT = "ensures tree.find_all(data | data_id=, max_results=k) yields min(k, total) different matches"
CL_IDX_FIRST = "ensures tree.find_first(data | data_id= | node_id=) is a matching node or None"
CL_BR = "ensures node.find_all(data | data_id=) == [n in Pre(self) | n.data_id == id] in order"
CL_BR_LIMIT = "ensures node.find_all(data | data_id=, max_results=k) == the first k matches"
CL_BR_FIRST = "ensures node.find_first(data | data_id=) == first node of the branch with that data_id or None"
CL_IN = "ensures (data in tree) == some node has that data's data_id"
CL_GET = "ensures tree[key] resolves node_id, then data_id, then data; KeyError / AmbiguousMatchError / ValueError otherwise"
CL_DEL = "ensures del tree[key] removes exactly the branch of tree[key] (refused: tree unchanged)"
CL_FRAME = "ensures a search leaves the tree unchanged"
CL_WF = "ensures wf(tree) after del tree[key]"
CL_EXC = "ensures no exception escapes"
CL_TERM = "ensures termination"

INTMAP = {"a": 0, "b": 1, "c": 2}


class _Timeout(BaseException):
    pass


def _alarm(_s, _f):
    raise _Timeout()


# ------------------------------------------------------------------ builder
def data_factory(flavour):
    if flavour in ("str", "case", "eqpair", "xid"):
        return lambda lab: lab
    if flavour == "int":
        return lambda lab: INTMAP[lab] if lab in INTMAP else 100 + sum(ord(c) for c in lab)
    if flavour == "keyed":
        return gen.make_data_factory("keyed")
    raise ValueError(flavour)


def build(spec, flavour):
    """flavour 'X~rev': the tree of flavour X, but created level by level with every sibling group last-to-first
    (prepended): the registration order of the id index then differs from the pre-order (as after moves)."""
    flavour, _, order = flavour.partition("~")
    mk = data_factory(flavour)
    tree = Tree("T", calc_data_id=gen.keyed_calc_id) if flavour == "keyed" else Tree("T")
    if order == "rev":
        nodes = [None] * len(spec.nodes)
        ch = gen.children_of([r[0] for r in spec.nodes])
        level = [-1]
        while level:
            nxt = []
            for pi in reversed(level):  # parents last-to-first as well: clones below different parents register in reverse
                parent = tree if pi == -1 else nodes[pi]
                for ci in reversed(ch[pi]):
                    _p, lab, did, _kind = spec.nodes[ci]
                    kw = {"before": True}
                    if did is not None:
                        kw["data_id"] = did
                    if flavour == "int":
                        kw["node_id"] = ci + 1
                    nodes[ci] = parent.add(mk(lab), **kw)
                nxt += ch[pi]
            level = nxt
        return tree, nodes, mk
    nodes = []
    for i, (p, lab, did, _kind) in enumerate(spec.nodes):
        parent = tree if p == -1 else nodes[p]
        kw = {}
        if did is not None:
            kw["data_id"] = did
        if flavour == "int":
            kw["node_id"] = i + 1
        nodes.append(parent.add(mk(lab), **kw))
    return tree, nodes, mk


# ------------------------------------------------------------------ oracle (raw slots only)
def _kids(n):
    c = n._children
    return [] if c is None else list(c)


def pre(n):
    out = []
    for c in _kids(n):
        out.append(c)
        out += pre(c)
    return out


def name(n):
    return str(n._data)


def calc(flavour, data):
    if flavour == "keyed":
        return data.key if isinstance(data, gen.Keyed) else hash(data)
    return hash(data)


CALLABLE_KINDS = ("func", "partial", "obj", "method", "type")


class _CallableObj:
    def __init__(self, f):
        self.f = f

    def __call__(self, n):
        return self.f(n)

    def meth(self, n):
        return self.f(n)


def _as_callable(f, kind):
    """The same predicate as another kind of callable: a predicate is whatever `callable()` accepts, not only
    a function object."""
    if kind == "func":
        return f
    if kind == "partial":
        return functools.partial(lambda _x, n: f(n), None)
    if kind == "obj":
        return _CallableObj(f)
    if kind == "method":
        return _CallableObj(f).meth
    if kind == "type":  # a class is a callable too; its __new__ hands back the predicate's answer

        class _T:
            def __new__(cls, n):
                return f(n)

        return _T
    raise ValueError(kind)


def matcher(mspec, nodes):
    """mspec: ['re', pattern] | ['ref', pattern, flags] | ['refl', pattern, flags] (list argument)
    | ['set', [idx...]] callback by node identity | ['lab', [names...]] callback by name.
    Returns (argument for match=, oracle predicate)."""
    t = mspec[0]
    if t == "re":
        pat = mspec[1]
        return pat, (lambda n: re.fullmatch(pat, name(n)) is not None)
    if t in ("ref", "refl"):
        pat, fl = mspec[1], mspec[2]
        arg = (pat, fl) if t == "ref" else [pat, fl]
        return arg, (lambda n: re.fullmatch(pat, name(n), fl) is not None)
    if t == "set":
        ids = {id(nodes[i]) for i in mspec[1]}
        ret = mspec[2] if len(mspec) > 2 else "bool"

        def cb(n):
            hit = id(n) in ids
            if ret == "bool":
                return hit
            if ret == "falsy":  # truthiness decides: a match is any truthy object, a miss any falsy one (not only False / None)
                return (n._children or "x") if hit else ("", [], 0, {}, ())[id(n) % 5]
            return True if hit else None  # 'none' flavour: False is spelled None

        return _as_callable(cb, mspec[3] if len(mspec) > 3 else "func"), (lambda n: id(n) in ids)
    if t == "lab":
        names = set(mspec[1])
        return _as_callable(lambda n: str(n._data) in names, mspec[2] if len(mspec) > 2 else "func"), (lambda n: name(n) in names)
    raise ValueError(mspec)


def resolve_key(kspec, tree, nodes, mk):
    t = kspec[0]
    if t == "data":
        return mk(kspec[1])
    if t == "lit":
        return kspec[1]
    if t == "node":
        return nodes[kspec[1]]
    if t == "node_id_of":
        return nodes[kspec[1]]._node_id
    if t == "data_id_of":
        return nodes[kspec[1]]._data_id
    raise ValueError(kspec)


def getitem_expect(tree, key, flavour):
    """('node', n) | ('raise', exception class)"""
    allnodes = pre(tree._root)
    if isinstance(key, Node):
        return ("raise", ValueError)
    if isinstance(key, int):
        hit = [n for n in allnodes if n._node_id == key]
        if hit:
            return ("node", hit[0])
    cands = None
    if isinstance(key, (int, str)):
        c = [n for n in allnodes if n._data_id == key]
        if c:
            cands = c
    if cands is None:
        did = calc(flavour, key)
        cands = [n for n in allnodes if n._data_id == did]
    if not cands:
        return ("raise", KeyError)
    if len(cands) > 1:
        return ("raise", AmbiguousMatchError)
    return ("node", cands[0])


# ------------------------------------------------------------------ one case
def _nm(x, idx):
    if x is None:
        return "None"
    i = idx.get(id(x))
    return f"{x._data!r}@{i}" if i is not None else f"<foreign {x!r}>"


def _names(seq, idx):
    if not isinstance(seq, (list, tuple)):
        return repr(seq)
    return "[" + " ".join(_nm(x, idx) for x in seq) + "]"


def _same(a, b):
    return isinstance(a, list) and len(a) == len(b) and all(x is y for x, y in zip(a, b))


def make_world(spec, flavour):
    tree, nodes, mk = build(spec, flavour)
    return tree, nodes, mk, view.obs(tree)


def mutations(spec, flavour):
    """single changes applied between a first evaluation and the checked search"""
    flavour = flavour.partition("~")[0]
    n = len(spec)
    labs = ALPHABET[flavour]
    out = []
    for i in range(n):
        for lab in labs:
            if lab != spec.nodes[i][1]:
                out.append(["set_data", i, lab, True])
                out.append(["set_data", i, lab, False])
        out.append(["remove", i])
        for j in [-1] + list(range(n)):
            if j != i:
                out.append(["move", i, j])
        out.append(["add", i, labs[-1]])
    return out


def warmed_and_mutated(spec, flavour, mut):
    """fresh tree; evaluate every name and a few searches; apply `mut`; world of the changed tree (None if refused)"""
    tree, nodes, mk = build(spec, flavour)
    for n in nodes:
        n.name, repr(n), str(n)
    tree.find_all(match=".*"), tree.find_first(match=".*"), tree.format()
    for n in nodes:
        n.find_all(match=".*", add_self=True)
    try:
        if mut[0] == "set_data":
            nodes[mut[1]].set_data(mk(mut[2]), with_clones=mut[3])
        elif mut[0] == "remove":
            nodes[mut[1]].remove()
        elif mut[0] == "move":
            nodes[mut[1]].move_to(tree if mut[2] == -1 else nodes[mut[2]])
        elif mut[0] == "add":
            nodes[mut[1]].add(mk(mut[2]))
    except Exception:  # noqa: BLE001  (refused changes are the business of C03/C13)
        return None
    now = pre(tree._root)
    return tree, now, mk, view.obs(tree)


def after_cases(spec, flavour):
    """(mutation, inner search case) pairs: pattern searches from the tree and every surviving position"""
    pats = PATTERNS[flavour.partition("~")[0]][:6]
    for mut in mutations(spec, flavour):
        for ms in pats:
            yield ("after", mut, ("find_all.m", -1, False, ms, None))
            yield ("after", mut, ("find_first.m", -1, ms, False))
        yield ("after", mut, ("find_all.m", 0, True, pats[-1], None))
        yield ("after", mut, ("find_all.m", -1, False, pats[0], 1))


def eval_case(spec, flavour, case, world=None):
    """Returns ([(clause, func, text)], nontrivial).  `world` (from make_world) may be shared between
    cases that do not mutate; 'del' cases always get a fresh tree."""
    if case[0] == "after":
        # history: names / searches were evaluated once, then the tree was changed, then the inner case runs on the
        # changed tree (a result cached before the change must not survive it)
        world = warmed_and_mutated(spec, flavour, case[1])
        if world is None or (isinstance(case[2][1], int) and case[2][1] >= len(world[1])):
            return [], False
        return eval_case(spec, flavour, tuple(case[2]), world)
    if world is None or case[0] == "del":
        world = make_world(spec, flavour)
    tree, nodes, mk, before = world
    idx = {id(n): i for i, n in enumerate(nodes)}
    kind = case[0]
    out = []
    nontrivial = True

    def start_of(s):
        return (tree, tree._root) if s == -1 else (nodes[s], nodes[s])

    def frame(func):
        if view.obs(tree) != before:
            out.append((CL_FRAME, func, f"tree afterwards {view.fmt(tree)}"))

    try:
        if kind == "find_all.m":
            _, s, add_self, mspec, k = case
            obj, raw = start_of(s)
            arg, M = matcher(mspec, nodes)
            seq = ([raw] if add_self else []) + pre(raw)
            full = [n for n in seq if M(n)]
            exp = full if k is None else full[:k]
            func = "Tree.find_all" if s == -1 else "Node.find_all/_search"
            kw = {"match": arg}
            if k is not None:
                kw["max_results"] = k
            if s != -1:
                kw["add_self"] = add_self
            got = obj.find_all(**kw)
            if not _same(got, exp):
                cl = CL_LIMIT if _limit_fault(got, full, k) else CL_MATCH
                out.append((cl, func, f"returned {_names(got, idx)}, required {_names(exp, idx)}"))
            nontrivial = 0 < len(full) < len(seq) or (k is not None and len(full) > k)
            frame(func)
        elif kind == "find_first.m":
            _, s, mspec, alias = case
            obj, raw = start_of(s)
            arg, M = matcher(mspec, nodes)
            full = [n for n in pre(raw) if M(n)]
            exp = full[0] if full else None
            func = "Tree.find_first" if s == -1 else "Node.find_first"
            got = (obj.find if alias else obj.find_first)(match=arg)
            if got is not exp:
                out.append((CL_FIRST, func, f"returned {_nm(got, idx) if isinstance(got, Node) or got is None else repr(got)}, required {_nm(exp, idx)}"))
            nontrivial = len(full) >= 1
            frame(func)
        elif kind == "t.find_all.d":
            _, kspec, k, via = case
            key = resolve_key(kspec, tree, nodes, mk)
            did = key if via == "data_id" else calc(flavour, key)
            full = [n for n in pre(tree._root) if n._data_id == did]
            func = "Tree.find_all"
            kw = {} if k is None else {"max_results": k}
            got = tree.find_all(data_id=key, **kw) if via == "data_id" else tree.find_all(key, **kw)
            ok_list = isinstance(got, list) and all(isinstance(x, Node) for x in got)
            ids_full = {id(n) for n in full}
            if k is None:
                if not ok_list or len(got) != len(full) or {id(x) for x in got} != ids_full:
                    out.append((CL_IDX, func, f"returned {_names(got, idx)}, required the nodes {_names(full, idx)}"))
            else:
                want = min(k, len(full))
                if not ok_list or len(got) != want or len({id(x) for x in got}) != len(got) or not {id(x) for x in got} <= ids_full:
                    out.append((CL_IDX_LIMIT, func, f"returned {_names(got, idx)}, required {want} different nodes of {_names(full, idx)}"))
            nontrivial = len(full) >= 1
            frame(func)
        elif kind == "n.find_all.d":
            _, s, add_self, kspec, k, via = case
            obj, raw = start_of(s)
            key = resolve_key(kspec, tree, nodes, mk)
            did = key if via == "data_id" else calc(flavour, key)
            seq = ([raw] if add_self else []) + pre(raw)
            full = [n for n in seq if n._data_id == did]
            exp = full if k is None else full[:k]
            func = "Node.find_all"
            kw = {"add_self": add_self}
            if k is not None:
                kw["max_results"] = k
            got = obj.find_all(data_id=key, **kw) if via == "data_id" else obj.find_all(key, **kw)
            if not _same(got, exp):
                cl = CL_BR_LIMIT if _limit_fault(got, full, k) else CL_BR
                out.append((cl, func, f"find_all({'data_id=' if via == 'data_id' else ''}{key!r}{'' if k is None else f', max_results={k}'}) returned {_names(got, idx)}, required {_names(exp, idx)}"))
            nontrivial = len(full) >= 1
            frame(func)
        elif kind == "t.find_first.d":
            _, kspec, via, alias = case
            key = resolve_key(kspec, tree, nodes, mk)
            func = "Tree.find_first"
            f = tree.find if alias else tree.find_first
            if via == "node_id":
                full = [n for n in pre(tree._root) if n._node_id == key]
                got = f(node_id=key)
            elif via == "data_id":
                full = [n for n in pre(tree._root) if n._data_id == key]
                got = f(data_id=key)
            else:
                did = calc(flavour, key)
                full = [n for n in pre(tree._root) if n._data_id == did]
                got = f(key)
            if (got is None) != (not full) or (got is not None and not any(got is n for n in full)):
                out.append((CL_IDX_FIRST, func, f"find_first({via}: {key!r}) returned {_nm(got, idx) if isinstance(got, Node) or got is None else repr(got)}, required {'None' if not full else 'one of ' + _names(full, idx)}"))
            nontrivial = len(full) >= 1
            frame(func)
        elif kind == "n.find_first.d":
            _, s, kspec, via = case
            obj, raw = start_of(s)
            key = resolve_key(kspec, tree, nodes, mk)
            did = key if via == "data_id" else calc(flavour, key)
            full = [n for n in pre(raw) if n._data_id == did]
            exp = full[0] if full else None
            func = "Node.find_first"
            got = obj.find_first(data_id=key) if via == "data_id" else obj.find_first(key)
            if got is not exp:
                out.append((CL_BR_FIRST, func, f"find_first({'data_id=' if via == 'data_id' else ''}{key!r}) returned {_nm(got, idx) if isinstance(got, Node) or got is None else repr(got)}, required {_nm(exp, idx)}"))
            nontrivial = len(full) >= 1
            frame(func)
        elif kind == "in":
            _, kspec = case
            key = resolve_key(kspec, tree, nodes, mk)
            did = calc(flavour, key)
            exp = any(n._data_id == did for n in pre(tree._root))
            func = "Tree.__contains__"
            got = key in tree
            if got is not exp:
                out.append((CL_IN, func, f"({key!r} in tree) == {got!r}, required {exp!r}"))
            frame(func)
        elif kind in ("get", "del"):
            _, kspec = case
            key = resolve_key(kspec, tree, nodes, mk)
            exp = getitem_expect(tree, key, flavour)
            func = "Tree.__getitem__" if kind == "get" else "Tree.__delitem__"
            cl = CL_GET if kind == "get" else CL_DEL
            if kind == "del" and exp[0] == "node":
                gone = {id(exp[1])} | {id(x) for x in pre(exp[1])}
                exp_ident = _ident(tree._root, gone)
            got_exc, got = None, None
            try:
                if kind == "get":
                    got = tree[key]
                else:
                    del tree[key]
            except Exception as e:  # noqa: BLE001
                got_exc = e
            if exp[0] == "raise":
                # KeyError subclasses LookupError; AmbiguousMatchError must not be a bare KeyError and vice versa
                if got_exc is None or type(got_exc) is not exp[1] and not (exp[1] is ValueError and isinstance(got_exc, ValueError)):
                    out.append((cl, func, f"tree[{key!r}]: " + (f"raised {type(got_exc).__name__}: {got_exc}" if got_exc else f"returned {_nm(got, idx) if isinstance(got, Node) else repr(got)}") + f", required {exp[1].__name__}"))
                frame(func)
            else:
                if got_exc is not None:
                    out.append((cl, func, f"tree[{key!r}]: raised {type(got_exc).__name__}: {got_exc}, required {_nm(exp[1], idx)}"))
                elif kind == "get":
                    if got is not exp[1]:
                        out.append((cl, func, f"tree[{key!r}] returned {_nm(got, idx) if isinstance(got, Node) else repr(got)}, required {_nm(exp[1], idx)}"))
                    frame(func)
                else:
                    if _ident(tree._root, set()) != exp_ident:
                        out.append((cl, func, f"after del tree[{key!r}]: {view.fmt(tree)}, required the tree without the branch of node @{idx[id(exp[1])]}"))
                    wf = view.wf_violations(tree)
                    if wf:
                        out.append((CL_WF, func, "; ".join(wf)))
        else:
            raise ValueError(case)
    except _Timeout:
        raise
    except Exception as e:  # noqa: BLE001  -- raised by the library call (oracle parts above are total)
        tb = traceback.extract_tb(e.__traceback__)
        if tb and tb[-1].filename.endswith("c09.py"):
            raise  # our own bug: checker error
        out.append((CL_EXC, _func_of(case), f"{type(e).__name__}: {e}"))
    return out, bool(nontrivial)


def _limit_fault(got, full, k):
    """A wrong answer counts against the limit clause when the limit is exceeded, or when the limit
    bites and the answer has k elements (the wrong k); otherwise against the unlimited clause."""
    if k is None or not isinstance(got, list):
        return False
    return len(got) > k or (len(full) > k and len(got) == k)


def _ident(p, gone):
    return tuple((id(c), _ident(c, gone)) for c in _kids(p) if id(c) not in gone)


def _func_of(case):
    k = case[0]
    if k == "after":
        return _func_of(tuple(case[2]))
    if k in ("find_all.m", "find_first.m"):
        return ("Tree." if case[1] == -1 else "Node.") + k[:-2]
    return {"t.find_all.d": "Tree.find_all", "n.find_all.d": "Node.find_all", "t.find_first.d": "Tree.find_first", "n.find_first.d": "Node.find_first",
            "in": "Tree.__contains__", "get": "Tree.__getitem__", "del": "Tree.__delitem__"}[k]


# ------------------------------------------------------------------ enumeration
PATTERNS = {
    "str": [["re", p] for p in ("a", "b", "ab", "a|b", "a.*", ".*", "[ab]", "[ab]+", "x.*", "", "a?b", ".", ".b", "b$", "(a|b)*")]
    + [["ref", "A", re.I], ["ref", "A|B", re.I], ["ref", "a", 0], ["ref", "A", 0], ["ref", ".B", re.I], ["refl", "A.*", re.I], ["ref", "a b", re.X]],
    "case": [["re", p] for p in ("a", "A", "", ".*", ".+", "[aA]", "a?")] + [["ref", "a", re.I], ["ref", "A", re.I], ["refl", "a", re.IGNORECASE], ["ref", "A", 0]],
    "int": [["re", p] for p in (r"\d", "0", "[12]", "", ".*", "1|2")],
    "keyed": [["re", p] for p in ("Keyed<key_a>", ".*key_a.*", "key_a", ".*")] + [["ref", "keyed<KEY_A>", re.I]],
}
PATTERNS["eqpair"] = [["re", p] for p in ("x", "a|x", ".*", "b")] + [["ref", "X", re.I]]
PATTERNS["xid"] = [["re", p] for p in ("a", "b", "c", ".*", "id7", "sid", "a|c")]
ALPHABET = {"str": ("a", "b", "ab"), "case": ("a", "A", ""), "int": ("a", "b", "c"), "keyed": ("a", "b"), "eqpair": ("a", "b", "x"), "xid": ("a", "b")}


def enum_cases(spec, flavour, *, max_subset_nodes=4, thin=False):
    """All cases of one tree.  thin (quick tier, trees of >= 4 nodes): limits {None, 1, 2, n+1} only."""
    flavour = flavour.partition("~")[0]
    n = len(spec)
    ks = [None] + list(range(1, n + 2))
    if thin and n >= 4:
        ks = [None, 1, 2, n + 1]
    mspecs = list(PATTERNS[flavour])
    if n <= max_subset_nodes:
        for r in range(n + 1):
            for sub in itertools.combinations(range(n), r):
                mspecs.append(["set", list(sub), ("bool", "none", "falsy")[(r + sum(sub)) % 3], CALLABLE_KINDS[(2 * r + sum(sub) // 3) % 5]])
    else:
        al = ALPHABET[flavour]
        for r in range(len(al) + 1):
            for sub in itertools.combinations(al, r):
                mspecs.append(["lab", list(sub), CALLABLE_KINDS[(r + sum(ord(c) for x in sub for c in x)) % 5]])
    if n > 12:  # larger trees: a few node subsets as callbacks, the labels present as data keys
        for sub in (list(range(0, n, 3)), list(range(1, n, 2)), [0], [n - 1], list(range(n // 2, n))):
            mspecs.append(["set", sub, ("bool", "none", "falsy")[len(sub) % 3], CALLABLE_KINDS[(len(sub) + sub[0]) % 5]])
    starts = [-1] + list(range(n))
    for s in starts:
        for ms in mspecs:
            for add_self in ((False,) if s == -1 else (False, True)):
                for k in ks:
                    yield ("find_all.m", s, add_self, ms, k)
            yield ("find_first.m", s, ms, False)
        yield ("find_first.m", s, mspecs[len(mspecs) // 2], True)
    # keys
    keys = [["data", lab] for lab in ALPHABET[flavour]]
    if n > 12:
        keys += [["data", lab] for lab in sorted({r[1] for r in spec.nodes})[:: max(1, n // 6)]]
    did_keys = [["data_id_of", i] for i in range(n)] + [["lit", 0], ["lit", 1], ["lit", 2], ["lit", 7], ["lit", "id7"], ["lit", "zz"], ["lit", "key_a"], ["lit", ""]]
    for kspec in keys:
        for k in ks:
            yield ("t.find_all.d", kspec, k, "data")
        yield ("t.find_first.d", kspec, "data", False)
        yield ("t.find_first.d", kspec, "data", True)
        yield ("in", kspec)
        for s in range(n):
            for add_self in (False, True):
                for k in ks:
                    yield ("n.find_all.d", s, add_self, kspec, k, "data")
            yield ("n.find_first.d", s, kspec, "data")
    for kspec in did_keys:
        for k in ks:
            yield ("t.find_all.d", kspec, k, "data_id")
        yield ("t.find_first.d", kspec, "data_id", False)
        for s in range(n):
            for add_self in (False, True):
                for k in ks:
                    yield ("n.find_all.d", s, add_self, kspec, k, "data_id")
            yield ("n.find_first.d", s, kspec, "data_id")
    nid_keys = [["node_id_of", i] for i in range(n)] + [["lit", v] for v in range(0, n + 3)]
    for kspec in nid_keys:
        yield ("t.find_first.d", kspec, "node_id", False)
    get_keys = keys + did_keys + [["node_id_of", i] for i in range(n)] + [["lit", v] for v in range(3, n + 3) if v != 7] + ([["node", 0]] if n else [])
    for kspec in get_keys:
        yield ("get", kspec)
        yield ("del", kspec)
    if flavour in ("str", "case", "int"):
        for kspec in (["lit", 0], ["lit", 1], ["lit", ""], ["lit", "zz"]):
            yield ("in", kspec)


def _case_repr(spec, flavour, case):
    return f"{flavour}:{spec.short()} :: " + "|".join(str(x) for x in case)


def _witness(spec, flavour, case):
    return {"spec": _spec_json(spec), "flavour": flavour, "case": list(case)}


def _keep_smallest(best, v, size, per_key=4):
    lst = best.setdefault(v.key(), [])
    if len(lst) < per_key:
        lst.append((size, v))
        lst.sort(key=lambda t: t[0])
    elif size < lst[-1][0]:
        lst[-1] = (size, v)
        lst.sort(key=lambda t: t[0])


def _run_chunk(chunk, prop, timeout, thin=False):
    res = Result(prop)
    best: dict = {}
    old = signal.signal(signal.SIGALRM, _alarm)
    try:
        for flavour, spec in chunk:
            case = None
            signal.setitimer(signal.ITIMER_REAL, timeout)
            try:
                world = make_world(spec, flavour)
                for case in enum_cases(spec, flavour, thin=thin):
                    try:
                        diffs, nontrivial = eval_case(spec, flavour, case, world)
                        if diffs:
                            world = make_world(spec, flavour)  # do not let a damaged tree leak into later cases
                    except _Timeout:
                        raise
                    except Exception:  # noqa: BLE001
                        res.errors.append(f"{_case_repr(spec, flavour, case)}: {traceback.format_exc()[-800:]}")
                        continue
                    res.add_case(_case_repr(spec, flavour, case), nontrivial=nontrivial)
                    for clause, func, text in diffs:
                        _keep_smallest(best, Violation(prop, clause, func, _witness(spec, flavour, case), clip(text)), (len(spec), len(str(case)), str(case)))
                if 1 <= len(spec) <= (3 if thin else 4) and flavour in ("str", "int", "eqpair"):
                    for case in after_cases(spec, flavour):
                        try:
                            diffs, nontrivial = eval_case(spec, flavour, case)
                        except _Timeout:
                            raise
                        except Exception:  # noqa: BLE001
                            res.errors.append(f"{_case_repr(spec, flavour, case)}: {traceback.format_exc()[-800:]}")
                            continue
                        res.add_case(_case_repr(spec, flavour, case), nontrivial=nontrivial)
                        for clause, func, text in diffs:
                            _keep_smallest(best, Violation(prop, clause, func, _witness(spec, flavour, case), clip(text)), (len(spec), len(str(case)), str(case)))
            except _Timeout:
                if case is not None:
                    res.violations.append(Violation(prop, CL_TERM, _func_of(case), _witness(spec, flavour, case), f"no result within {timeout}s for the cases of this tree (last case started: {case})"))
            finally:
                signal.setitimer(signal.ITIMER_REAL, 0)
    finally:
        signal.signal(signal.SIGALRM, old)
    for lst in best.values():
        res.violations += [v for _k, v in lst]
    return res


# ------------------------------------------------------------------ inputs
def inputs(tier):
    quick = tier == "quick"
    n_str = 4 if quick else 5
    out = [("str", s) for s in gen.plain_specs(n_str, alphabet=ALPHABET["str"])]
    out += [("case", s) for s in gen.plain_specs(3 if quick else 4, alphabet=ALPHABET["case"])]
    out += [("int", s) for s in gen.plain_specs(3 if quick else 4, alphabet=ALPHABET["int"])]
    out += [("eqpair", s) for s in gen.eqpair_specs(3 if quick else 4)]
    out += [("xid", s) for s in gen.explicit_id_specs(3 if quick else 4)]
    # different data filed under one explicit data_id: the id is a key, not the name
    out += [("xid", s) for s in gen.shared_id_specs(3 if quick else 4)]
    out += [("keyed", s) for s in gen.plain_specs(3 if quick else 4, alphabet=ALPHABET["keyed"])]
    # the same string trees created in another order: registration order of the id index != pre-order
    out += [("str~rev", s) for s in gen.plain_specs(n_str, min_n=3, alphabet=ALPHABET["str"])]
    return out, n_str


def run(prop: str, tier: str, only=None) -> Result:
    quick = tier == "quick"
    items, n_str = inputs(tier)
    n_rand = 24 if quick else 400
    base = seed() * 1_000_003 + 909
    rnd = []
    for j in range(n_rand):
        rng = random.Random(base + j)
        fl = ("str", "int", "case")[j % 3]
        rnd.append((fl, gen.random_spec(rng, rng.randint(5 if quick else 6, 7), alphabet=ALPHABET[fl])))
    # larger trees (size-dependent paths): labels a<i> / b<i> / ab<i> so that the pattern catalogue still discriminates
    n_big = 6 if quick else 40
    big = []
    for sp in gen.big_specs(seed() + 9, n_big, lo=16, hi=30):
        ren = {}
        for i, r in enumerate(sp.nodes):
            ren.setdefault(r[1], ("a", "b", "ab")[i % 3] + str(i))
        big.append(("str", gen.Spec(tuple((p, ren[lab], d, k) for p, lab, d, k in sp.nodes))))
    total = Result(prop)
    allitems = sorted(items + rnd + big, key=lambda it: len(it[1]), reverse=True)
    total.merge(parallel(_run_chunk, allitems, prop, 300.0, quick, prop=prop, chunks_per_proc=16))
    total.exhaustive = False  # random part sampled
    m = 3 if quick else 4
    total.bounds["Node._search / Node.find_all / Node.find_first / Tree.find_all / Tree.find_first / Tree.__getitem__ / __contains__ / __delitem__"] = (
        f"every ordered forest with <= {n_str} nodes x labelings over {{a,b,ab}} (clones); <= {m} nodes for the dressings {{a,A,''}} (case / falsy data), "
        f"int data 0..2 with node_ids 1..n, equal-data pairs with data_ids 1,2, explicit data_id 'id7', keyed objects with calc_data_id hook; "
        f"+ {n_rand} seeded random trees with {5 if quick else 6}..7 nodes + {n_big} seeded larger trees with 16..30 nodes (long sibling runs / chains / mixed; 5 node subsets as callbacks, present labels as keys) (VERIF_SEED={seed()}); every start node and the tree; "
        "match = 15 patterns + 7 (pattern, flags) forms + every node subset as callback (<= 4 nodes; label subsets above), add_self on/off, max_results in {None, 1..n+1}" + (" ({None,1,2,n+1} for trees of >= 4 nodes)" if quick else "") + "; "
        "data / data_id / node_id keys: every label's data (present or absent), every node's data_id and node_id, literal ints 0..n+2, 7 and strings, a Node key; "
        "tree[key], del tree[key], key in tree for all of them; every string tree of >= 3 nodes also created level by level with prepended siblings (registration order != pre-order); histories: for trees of <= " + ("3" if quick else "4") + " nodes (str / int / equal-data flavours) every pattern search again after "
        "all names and searches were evaluated once and one change was applied (set_data to every other label with and without clones, remove, move_to every target, add)"
    )
    return total


def replay(witness: dict, prop: str):
    spec = spec_from_json(witness["spec"])

    case = tuple(witness["case"])
    old = signal.signal(signal.SIGALRM, _alarm)
    signal.setitimer(signal.ITIMER_REAL, 60.0)
    try:
        diffs, _ = eval_case(spec, witness["flavour"], case)
    except _Timeout:
        return [(CL_TERM, "no result within 60s")]
    finally:
        signal.setitimer(signal.ITIMER_REAL, 0)
        signal.signal(signal.SIGALRM, old)
    return [(c, t) for c, _f, t in diffs]
