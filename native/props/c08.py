"""Bounded stand-in for C08 -- filtering keeps exactly the accepted nodes and their ancestors.

A *verdict assignment* V gives every node one of six verdict kinds (one letter per node, in
spec order):

    T  True                         accept, continue into the children
    F  False / None                 not accepted; kept only if a descendant is kept
    K  SkipBranch (default)         node and its whole branch dropped, children not asked
    S  SkipBranch(and_self=False)   node itself kept, nothing below it, children not asked
    L  SelectBranch                 node and whole branch kept unconditionally, children not asked
    X  StopTraversal                the scan ends here, what was accepted so far is kept

and a *delivery mode* says how the control values reach the library:

    ret     instances returned   (SkipBranch(), SelectBranch(), StopTraversal(); F = False)
    raise   instances raised     (F = None)
    raise2  classes raised       (`raise SkipBranch`, ...; K = SkipBranch(and_self=True) raised;
                                  X = `raise StopIteration`, the documented alias; F = None)
    retcls  classes returned     (`return SkipBranch`, `return SelectBranch`, `return StopTraversal`;
                                  S stays an instance) -- reported under its own clause, see below

Oracle `Keep(start, V)` (declarative, from the property statement; raw slots only):

    Asked    = pre-order walk below `start` that descends only below T and F nodes and ends
               with the first X node (inclusive)
    Accepted = { n in Asked | V(n) in {T, S} }       Selected = { n in Asked | V(n) = L }
    Kept     = Accepted + Selected + all descendants of Selected
               + all ancestors (below `start`) of Accepted + Selected
    Keep     = the source structure restricted to Kept (original order, every node once)

Clauses
  * in place  (`tree.filter`, `node.filter`):  afterwards the tree consists of exactly the
    *same node objects* Keep(...) (for a branch: everything outside the branch untouched);
    wf_violations empty.  Assignments in which an X node is reached are reported under a
    clause of their own ("[in place, stop signal reached]"), because there the statement
    "in-place and copying form give the same result" is the only thing that fixes the result.
  * copying   (`tree.filtered`, `tree.copy(predicate=)`, `node.filtered`, `node.copy(add_self=True|False,
    predicate=)`): result is a new tree of fresh nodes with the shape/data (identity)/data_id of
    Keep(...), wf; the source is untouched (view.obs).  Since both forms are compared with the
    same Keep, "same result of both forms" is implied.
  * the predicate is called at most once per node, only on nodes of Asked.
  * no exception, termination.

KNOWN finding F14 (copying form).  `Node._add_filtered` materialises an accepted node through
`_create_parents()` and then adds it *again* below that copy.  Observed shape, pinned by the
weaker clause CL_F14:

    F14(Keep) = Keep in which every node of Accepted (verdict T or S, asked before the stop)
                has one additional child: a leaf copy of itself (same data, same data_id),
                inserted as its *first* child (for S its only child).  Nodes kept as ancestors
                only (F), Selected nodes and the nodes below them are not duplicated; the copy
                of the start node of `node.filtered()` is not duplicated either.
                If that shape would put two children with the same data_id below one parent
                (an accepted node with a kept child that has the node's own data_id, e.g.
                a[a] with both accepted) the call raises UniqueConstraintError instead.

The strict clause CL_COPY ("ensures result == Keep(source, V) [copying form]", func
"Node._add_filtered") is still evaluated and reported whenever it fails; CL_F14 fails only for a
deviation *other* than the recorded one.

Delivery mode `retcls` (control *classes* returned by the predicate, as the documentation's
"can be returned as value or raised" and the visit() example suggest) is swept over a smaller
bound and reported under clauses carrying the suffix "[control class returned]".
"""
from __future__ import annotations

import itertools
import random
import signal
import traceback

from nutree import Tree
from nutree.common import SelectBranch, SkipBranch, StopTraversal, UniqueConstraintError

from .. import gen, view
from ..harness import Result, Violation, clip, parallel, seed
from .mut import _spec_json, spec_from_json

KINDS = "TFKSLX"
MODES = ("ret", "raise", "raise2")
TREE_APIS = ("filter", "filtered", "copy")
NODE_APIS = ("n.filter", "n.filtered", "n.copy+self", "n.copy-self")

CL_INPLACE = "ensures result == Keep(source, V) [in place]"
CL_INPLACE_STOP = "ensures result == Keep(source, V) [in place, stop signal reached]"
CL_COPY = "ensures result == Keep(source, V) [copying form]"
CL_F14 = "ensures result == Keep(source, V) or the recorded F14 shape"
CL_SRC = "ensures the copying form leaves the source untouched"
CL_FRESH = "ensures the copying form returns a new tree of new nodes"
CL_WF = "ensures wf(result)"
CL_CALLS = "ensures predicate called at most once per node, never below a skipped/selected node or after a stop"
CL_EXC = "ensures no exception escapes"
CL_TERM = "ensures termination"
SUFFIX_CLS = " [control class returned]"

FUNC = {
    "filter": "Node.filter", "n.filter": "Node.filter",
    "filtered": "Node._add_filtered", "copy": "Node._add_filtered",
    "n.filtered": "Node._add_filtered", "n.copy+self": "Node._add_filtered", "n.copy-self": "Node._add_filtered",
}


class _Runaway(Exception):
    pass


class _Timeout(BaseException):
    pass


def _alarm(_s, _f):
    raise _Timeout()


# ------------------------------------------------------------------ predicate delivery
def deliver(kind: str, mode: str):
    """Return or raise what the predicate answers for a node of verdict `kind`."""
    if kind == "T":
        return True
    if kind == "F":
        return False if mode in ("ret", "retcls") else None
    if mode == "ret":
        return {"K": SkipBranch, "L": SelectBranch, "X": StopTraversal}[kind]() if kind != "S" else SkipBranch(and_self=False)
    if mode == "retcls":
        return {"K": SkipBranch, "L": SelectBranch, "X": StopTraversal}[kind] if kind != "S" else SkipBranch(and_self=False)
    if mode == "raise":
        raise ({"K": SkipBranch, "L": SelectBranch, "X": StopTraversal}[kind]() if kind != "S" else SkipBranch(and_self=False))
    if mode == "raise2":
        if kind == "K":
            raise SkipBranch(and_self=True)
        if kind == "S":
            raise SkipBranch(and_self=False)
        if kind == "L":
            raise SelectBranch
        raise StopIteration
    raise ValueError(mode)


# ------------------------------------------------------------------ oracle (raw slots only)
def _kids(n):
    c = n._children
    return [] if c is None else list(c)


def _pre(n):
    out = []
    for c in _kids(n):
        out.append(c)
        out += _pre(c)
    return out


def keep_sets(start, V):
    """(asked list, accepted ids, kept ids, stop reached?) for the branch below raw node `start`."""
    asked = []
    stopped = [False]

    def walk(p):
        for c in _kids(p):
            if stopped[0]:
                return
            asked.append(c)
            k = V[id(c)]
            if k == "X":
                stopped[0] = True
                return
            if k in "TF":
                walk(c)

    walk(start)
    accepted = [n for n in asked if V[id(n)] in "TS"]
    selected = [n for n in asked if V[id(n)] == "L"]
    kept = set()
    for n in accepted + selected:
        p = n
        while p is not start and p is not None:
            kept.add(id(p))
            p = p._parent
    for n in selected:
        kept.update(id(x) for x in _pre(n))
    return asked, {id(n) for n in accepted}, kept, stopped[0]


def restrict(p, kept):
    """Nested [(node, children)] of the structure below p restricted to `kept` (None = everything)."""
    return [(c, restrict(c, kept)) for c in _kids(p) if kept is None or id(c) in kept]


def canon(nested):
    """Identity-free (but data-identity preserving) form: (id(data), data_id, children)."""
    return tuple((id(c._data), c._data_id, canon(sub)) for c, sub in nested)


def canon_f14(nested, accepted):
    out = []
    for c, sub in nested:
        ch = canon_f14(sub, accepted)
        if id(c) in accepted:
            ch = ((id(c._data), c._data_id, ()),) + ch
        out.append((id(c._data), c._data_id, ch))
    return tuple(out)


def has_sibling_collision(cn):
    ids = [x[1] for x in cn]
    return len(set(ids)) != len(ids) or any(has_sibling_collision(x[2]) for x in cn)


def ident(nested):
    return tuple((id(c), ident(sub)) for c, sub in nested)


def actual_nested(p):
    return [(c, actual_nested(c)) for c in _kids(p)]


def show(nested):
    def r(c, sub):
        s = str(c._data)
        try:
            if c._data_id != hash(c._data):
                s += f"#{c._data_id}"
        except TypeError:
            s += f"#{c._data_id}"
        return s + ("[" + " ".join(r(*x) for x in sub) + "]" if sub else "")

    return " ".join(r(*x) for x in nested) or "<empty>"


def show_canon(cn, names):
    def r(x):
        return names.get((x[0], x[1]), "?") + ("[" + " ".join(r(y) for y in x[2]) + "]" if x[2] else "")

    return " ".join(r(x) for x in cn) or "<empty>"


# ------------------------------------------------------------------ one case
def eval_case(spec, case):
    """case = (api, start, verdict letters (one per spec node, '-' = outside the branch), mode).
    Returns ([(clause, func, text)], nontrivial)."""
    api, start, letters, mode = case
    tree, nodes = gen.build(spec)
    n_all = len(nodes)
    cap = 4 * n_all + 16
    V = {id(n): (k if k != "-" else "T") for n, k in zip(nodes, letters)}
    raw_start = tree._root if start == -1 else nodes[start]
    obj = tree if start == -1 else nodes[start]
    func = FUNC[api]
    sfx = SUFFIX_CLS if mode == "retcls" else ""

    asked, accepted, kept, stopped = keep_sets(raw_start, V)
    asked_ids = {id(n) for n in asked}
    exp_nested = restrict(raw_start, kept)
    exp_canon = canon(exp_nested)
    exp_f14 = canon_f14(exp_nested, accepted)
    exp_show = show(exp_nested)
    names = {(id(n._data), n._data_id): show([(n, [])]) for n in nodes}
    in_place = api in ("filter", "n.filter")
    if in_place:
        # whole tree afterwards: outside the branch everything stays
        below = {id(x) for x in _pre(raw_start)}
        keep_total = {id(n) for n in nodes if id(n) not in below} | kept
        exp_total = restrict(tree._root, keep_total)
        exp_ident, exp_total_canon, exp_total_show = ident(exp_total), canon(exp_total), show(exp_total)
        data_before = {id(n): (n._data, n._data_id) for n in nodes}
    else:
        before = view.obs(tree)
        src_ids = {id(n) for n in nodes}

    calls = []

    def pred(node):
        calls.append(node)
        if len(calls) > cap:
            raise _Runaway()
        return deliver(V.get(id(node), "T"), mode)

    out = []
    exc = None
    res = None
    try:
        if api == "filter":
            tree.filter(pred)
        elif api == "n.filter":
            obj.filter(pred)
        elif api == "filtered":
            res = tree.filtered(pred)
        elif api == "copy":
            res = tree.copy(predicate=pred)
        elif api == "n.filtered":
            res = obj.filtered(pred)
        elif api == "n.copy+self":
            res = obj.copy(add_self=True, predicate=pred)
        elif api == "n.copy-self":
            res = obj.copy(add_self=False, predicate=pred)
        else:
            raise ValueError(api)
    except _Runaway:
        return [(CL_TERM + sfx, func, f"predicate called more than {cap} times on a tree of {n_all} nodes")], True
    except Exception as e:  # noqa: BLE001
        exc = e

    nontrivial = len(asked) >= 2 and any(V[id(n)] != "T" for n in asked)

    # --- predicate discipline
    seen = set()
    bad_calls = []
    pos = {id(n): i for i, n in enumerate(nodes)}
    labels = [r[1] for r in spec.nodes]
    for c in calls:
        if id(c) in seen:
            bad_calls.append(f"node @{pos.get(id(c))} asked twice")
        elif id(c) not in asked_ids:
            bad_calls.append((f"node @{pos[id(c)]} ({labels[pos[id(c)]]}) asked although it is below a skipped/selected node or after the stop") if id(c) in pos else f"{type(c).__name__} object asked that is not a node of the source")
        seen.add(id(c))
    if bad_calls:
        out.append((CL_CALLS + sfx, func, "; ".join(bad_calls[:3])))

    if in_place:
        cl = (CL_INPLACE_STOP if stopped else CL_INPLACE) + sfx
        if exc is not None:
            out.append((CL_EXC + sfx, func, f"{type(exc).__name__}: {exc}"))
            return out, nontrivial
        got = actual_nested(tree._root)
        if ident(got) != exp_ident:
            same_shape = canon(got) == exp_total_canon
            out.append((cl, func, f"tree afterwards {show(got)}, required {exp_total_show}" + (" (right shape, but other node objects survive)" if same_shape else "")))
        else:
            for n, _sub in _flatten(got):
                if (n._data, n._data_id) != data_before[id(n)]:
                    out.append((cl, func, f"kept node changed its data/data_id: {n!r}"))
                    break
        wf = view.wf_violations(tree)
        if wf:
            out.append((CL_WF + sfx, func, "; ".join(wf)))
        return out, nontrivial

    # --- copying form
    if view.obs(tree) != before:
        out.append((CL_SRC + sfx, func, f"source afterwards {view.fmt(tree)}"))
    if api in ("n.filtered", "n.copy+self"):
        root_c = (id(raw_start._data), raw_start._data_id)
        exp_canon = ((root_c[0], root_c[1], exp_canon),)
        exp_f14 = ((root_c[0], root_c[1], exp_f14),)
        exp_show = show([(raw_start, exp_nested)])
    collision = has_sibling_collision(exp_f14)
    if exc is not None:
        text = f"{type(exc).__name__}: {exc}; required {exp_show}"
        out.append((CL_COPY + sfx, func, text))
        if not (collision and isinstance(exc, UniqueConstraintError)):
            out.append((CL_F14 + sfx, func, text))
            out.append((CL_EXC + sfx, func, f"{type(exc).__name__}: {exc}"))
        return out, nontrivial
    if not isinstance(res, Tree) or res is tree:
        out.append((CL_FRESH + sfx, func, f"returned {res!r}"))
        return out, nontrivial
    got = actual_nested(res._root)
    got_c = canon(got)
    if any(id(n) in src_ids for n, _ in _flatten(got)):
        out.append((CL_FRESH + sfx, func, "the result contains node objects of the source"))
    if got_c != exp_canon:
        out.append((CL_COPY + sfx, func, f"result {show(got)}, required {exp_show}"))
        if collision or got_c != exp_f14:
            out.append((CL_F14 + sfx, func, f"result {show(got)}, required {exp_show} or (F14) " + ("UniqueConstraintError" if collision else show_canon(exp_f14, names))))
    wf = view.wf_violations(res)
    if wf:
        out.append((CL_WF + sfx, func, "; ".join(wf)))
    return out, nontrivial


def _flatten(nested):
    for c, sub in nested:
        yield c, sub
        yield from _flatten(sub)


# ------------------------------------------------------------------ enumeration
def descendants_idx(spec, i):
    ch = gen.children_of([r[0] for r in spec.nodes])
    out = []

    def rec(k):
        for c in ch[k]:
            out.append(c)
            rec(c)

    rec(i)
    return out


def exhaustive_cases(spec, modes):
    """Tree level: all 6^n assignments; branch level: for every node with descendants all
    assignments over the descendants (nodes outside are never asked: letter '-')."""
    n = len(spec)
    for letters in itertools.product(KINDS, repeat=n):
        s = "".join(letters)
        for mode in modes:
            for api in TREE_APIS:
                yield (api, -1, s, mode)
    for i in range(n):
        d = descendants_idx(spec, i)
        if not d:
            continue
        for letters in itertools.product(KINDS, repeat=len(d)):
            arr = ["-"] * n
            for k, l in zip(d, letters):
                arr[k] = l
            s = "".join(arr)
            for mode in modes:
                for api in NODE_APIS:
                    yield (api, i, s, mode)


def sampled_cases(spec, rng, count, modes):
    n = len(spec)
    weights = [3, 3, 1, 1, 1, 0.6]
    branchy = [i for i in range(n) if descendants_idx(spec, i)]
    for _ in range(count):
        s = "".join(rng.choices(KINDS, weights=weights, k=n))
        mode = rng.choice(modes)
        for api in TREE_APIS:
            yield (api, -1, s, mode)
        if branchy:
            i = rng.choice(branchy)
            d = set(descendants_idx(spec, i))
            sb = "".join(c if k in d else "-" for k, c in enumerate(s))
            for api in NODE_APIS:
                yield (api, i, sb, mode)


def _case_repr(spec, case):
    return f"{spec.short()} :: {case[0]}|{case[1]}|{case[2]}|{case[3]}"


def _witness(spec, case):
    return {"spec": _spec_json(spec), "case": list(case)}


def _run_chunk(chunk, prop, timeout):
    """chunk items: (spec, None, modes) = exhaustive, (spec, (seed, count), modes) = sampled."""
    res = Result(prop)
    best: dict = {}  # (func, clause) -> [(size key, Violation)]: only the smallest witnesses travel back
    old = signal.signal(signal.SIGALRM, _alarm)
    try:
        for spec, sample, modes in chunk:
            if sample is None:
                cases = exhaustive_cases(spec, modes)
            else:
                cases = sampled_cases(spec, random.Random(sample[0]), sample[1], modes)
            case = None
            signal.setitimer(signal.ITIMER_REAL, timeout)
            try:
                for case in cases:
                    try:
                        diffs, nontrivial = eval_case(spec, case)
                    except _Timeout:
                        raise
                    except Exception:  # noqa: BLE001
                        res.errors.append(f"{_case_repr(spec, case)}: {traceback.format_exc()[-800:]}")
                        continue
                    res.add_case(_case_repr(spec, case), nontrivial=nontrivial)
                    for clause, func, text in diffs:
                        _keep_smallest(best, Violation(prop, clause, func, _witness(spec, case), clip(text)), (len(spec), sum(c not in "T-" for c in case[2]), case[2]))
            except _Timeout:
                if case is not None:
                    res.violations.append(Violation(prop, CL_TERM, FUNC[case[0]], _witness(spec, case), f"no result within {timeout}s for the cases of this tree (last case started: {case})"))
            finally:
                signal.setitimer(signal.ITIMER_REAL, 0)
    finally:
        signal.signal(signal.SIGALRM, old)
    for lst in best.values():
        res.violations += [v for _k, v in lst]
    return res


def _keep_smallest(best, v, size, per_key=4):
    lst = best.setdefault(v.key(), [])
    if len(lst) < per_key:
        lst.append((size, v))
        lst.sort(key=lambda t: t[0])
    elif size < lst[-1][0]:
        lst[-1] = (size, v)
        lst.sort(key=lambda t: t[0])


# ------------------------------------------------------------------ inputs
def specs_upto(max_n, min_n=0):
    """Every ordered forest x {pairwise distinct labels} + {all sibling-distinct labelings over {a,b}}
    (clones, incl. a node below its own clone such as a[a])."""
    out = []
    for n in range(min_n, max_n + 1):
        for pv in gen.forests(n):
            out.append(gen.Spec(tuple((pv[i], f"n{i}", None, None) for i in range(n))))
            if n >= 2:
                for labs in gen.labelings(pv, ("a", "b")):
                    out.append(gen.Spec(tuple((pv[i], labs[i], None, None) for i in range(n))))
    return out


def run(prop: str, tier: str, only=None) -> Result:
    quick = tier == "quick"
    base = seed() * 1_000_003 + 808
    n_ex = 3 if quick else 4
    items = [(s, None, MODES) for s in specs_upto(n_ex)]
    items += [(s, None, MODES) for s in gen.eqpair_specs(3)]
    items += [(s, None, MODES) for s in gen.explicit_id_specs(2 if quick else 3)]
    # control classes returned: smaller bound, own clauses
    n_cls = 2 if quick else 3
    items += [(s, None, ("retcls",)) for s in specs_upto(n_cls)]
    # sampled part
    sampled = []
    k = 0
    if quick:
        for s in specs_upto(4, 4):
            k += 1
            sampled.append((s, (base + k, 120), MODES))
        n_big, per_big, lo, hi = 150, 40, 5, 6
    else:
        for s in gen.eqpair_specs(4, min_n=4):
            k += 1
            sampled.append((s, (base + k, 150), MODES))
        n_big, per_big, lo, hi = 1500, 120, 5, 6
    for j in range(n_big):
        rng = random.Random(base + 100_000 + j)
        sp = gen.random_spec(rng, rng.randint(lo, hi))
        sampled.append((sp, (base + 200_000 + j, per_big), MODES))
    # larger trees (long sibling runs / long chains): paths that depend on the size of a level or of the branch
    n_large = 45 if quick else 300
    for j, sp in enumerate(gen.big_specs(base, n_large)):
        sampled.append((sp, (base + 300_000 + j, 12 if quick else 30), MODES))
    # cost of an exhaustive item grows as 6^n: split the 4-node ones finely by sorting big first
    items.sort(key=lambda it: len(it[0]), reverse=True)
    total = Result(prop)
    total.merge(parallel(_run_chunk, items, prop, 600.0, prop=prop, chunks_per_proc=16))
    r2 = parallel(_run_chunk, sampled, prop, 600.0, prop=prop, chunks_per_proc=8)
    r2.exhaustive = False
    total.merge(r2)
    total.bounds["Node.filter / Node._add_filtered (tree.filter, tree.filtered, tree.copy(predicate=), node.filter, node.filtered, node.copy(add_self=True|False, predicate=))"] = (
        f"exhaustive: every ordered forest with <= {n_ex} nodes x (distinct labels + all labelings over {{a,b}}), equal-data pairs (ids 1,2) <= 3 nodes, explicit data_id <= {2 if quick else 3} nodes "
        f"x ALL 6^n assignments of {{T,F,SkipBranch,SkipBranch(and_self=False),SelectBranch,StopTraversal}} (branch level: all assignments over the branch) "
        f"x delivery {{returned instance, raised instance, raised class / StopIteration}}; control classes returned: forests <= {n_cls} nodes; "
        + (f"sampled: every 4-node spec x 120 seeded assignments, {n_big} random trees with 5..6 nodes x {per_big} assignments" if quick else f"sampled: every 4-node equal-data-pair spec x 150 seeded assignments, {n_big} random trees with 5..6 nodes x {per_big} seeded assignments")
        + f"; {n_large} larger seeded trees with 18..60 nodes (long sibling runs, long chains, mixed; 15% repeated labels) x {12 if quick else 30} assignments"
        + f" (VERIF_SEED={seed()})"
    )
    return total


def replay(witness: dict, prop: str):
    spec = spec_from_json(witness["spec"])
    case = tuple(witness["case"])
    old = signal.signal(signal.SIGALRM, _alarm)
    signal.setitimer(signal.ITIMER_REAL, 60.0)
    try:
        diffs, _ = eval_case(spec, case)
    except _Timeout:
        return [(CL_TERM, "no result within 60s")]
    finally:
        signal.setitimer(signal.ITIMER_REAL, 0)
        signal.signal(signal.SIGALRM, old)
    return [(c, t) for c, _f, t in diffs]
