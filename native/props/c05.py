"""C05 -- save() then load() reproduces the tree under every storage option (bounded tier).

Document-level round trip on the real code:  for every enumerated small tree (plain / typed /
file-system; string and object data; clones at every relative position, also below a sibling
of the first occurrence; clones of differing kind; unicode; explicit data_ids; equal data under
distinct explicit ids) the tree is saved and loaded again under the option matrix

    key_map   in {default(True), off(False), custom dict}
    value_map in {default(True), off(False), custom dict (+ for typed trees: custom without 'kind')}
    compression in {False, True, ZIP_STORED, ZIP_DEFLATED, ZIP_BZIP2, ZIP_LZMA}
    target    in {str path, pathlib.Path, open text file, StringIO}
    meta      in {None, a dict}
    mapper style: none (string trees), callback pair, derived-class mappers, library class
                  mappers (DictWrapper, FileSystemTree)

and the loaded tree is compared, by raw slots, with the original:

    class of the result, shape + child order, data (strings equal / objects field-equal),
    data_ids (explicit ids equal, default ids stay default == hash(data)), kinds,
    clone groups (partition of the pre-order positions by data_id; for object data the
    members of a group must share ONE data object), file_meta handed back,
    well-formedness of the loaded tree, and "no option changes the loaded result".

The oracle never calls save/load helpers of the library to compute the expectation: the
expected description is read from the raw slots of the original tree and cross-checked
against the description derived from the enumerated spec alone.

This module also hosts the helpers shared with c12.py / c14.py (families, describe, compare).
"""
from __future__ import annotations

import copy
import io
import itertools
import json
import os
import random
import shutil
import signal
import tempfile
import traceback
import zipfile
from contextlib import contextmanager
from dataclasses import dataclass
from pathlib import Path

from nutree import Tree
from nutree.common import DictWrapper
from nutree.fs import FileSystemEntry, FileSystemTree
from nutree.typed_tree import TypedTree

from .. import gen, hist, view
from ..harness import Result, Violation, clip, parallel, seed
from .mut import _spec_json, spec_from_json

# ====================================================================== data classes


@dataclass(frozen=True)
class Rec:
    """Small frozen dataclass: hashable, equality by value (the hash -- and therefore the
    default data_id -- of a rebuilt object equals that of the original)."""

    name: str
    size: int


class Ent:
    """Mutable entity with identity hash, keyed by `guid` through calc_data_id (the style of
    the user guide's Person/Department)."""

    __slots__ = ("name", "guid")

    def __init__(self, name, guid):
        self.name = name
        self.guid = guid

    def __repr__(self):
        return f"Ent<{self.name},{self.guid}>"


def datakey(d):
    """Identity-free, field-wise comparable key of a data object (type included)."""
    if type(d) is str:
        return ("str", d)
    if isinstance(d, Lab):
        return ("Lab", d.text)
    if isinstance(d, Rec):
        return ("Rec", d.name, d.size)
    if isinstance(d, Ent):
        return ("Ent", d.name, d.guid)
    if isinstance(d, DictWrapper):
        return ("DictWrapper", tuple(sorted((str(k), repr(v)) for k, v in d._dict.items())))
    if isinstance(d, FileSystemEntry):
        return ("FileSystemEntry", d.name, d.is_dir, d.size, d.mdate)
    return (type(d).__name__, repr(d))


# ---------------------------------------------------------------- callback mappers (a pair of inverses)
def rec_ser(node, data):
    d = node.data
    data["type"] = "rec"
    data["name"] = d.name
    data["size"] = d.size
    return data


def rec_de(parent, data):
    assert data["type"] == "rec", data
    return Rec(data["name"], data["size"])


def rec_de_consume(parent, data):
    """A load mapper that *consumes* the entry it is handed (pops every key it understands, the stored id included):
    what the loader needs from the entry must have been read before the mapper runs."""
    assert data.pop("type") == "rec", data
    data.pop("data_id", None)
    return Rec(data.pop("name"), data.pop("size"))


def recnest_ser(node, data):
    """A mapper that also stores a *nested* dict whose keys are the user's own -- some of them spelled like the short
    codes / long names of the key map ('s', 'i', 'k', 'str'): only the entry's own keys are the format's business."""
    d = node.data
    data.update({"type": "rec", "name": d.name, "size": d.size, "attrs": {"s": d.size, "i": d.name, "str": "v", "k": [d.size, {"s": 1}]}})
    return data


def recnest_de(parent, data):
    a = data["attrs"]
    assert data["type"] == "rec" and sorted(a) == ["i", "k", "s", "str"] and a["k"] == [a["s"], {"s": 1}] and a["str"] == "v", data
    return Rec(a["i"], a["s"])


def recshort_ser(node, data):
    """A mapper whose own field names are one-letter words that the *default* key map uses as codes ('s', 'i', 'k'):
    legitimate as long as the document's key map does not declare them (key_map=False or a custom map)."""
    d = node.data
    data.update({"t": "rec", "i": d.name, "s": d.size, "k": True})
    return data


def recshort_de(parent, data):
    assert data["t"] == "rec" and data["k"] is True, data
    return Rec(data["i"], data["s"])


def reckind_ser(node, data):
    """typed trees whose objects are told apart by the node's kind: the mapper stores the fields only ..."""
    d = node.data
    data.update({"name": d.name, "size": d.size})
    return data


def reckind_de(parent, data):
    """... and the load mapper relies on the *stored kind* of the entry to rebuild the object"""
    k = data["kind"]
    assert isinstance(k, str) and k, data
    return Rec(data["name"], data["size"])


@dataclass(frozen=True)
class Lab:
    """A one-field value object: its serialize mapper stores it under the entry's own key 'str' (so the entry looks like a
    plain string node's), its load mapper rebuilds it from there."""

    text: str


def lab_ser(node, data):
    data["str"] = node.data.text
    return data


def lab_de(parent, data):
    return Lab(data["str"])


def str_de(parent, data):
    """Callback for string trees whose entries are dicts ({'str':..., 'data_id':...})."""
    return data["str"]


def ent_ser(node, data):
    data["type"] = "ent"
    data["name"] = node.data.name
    return data


def ent_de(parent, data):
    assert data["type"] == "ent", data
    return Ent(data["name"], data["data_id"])


# ---------------------------------------------------------------- derived classes (user guide: "Using Derived Classes")
class RecTree(Tree):
    DEFAULT_KEY_MAP = {**Tree.DEFAULT_KEY_MAP, "type": "t", "name": "n", "size": "z"}
    DEFAULT_VALUE_MAP = {"type": ["rec", "other"]}

    def serialize_mapper(self, node, data):
        return rec_ser(node, data)

    @staticmethod
    def deserialize_mapper(parent, data):
        return rec_de(parent, data)


class EntTypedTree(TypedTree):
    DEFAULT_KEY_MAP = {**TypedTree.DEFAULT_KEY_MAP, "type": "t", "name": "n"}
    DEFAULT_VALUE_MAP = {"type": ["ent", "dept"]}

    def calc_data_id(tree, data):
        if hasattr(data, "guid"):
            return data.guid
        return hash(data)

    def serialize_mapper(self, node, data):
        return ent_ser(node, data)

    @staticmethod
    def deserialize_mapper(parent, data):
        return ent_de(parent, data)


# ====================================================================== label -> data factories
UNI = ("ä€", "日本語\udce9", "😀\"\\q")  # unicode alphabet (2-byte, 3-byte, astral + JSON escapes)


def _memo(fn):
    def factory():
        cache = {}

        def mk(label):
            if label not in cache:
                cache[label] = fn(label)
            return cache[label]

        return mk

    return factory


def _size_of(label):
    return 3 + (sum(ord(c) for c in label) % 11) + len(label)


mk_str = _memo(lambda lab: lab)
mk_rec = _memo(lambda lab: Rec(lab, _size_of(lab)))
mk_lab = _memo(lambda lab: Lab(lab))
mk_ent = _memo(lambda lab: Ent("n_" + lab, "{g-" + lab + "}"))
mk_dw = _memo(lambda lab: DictWrapper({"name": lab}))


def _fs_entry(lab):
    if lab == "a":
        return FileSystemEntry("dir_a", is_dir=True)
    if lab == "b":  # falsy attribute values that are real values: an empty file dated at the epoch
        return FileSystemEntry("b.txt", size=0, mdate=0.0)
    # modification times as st_mtime delivers them on file systems with nanosecond stamps (digits behind the microsecond),
    # before the epoch, and far in the future: a float has to come back bit for bit
    md = (1700000000.1234567, -86400.000000123, 4102444800.9999999)[_size_of(lab) % 3] + _size_of(lab)
    return FileSystemEntry(("ü_" if lab == "c" else "") + lab + ".txt", size=100 * _size_of(lab), mdate=md)


mk_fs = _memo(_fs_entry)


# ====================================================================== families
class Family:
    """How to build, save and load one class of trees."""

    def __init__(self, name, *, new_tree, load_cls, typed, mk, save_mapper, load_mapper, key_custom, value_custom, guid=False, style="", km_names=("default", "off", "custom")):
        self.name = name
        self.km_names = tuple(km_names)
        self.new_tree = new_tree
        self.load_cls = load_cls
        self.typed = typed
        self.mk = mk
        self.save_mapper = save_mapper
        self.load_mapper = load_mapper
        self.key_custom = key_custom
        self.value_custom = value_custom  # labels -> {name: map}
        self.guid = guid
        self.style = style

    def key_maps(self):
        return {"default": True, "off": False, "custom": dict(self.key_custom), "empty": {}}  # {}: a valid (falsy) map that shortens nothing

    def value_maps(self, labels):
        out = {"default": True, "off": False, "empty": {}}
        out.update(self.value_custom(labels))
        return out

    def value_map_names(self):
        return list(self.value_maps(("a",)).keys())


def _vals(labels):
    return ["zz"] + sorted(set(labels), reverse=True)


FAMILIES = {}


def _fam(name, **kw):
    FAMILIES[name] = Family(name, **kw)


_fam("str", new_tree=lambda: Tree("T"), load_cls=Tree, typed=False, mk=mk_str, save_mapper=None, load_mapper=None,
     key_custom={"str": "S", "data_id": "D"}, value_custom=lambda L: {"custom": {"str": _vals(L)}}, style="no mapper")
_fam("strcb", new_tree=lambda: Tree("T"), load_cls=Tree, typed=False, mk=mk_str, save_mapper=None, load_mapper=str_de,
     key_custom={"str": "S", "data_id": "D"}, value_custom=lambda L: {"custom": {"str": _vals(L)}}, style="load callback")
_fam("typed", new_tree=lambda: TypedTree("T"), load_cls=TypedTree, typed=True, mk=mk_str, save_mapper=None, load_mapper=None,
     key_custom={"str": "S", "kind": "K", "data_id": "D"},
     value_custom=lambda L: {"custom": {"kind": ["zz", "k2", "", "k1"], "str": _vals(L)}, "custom_nokind": {"str": _vals(L)}}, style="no mapper")
_fam("typedcb", new_tree=lambda: TypedTree("T"), load_cls=TypedTree, typed=True, mk=mk_str, save_mapper=None, load_mapper=str_de,
     key_custom={"str": "S", "kind": "K", "data_id": "D"},
     value_custom=lambda L: {"custom": {"kind": ["zz", "k2", "", "k1"], "str": _vals(L)}, "custom_nokind": {"str": _vals(L)}}, style="load callback")
_fam("rec", new_tree=lambda: Tree("T"), load_cls=Tree, typed=False, mk=mk_rec, save_mapper=rec_ser, load_mapper=rec_de,
     key_custom={"name": "n", "type": "t", "data_id": "D"},
     value_custom=lambda L: {"custom": {"type": ["other", "rec"], "name": _vals(L), "size": [0] + sorted({_size_of(x) for x in L})}}, style="callback mappers")
_fam("recpop", new_tree=lambda: Tree("T"), load_cls=Tree, typed=False, mk=mk_rec, save_mapper=rec_ser, load_mapper=rec_de_consume,
     key_custom={"name": "n", "type": "t", "data_id": "D"},
     value_custom=lambda L: {"custom": {"type": ["other", "rec"], "name": _vals(L)}}, style="callback mappers, the load mapper consumes its entry")
_fam("recpoptyped", new_tree=lambda: TypedTree("T"), load_cls=TypedTree, typed=True, mk=mk_rec, save_mapper=rec_ser, load_mapper=rec_de_consume,
     key_custom={"name": "n", "type": "t", "kind": "K"},
     value_custom=lambda L: {"custom": {"kind": ["k2", "zz", "k1"], "type": ["other", "rec"]}}, style="callback mappers, the load mapper consumes its entry")
_fam("rectyped", new_tree=lambda: TypedTree("T"), load_cls=TypedTree, typed=True, mk=mk_rec, save_mapper=rec_ser, load_mapper=rec_de,
     key_custom={"name": "n", "type": "t", "kind": "K"},
     value_custom=lambda L: {"custom": {"kind": ["k2", "zz", "k1"], "type": ["other", "rec"]}, "custom_nokind": {"name": _vals(L)}}, style="callback mappers")
_fam("recnest", new_tree=lambda: Tree("T"), load_cls=Tree, typed=False, mk=mk_rec, save_mapper=recnest_ser, load_mapper=recnest_de,
     key_custom={"name": "n", "attrs": "s", "data_id": "i"},
     value_custom=lambda L: {"custom": {"type": ["other", "rec"], "name": _vals(L)}}, style="callback mappers storing a nested dict with keys spelled like key-map codes")
_fam("recshort", new_tree=lambda: Tree("T"), load_cls=Tree, typed=False, mk=mk_rec, save_mapper=recshort_ser, load_mapper=recshort_de,
     key_custom={"data_id": "D", "t": "T"}, km_names=("off", "custom", "empty"),
     value_custom=lambda L: {"custom": {"t": ["other", "rec"], "i": _vals(L)}}, style="callback mappers whose field names equal the default map's codes (key_map off / custom only)")
_fam("reckind", new_tree=lambda: TypedTree("T"), load_cls=TypedTree, typed=True, mk=mk_rec, save_mapper=reckind_ser, load_mapper=reckind_de,
     key_custom={"name": "n", "kind": "K"}, value_custom=lambda L: {"custom": {"kind": ["k2", "zz", "k1"]}, "custom_nokind": {"name": _vals(L)}},
     style="callback mappers, the load mapper reads the entry's stored kind")
_fam("labtyped", new_tree=lambda: TypedTree("T"), load_cls=TypedTree, typed=True, mk=mk_lab, save_mapper=lab_ser, load_mapper=lab_de,
     key_custom={"str": "S", "kind": "K"}, value_custom=lambda L: {"custom": {"kind": ["k2", "zz", "k1"], "str": _vals(L)}, "custom_nokind": {"str": _vals(L)}},
     style="callback mappers storing an object under the entry's own key 'str'")
_fam("lab", new_tree=lambda: Tree("T"), load_cls=Tree, typed=False, mk=mk_lab, save_mapper=lab_ser, load_mapper=lab_de,
     key_custom={"str": "S", "data_id": "D"}, value_custom=lambda L: {"custom": {"str": _vals(L)}}, style="callback mappers storing an object under the entry's own key 'str'")
_fam("dw", new_tree=lambda: Tree("T"), load_cls=Tree, typed=False, mk=mk_dw, save_mapper=DictWrapper.serialize_mapper,
     load_mapper=DictWrapper.deserialize_mapper, key_custom={"name": "n"}, value_custom=lambda L: {"custom": {"name": _vals(L)}},
     style="DictWrapper class mappers as callbacks")
_fam("derived", new_tree=lambda: RecTree("T"), load_cls=RecTree, typed=False, mk=mk_rec, save_mapper=None, load_mapper=None,
     key_custom={"name": "N", "type": "T"}, value_custom=lambda L: {"custom": {"name": _vals(L)}}, style="derived-class mappers")
_fam("derivedtyped", new_tree=lambda: EntTypedTree("T"), load_cls=EntTypedTree, typed=True, mk=mk_ent, save_mapper=None, load_mapper=None,
     key_custom={"name": "N", "kind": "K", "data_id": "D"},
     value_custom=lambda L: {"custom": {"kind": ["zz", "k1", "k2"], "type": ["ent"]}, "custom_nokind": {"type": ["x", "ent"]}},
     guid=True, style="derived-class mappers + calc_data_id")
_fam("fs", new_tree=lambda: FileSystemTree("T"), load_cls=FileSystemTree, typed=False, mk=mk_fs, save_mapper=None, load_mapper=None,
     key_custom={"n": "N", "m": "M", "data_id": "i"},
     value_custom=lambda L: {"custom": {"n": ["zz"] + sorted({_fs_entry(x).name for x in L})}}, style="FileSystemTree class mappers")


def _mk_of(tree, nodes, base, fam):
    """label -> data factory that hands out the objects already in the tree (so that a history's add() of a known
    label makes a clone) and fresh ones otherwise"""
    have = {r[1]: n._data for r, n in zip(base.nodes, nodes)}
    fresh = fam.mk()
    return lambda lab: have[lab] if lab in have else fresh(lab)


def build(fam: Family, spec: gen.Spec):
    """Build the real tree through the public API.  Returns (tree, nodes in spec order)."""
    if spec.hist is not None:
        # the tree of `spec` as the result of a history (gen.history_specs): base tree, every accessor once, one change
        base = gen.Spec(spec.hist[0], typed=spec.typed)
        tree, nodes = build(fam, base)
        hist.warm(tree, nodes)
        mk = _mk_of(tree, nodes, base, fam)
        if not hist.apply(tree, nodes, list(spec.hist[1]), mk, typed=fam.typed):
            raise RuntimeError(f"history refused: {spec.short()}")
        now = view.reachable(tree)
        at = {id(n): i for i, n in enumerate(now)}
        pv = [(-1 if n._parent is tree._root else at[id(n._parent)]) for n in now]
        if pv != [r[0] for r in spec.nodes]:
            raise RuntimeError(f"history leads to another shape than {spec.short()}")
        return tree, now
    tree = fam.new_tree()
    mk = fam.mk()
    nodes = []
    for p, lab, did, kind in spec.nodes:
        parent = tree if p == -1 else nodes[p]
        kw = {}
        if did is not None:
            kw["data_id"] = did
        if fam.typed:
            # every node gets its *own* str object for its kind (as kinds read from records / files are): kinds are
            # compared by value, an implementation comparing them with `is` must fail
            kw["kind"] = "".join(list(kind)) if isinstance(kind, str) else kind
        nodes.append(parent.add(mk(lab), **kw))
    return tree, nodes


# ====================================================================== descriptions
class Desc:
    """Identity-free description of a tree, read from raw slots (pre-order)."""

    __slots__ = ("parents", "data", "ids", "kinds", "groups", "shared")

    def sig(self):
        return (tuple(self.parents), tuple(self.data), tuple(self.ids), tuple(self.kinds), self.groups, self.shared)


def idnorm(data, data_id):
    """('H',) when the id is the default hash(data), else ('I', id)."""
    try:
        custom = data_id != hash(data)
    except TypeError:
        custom = True
    return ("I", data_id) if custom else ("H",)


def describe(tree, limit: int = 5000) -> Desc:
    parents, data, ids, kinds, raw_ids, objs = [], [], [], [], [], []

    def walk(node, p):
        for c in view.kids(node):
            i = len(parents)
            if i > limit:
                raise RuntimeError("describe(): structure is not finite")
            parents.append(p)
            data.append(datakey(c._data))
            ids.append(idnorm(c._data, c._data_id))
            kinds.append(getattr(c, "_kind", None))
            raw_ids.append(c._data_id)
            objs.append(c._data)
            walk(c, i)

    walk(tree._root, -1)
    d = Desc()
    d.parents, d.data, d.ids, d.kinds = parents, data, ids, kinds
    by = {}
    for i, r in enumerate(raw_ids):
        by.setdefault((type(r).__name__, r), []).append(i)
    d.groups = tuple(sorted(tuple(g) for g in by.values()))
    # for object data: does every clone group hold ONE object?
    d.shared = tuple(
        all(objs[i] is objs[g[0]] for i in g) if type(objs[g[0]]) is not str else True for g in d.groups
    )
    return d


def desc_from_spec(fam: Family, spec: gen.Spec) -> Desc:
    """The description the spec promises, without building a tree."""
    mk = fam.mk()
    d = Desc()
    d.parents = [r[0] for r in spec.nodes]
    d.data, d.ids, d.kinds = [], [], []
    by = {}
    for i, (p, lab, did, kind) in enumerate(spec.nodes):
        obj = mk(lab)
        d.data.append(datakey(obj))
        if did is not None:
            d.ids.append(("I", did))
            key = ("I", did)
        elif fam.guid:
            d.ids.append(("I", obj.guid))
            key = ("I", obj.guid)
        else:
            d.ids.append(("H",))
            key = ("L", lab)
        d.kinds.append(kind if fam.typed else None)
        by.setdefault(key, []).append(i)
    d.groups = tuple(sorted(tuple(g) for g in by.values()))
    d.shared = tuple(True for _ in d.groups)
    return d


def render(d: Desc) -> str:
    """One-line rendering of a description (for messages)."""
    ch = {}
    for i, p in enumerate(d.parents):
        ch.setdefault(p, []).append(i)

    def r(i):
        s = "/".join(str(x) for x in d.data[i][1:])
        if d.ids[i] != ("H",):
            s += f"#{d.ids[i][1]!r}"
        if d.kinds[i] is not None:
            s += f":{d.kinds[i]}"
        if ch.get(i):
            s += "[" + " ".join(r(c) for c in ch[i]) + "]"
        return s

    return " ".join(r(c) for c in ch.get(-1, [])) or "<empty>"


CL_CLASS = "ensures type(result) is the loading class"
CL_SHAPE = "ensures result has the same shape and child order"
CL_DATA = "ensures node data equal (strings equal / objects field-equal as rebuilt by the mapper)"
CL_IDS = "ensures data_ids equal (explicit ids kept, default ids stay hash(data))"
CL_KINDS = "ensures node kinds equal"
CL_GROUPS = "ensures clone groups equal (partition of nodes by data_id)"
CL_SHARED = "ensures the members of a clone group share one data object"
CL_PARENT = "ensures the load mapper is called with the parent node of the node being created"
CL_META = "ensures file_meta == header keys + meta passed to save"
CL_WF = "ensures result is well-formed"
CL_INDEP = "ensures loaded result does not depend on the storage options"
CL_SAVE_EXC = "save() raises no exception"
CL_LOAD_EXC = "load(save()) raises no exception"
CL_TIMEOUT = "save()/load() terminates"


def compare(exp: Desc, got: Desc) -> list:
    """Clauses of the round-trip postcondition violated by `got` w.r.t. `exp`."""
    out = []
    if exp.parents != got.parents:
        out.append((CL_SHAPE, f"parent vector (pre-order) {got.parents} != {exp.parents}; loaded '{render(got)}' vs original '{render(exp)}'"))
        return out
    if exp.data != got.data:
        i = next(k for k in range(len(exp.data)) if exp.data[k] != got.data[k])
        out.append((CL_DATA, f"node #{i + 1}: loaded data {got.data[i]} != original {exp.data[i]}; loaded '{render(got)}' vs original '{render(exp)}'"))
    if exp.ids != got.ids:
        i = next(k for k in range(len(exp.ids)) if exp.ids[k] != got.ids[k])
        f = lambda t: "default hash(data)" if t == ("H",) else f"explicit {t[1]!r}"  # noqa: E731
        out.append((CL_IDS, f"node #{i + 1}: loaded data_id is {f(got.ids[i])}, original is {f(exp.ids[i])}; loaded '{render(got)}' vs original '{render(exp)}'"))
    if exp.kinds != got.kinds:
        out.append((CL_KINDS, f"kinds (pre-order) {got.kinds} != {exp.kinds}"))
    if exp.groups != got.groups:
        out.append((CL_GROUPS, f"clone groups (0-based pre-order positions sharing a data_id) {got.groups} != {exp.groups}"))
    else:
        # C12: only a repeated occurrence "whose kind equals that of its first occurrence" is stored as a
        # reference; clones of differing kind are stored in full and rebuilt by the mapper, so object
        # sharing after load is required for same-kind groups only (the data_id partition is checked above)
        bad = [g for g, se, sg in zip(exp.groups, exp.shared, got.shared) if se and not sg and len({exp.kinds[i] for i in g}) == 1]
        if bad:
            out.append((CL_SHARED, f"nodes at pre-order positions {bad[0]} share data_id but hold distinct data objects after load (one shared object before save)"))
    return out


# ====================================================================== option matrix
COMPRESSION = {
    "off": False, "true": True, "stored": zipfile.ZIP_STORED, "deflated": zipfile.ZIP_DEFLATED,
    "bzip2": zipfile.ZIP_BZIP2, "lzma": zipfile.ZIP_LZMA,
}
TARGETS = ("path", "pathlib", "file", "sio")
METAS = ("none", "meta", "filemeta")  # filemeta: user metadata that is the file_meta of an earlier load() (holds stale reserved entries)
# (user keys may start with '$' as well -- '$schema', '$comment' --: only the four names the format defines are reserved)
USER_META = {"foo": "bar", "count": 3, "nested": {"k": [1, 2, None], "ü": "€"}, "flag": True, "$schema": "urn:x", "$": 0}
RESERVED_META = ("$generator", "$format_version", "$key_map", "$value_map")


def pairwise(factors):
    """Greedy pairwise-covering set over the given factor value lists (deterministic)."""
    idx = [range(len(f)) for f in factors]
    allc = list(itertools.product(*idx))
    pairs = [(i, j) for i in range(len(factors)) for j in range(i + 1, len(factors))]
    need = {(i, a, j, b) for i, j in pairs for a in idx[i] for b in idx[j]}
    out = []
    while need:
        best, bs = None, -1
        for c in allc:
            s = sum(1 for i, j in pairs if (i, c[i], j, c[j]) in need)
            if s > bs:
                best, bs = c, s
        out.append(best)
        for i, j in pairs:
            need.discard((i, best[i], j, best[j]))
    return [tuple(f[k] for f, k in zip(factors, c)) for c in out]


_COMBO_CACHE = {}


def combos(fam: Family, mode: str):
    """Option tuples (key_map, value_map, compression, target, meta) for a family."""
    key = (tuple(fam.value_map_names()), mode, fam.km_names)
    if key not in _COMBO_CACHE:
        kms = list(fam.km_names)
        vms = fam.value_map_names()
        comps = list(COMPRESSION)
        if mode == "pair":
            c = pairwise([kms, vms, comps, list(TARGETS), list(METAS)])
        else:  # full matrix over the options the property names; meta alternates
            c = []
            for n, (k, v, cp, t) in enumerate(itertools.product(kms, vms, comps, TARGETS)):
                c.append((k, v, cp, t, METAS[n % 3]))
        _COMBO_CACHE[key] = c
    return _COMBO_CACHE[key]


class _Timeout(Exception):
    pass


@contextmanager
def time_limit(seconds: float):
    def h(signum, frame):
        raise _Timeout()

    try:
        old = signal.signal(signal.SIGALRM, h)
    except ValueError:  # not in the main thread: run unguarded
        yield
        return
    signal.setitimer(signal.ITIMER_REAL, seconds)
    try:
        yield
    finally:
        signal.setitimer(signal.ITIMER_REAL, 0)
        signal.signal(signal.SIGALRM, old)


class ParentRecorder:
    """Wraps a deserialize mapper (documented signature mapper(parent, data)): notes the `parent` node of every call
    and what the mapper returned, so that the finished tree can be asked whether each object ended up below the
    node the mapper was shown (an inverse mapper may rebuild an object from its parent, e.g. a relative path)."""

    def __init__(self, de):
        self.de, self.calls = de, []

    def __call__(self, parent, item):
        r = self.de(parent, item)
        self.calls.append((parent, item if r is None else r))
        return r

    def misplaced(self, tree) -> list:
        have: dict = {}
        for n in view.reachable(tree):
            k = (id(n._parent), id(n._data))
            have[k] = have.get(k, 0) + 1
        bad = []
        for parent, r in self.calls:
            k = (id(parent), id(r))
            if have.get(k, 0) > 0:
                have[k] -= 1
            else:
                bad.append(f"mapper was called with parent={parent!r} for {r!r}, but no node below that parent carries that object")
        return bad


def _exc(e) -> str:
    return f"{type(e).__name__}: {clip(str(e), 200)}"


def save_load(fam: Family, tree, labels, opts, tmpdir):
    """One save + load under `opts`.  Returns (loaded_tree|None, file_meta, [(clause, text)])."""
    km, vm, comp, target, metaname = opts
    key_map = copy.deepcopy(fam.key_maps()[km])
    value_map = copy.deepcopy(fam.value_maps(labels)[vm])
    meta = copy.deepcopy(USER_META) if metaname in ("meta", "filemeta") else None
    if metaname == "filemeta":
        meta = {"$generator": "nutree/0.0.1", "$format_version": "0.1", "$key_map": {"data_id": "i", "str": "s", "stale": "x"}, "$value_map": {"kind": ["stale1", "stale2"], "stale": ["y"]}, **meta}
    skw = dict(key_map=key_map, value_map=value_map, compression=COMPRESSION[comp], meta=meta)
    if fam.save_mapper is not None:
        skw["mapper"] = fam.save_mapper
    file_meta = {}
    lkw = dict(file_meta=file_meta)
    rec = None
    if fam.load_mapper is not None:
        rec = lkw["mapper"] = ParentRecorder(fam.load_mapper)
    cls = fam.load_cls
    path = os.path.join(tmpdir, "t.nutree")
    buf = None
    try:
        with time_limit(10):
            if target == "path":
                tree.save(path, **skw)
            elif target == "pathlib":
                tree.save(Path(path), **skw)
            elif target == "file":
                with open(path, "w", encoding="utf8") as fp:
                    tree.save(fp, **skw)
            else:
                buf = io.StringIO()
                tree.save(buf, **skw)
    except _Timeout:
        return None, file_meta, [(CL_TIMEOUT, "save() did not return within 10 s")]
    except Exception as e:  # noqa: BLE001 -- the property promises a working save
        return None, file_meta, [(CL_SAVE_EXC, f"save() raised {_exc(e)}")]
    try:
        with time_limit(10):
            if target == "path":
                loaded = cls.load(path, **lkw)
            elif target == "pathlib":
                loaded = cls.load(Path(path), **lkw)
            elif target == "file":
                with open(path, "r", encoding="utf8") as fp:
                    loaded = cls.load(fp, **lkw)
            else:
                buf.seek(0)
                loaded = cls.load(buf, **lkw)
    except _Timeout:
        return None, file_meta, [(CL_TIMEOUT, "load() did not return within 10 s")]
    except Exception as e:  # noqa: BLE001
        doc = ""
        try:
            if buf is not None:
                doc = buf.getvalue()
            elif not zipfile.is_zipfile(path):
                doc = open(path, encoding="utf8").read()
        except Exception:  # noqa: BLE001
            pass
        return None, file_meta, [(CL_LOAD_EXC, f"load() of the saved document raised {_exc(e)}" + (f"; document: {clip(doc, 240)}" if doc else ""))]
    if rec is not None:
        return loaded, file_meta, [(CL_PARENT, t) for t in rec.misplaced(loaded)[:2]]
    return loaded, file_meta, []


def check_meta(file_meta: dict, metaname: str) -> list:
    out = []
    want = USER_META if metaname in ("meta", "filemeta") else {}
    g = file_meta.get("$generator")
    if not (isinstance(g, str) and g.startswith("nutree/")):
        out.append((CL_META, f"file_meta['$generator'] = {g!r}, expected 'nutree/<version>'"))
    if "$format_version" not in file_meta:
        out.append((CL_META, "file_meta has no '$format_version'"))
    user = {k: v for k, v in file_meta.items() if k not in RESERVED_META}
    if user != want:
        out.append((CL_META, f"user part of file_meta {clip(user, 150)} != meta passed to save {clip(want, 150)}"))
    return out


def evaluate(fam: Family, tree, exp: Desc, labels, opts, tmpdir):
    """All clauses for one option tuple.  Returns (diffs, signature|None)."""
    loaded, file_meta, diffs = save_load(fam, tree, labels, opts, tmpdir)
    if loaded is None:
        return diffs, None
    if type(loaded) is not fam.load_cls:
        diffs.append((CL_CLASS, f"{fam.load_cls.__name__}.load() returned a {type(loaded).__name__}"))
    try:
        got = describe(loaded)
    except RuntimeError as e:
        diffs.append((CL_WF, str(e)))
        return diffs, None
    wf = view.wf_violations(loaded)
    if wf:
        diffs.append((CL_WF, "; ".join(wf)))
    diffs += compare(exp, got)
    diffs += check_meta(file_meta, opts[4])
    return diffs, got.sig()


# ====================================================================== enumeration
def idclone_specs(max_n, *, ids=("id7",), typed=False):
    """Every occurrence of label 'a' carries the same explicit data_id: explicit-id clone groups."""
    src = gen.typed_specs(max_n, min_n=1) if typed else gen.plain_specs(max_n, min_n=1, alphabet=("a", "b"))
    for sp in src:
        if not any(r[1] == "a" for r in sp.nodes):
            continue
        for the_id in ids:
            yield gen.Spec(tuple((p, lab, (the_id if lab == "a" else None), k) for p, lab, _d, k in sp.nodes), typed=sp.typed)


def emptylab_specs(max_n, *, ids=("id7", 5), typed=False):
    """Like idclone_specs, but the nodes carrying the explicit id hold the *empty string* (a falsy data
    object: a load callback returning it must still be taken at its word)."""
    for sp in idclone_specs(max_n, ids=ids, typed=typed):
        yield gen.Spec(tuple((p, ("" if lab == "a" else lab), d, k) for p, lab, d, k in sp.nodes), typed=sp.typed)


def typed_of(sp: gen.Spec, kind="k1") -> gen.Spec:
    """The typed variant of an untyped spec (every node gets `kind`)."""
    return gen.Spec(tuple((p, lab, d, kind) for p, lab, d, _k in sp.nodes), typed=True)


def case_list(tier: str):
    """[(family, spec)] -- every tree of the bound."""
    N = 4 if tier == "quick" else 5
    out = []
    out += [("str", s) for s in gen.plain_specs(N)]
    out += [("str", s) for s in gen.plain_specs(N - 1, alphabet=UNI)]
    idspecs = list(gen.eqpair_specs(N)) + list(gen.explicit_id_specs(N)) + list(idclone_specs(N, ids=("id7", 0, "007")))  # "007": a digit-only str id stays a str
    # without a load mapper these all hit the same refusal of Tree.load; the quick tier keeps the small ones
    out += [("str", s) for s in idspecs if tier != "quick" or len(s) <= 3]
    out += [("strcb", s) for s in idspecs]
    out += [("strcb", s) for s in emptylab_specs(N - 1)]
    out += [("typed", s) for s in gen.typed_specs(N)]
    # the empty string is a kind like any other (falsy, but a value)
    out += [(f, s) for f in ("typed", "typedcb") for s in gen.typed_specs(N - 1, min_n=1, kinds=("", "k1"))]
    tid = list(idclone_specs(N - 1, typed=True))
    # typed trees in which a node with an explicit id coexists with equal data under another id
    tid += [typed_of(s) for s in gen.explicit_id_specs(N - 1)] + [typed_of(s) for s in gen.eqpair_specs(N - 1)]
    out += [("typed", s) for s in tid]
    out += [("typedcb", s) for s in tid]
    out += [("typedcb", s) for s in emptylab_specs(N - 2, typed=True)]
    out += [("rec", s) for s in gen.plain_specs(N - 1)]
    out += [("rec", s) for s in idclone_specs(N - 1)]
    out += [("rectyped", s) for s in gen.typed_specs(N - 1)]
    out += [("recpop", s) for s in gen.plain_specs(N - 2)] + [("recpop", s) for s in idclone_specs(N - 1, ids=("id7", 0))]
    out += [("recpoptyped", s) for s in idclone_specs(N - 2, typed=True)]
    out += [("reckind", s) for s in gen.typed_specs(N - 2)]
    out += [("labtyped", s) for s in gen.typed_specs(N - 2)] + [("lab", s) for s in gen.plain_specs(N - 2)]
    out += [("recnest", s) for s in gen.plain_specs(N - 2)] + [("recnest", s) for s in idclone_specs(N - 2)]
    out += [("recshort", s) for s in gen.plain_specs(N - 2)] + [("recshort", s) for s in idclone_specs(N - 2)]
    out += [("dw", s) for s in gen.plain_specs(N - 1)]
    out += [("dw", s) for s in gen.explicit_id_specs(2)]
    out += [("derived", s) for s in gen.plain_specs(N - 1)]
    out += [("derived", s) for s in idclone_specs(N - 2)]
    out += [("derivedtyped", s) for s in gen.typed_specs(N - 1)]
    out += [("fs", s) for s in gen.plain_specs(N - 1)]
    out += [("fs", s) for s in gen.explicit_id_specs(N - 2)] + [("fs", s) for s in idclone_specs(N - 2, ids=("id7", 0))]  # entries keyed by an explicit id (a path, an inode)
    # trees reached by a history (all accessors evaluated, then one change) and larger trees
    hb = N - 2
    out += [("str", s) for s in gen.history_specs(gen.plain_specs(hb))] + [("typed", s) for s in gen.history_specs(gen.typed_specs(hb - 1, min_n=1)) if all(r[3] in ("k1", "k2") for r in s.nodes)]  # (a copy made by the history has the default kind 'child' -- finding F15 --, which the custom kind value lists of this family do not name: such a save is refused by design)
    out += [("rec", s) for s in gen.history_specs(gen.plain_specs(hb))]
    nb = 4 if tier == "quick" else 24
    out += [("str", s) for s in gen.big_specs(5, nb, lo=18, hi=40)] + [("typed", s) for s in gen.big_specs(6, nb, lo=18, hi=40, typed=True)] + [("rec", s) for s in gen.big_specs(7, nb, lo=18, hi=40)]
    return out


def _witness(fam, spec, opts, clause, ref=None):
    w = {"family": fam.name, "spec": _spec_json(spec), "opts": list(opts), "clause": clause}
    if ref is not None:
        w["opts_ref"] = list(ref)
    return w


class _Keep:
    """Keep the smallest few witnesses per clause inside a worker; count the rest."""

    def __init__(self, per_key=3):
        self.by = {}
        self.count = {}
        self.per_key = per_key

    def add(self, v: Violation, size: int):
        k = v.key()
        self.count[k] = self.count.get(k, 0) + 1
        lst = self.by.setdefault(k, [])
        lst.append((size, len(lst), v))
        lst.sort(key=lambda t: t[:2])
        del lst[self.per_key:]

    def flush(self, res: Result):
        for k, lst in self.by.items():
            res.violations += [v for _s, _i, v in lst]
        for k, n in self.count.items():
            res.notes.append(f"VCOUNT|{k}|{n}")


def fold_counts(res: Result):
    """Aggregate the VCOUNT notes of the workers into one note per clause."""
    tot, rest = {}, []
    for n in res.notes:
        if n.startswith("VCOUNT|"):
            k, c = n[len("VCOUNT|"):].rsplit("|", 1)
            tot[k] = tot.get(k, 0) + int(c)
        else:
            rest.append(n)
    res.notes = rest + [f"{c} violating evaluations of [{k}]" for k, c in sorted(tot.items())]


def func_of(fam: Family) -> str:
    s = "TypedTree" if fam.typed else "Tree"
    return f"{s}.save / {fam.load_cls.__name__}.load"


def _chunk(chunk, prop):
    res = Result(prop)
    keep = _Keep()
    tmpdir = tempfile.mkdtemp(prefix="verif_c05_")
    try:
        for famname, spec, mode in chunk:
            fam = FAMILIES[famname]
            try:
                tree, _nodes = build(fam, spec)
                exp = describe(tree)
                if exp.sig() != desc_from_spec(fam, spec).sig():
                    res.errors.append(f"precondition: built tree '{render(exp)}' is not the tree of spec {famname} {spec.short()}")
                    continue
                labels = tuple(r[1] for r in spec.nodes) or ("a",)
                first = None
                for opts in combos(fam, mode):
                    diffs, sig = evaluate(fam, tree, exp, labels, opts, tmpdir)
                    res.add_case(f"{famname} {spec.short()} :: {'/'.join(opts)}", nontrivial=len(spec) > 0)
                    if sig is not None:
                        if first is None:
                            first = (opts, sig)
                        elif sig != first[1]:
                            diffs.append((CL_INDEP, f"loaded tree under {'/'.join(opts)} differs from the one loaded under {'/'.join(first[0])}"))
                    for clause, text in diffs:
                        ref = first[0] if clause == CL_INDEP else None
                        keep.add(Violation(prop, clause, func_of(fam), _witness(fam, spec, opts, clause, ref), clip(f"[{famname}: {fam.style}] {spec.short()} with {'/'.join(opts)}: {text}")), len(spec))
            except Exception:  # noqa: BLE001 -- checker error
                res.errors.append(f"{famname} {spec.short()}: {traceback.format_exc()[-900:]}")
    finally:
        shutil.rmtree(tmpdir, ignore_errors=True)
    keep.flush(res)
    return res


def run(prop: str, tier: str, only=None) -> Result:
    cases = case_list(tier)
    if only:
        cases = [c for c in cases if c[0] == only] or cases
    items = [(f, s, "pair") for f, s in cases]
    n_full = 0
    if tier != "quick":
        rng = random.Random(seed() * 7919 + 5)
        by = {}
        for f, s in cases:
            by.setdefault(f, []).append(s)
        for f, specs in by.items():
            small = [s for s in specs if len(s) <= 2]
            big = [s for s in specs if len(s) > 2]
            pick = small + rng.sample(big, min(len(big), 60))
            items += [(f, s, "full") for s in pick]
            n_full += len(pick)
    res = parallel(_chunk, items, prop, prop=prop, chunks_per_proc=8)
    fold_counts(res)
    N = 4 if tier == "quick" else 5
    npair = {f: len(combos(FAMILIES[f], "pair")) for f in FAMILIES}
    res.bounds["Tree/TypedTree/FileSystemTree save -> load (document level)"] = (
        f"{len(cases)} trees: all plain string trees <= {N} nodes over {{a,b,c}} (clones at every position), unicode labels <= {N - 1}, "
        f"equal data under ids 1/2 <= {N}, one explicit id <= {N}, explicit-id clone groups (ids 'id7', 0) <= {N}, typed trees <= {N} x kinds {{k1,k2}}, "
        f"typed with explicit ids (clone groups; one explicit id; equal data under ids 1/2) <= {N - 1}; object trees <= {N - 1} nodes: frozen dataclass + callback mappers (Tree, TypedTree), DictWrapper class mappers, "
        f"derived classes with own mappers (Tree; TypedTree + calc_data_id), FileSystemTree; each under a pairwise-covering set of "
        f"{min(npair.values())}-{max(npair.values())} option tuples over key_map{{default,off,custom}} x value_map{{default,off,custom[,custom w/o kind]}} x "
        f"compression{{False,True,STORED,DEFLATED,BZIP2,LZMA}} x target{{str path,Path,open text file,StringIO}} x meta{{None,dict}}"
        + (f"; plus the full 3x(3|4)x6x4 matrix on {n_full} trees (all <= 2 nodes + 60 random larger ones per family, VERIF_SEED={seed()})" if n_full else "")
    )
    res.exhaustive = False  # option tuples are a covering subset (quick) / trees of the full matrix are sampled (thorough)
    return res


def replay(witness: dict, prop: str) -> list:
    fam = FAMILIES[witness["family"]]
    spec = spec_from_json(witness["spec"])
    tree, _ = build(fam, spec)
    exp = describe(tree)
    labels = tuple(r[1] for r in spec.nodes) or ("a",)
    tmpdir = tempfile.mkdtemp(prefix="verif_c05_")
    try:
        opts = tuple(witness["opts"])
        diffs, sig = evaluate(fam, tree, exp, labels, opts, tmpdir)
        if witness.get("opts_ref"):
            ref = tuple(witness["opts_ref"])
            _d, sig0 = evaluate(fam, tree, exp, labels, ref, tmpdir)
            if sig is not None and sig0 is not None and sig != sig0:
                diffs.append((CL_INDEP, f"loaded tree under {'/'.join(opts)} differs from the one loaded under {'/'.join(ref)}"))
    finally:
        shutil.rmtree(tmpdir, ignore_errors=True)
    want = witness.get("clause")
    return [(c, t) for c, t in diffs if want is None or c == want]
