"""C19 -- load_tree_from_fs mirrors the directory it scanned; save/load with the
FileSystemTree mappers preserves it.

Bounded stand-in: real directory trees are generated in a `tempfile.mkdtemp()` scratch
directory (removed afterwards) and scanned by the real `load_tree_from_fs`.  The oracle is
built independently with `os.scandir` / `os.listdir` / `os.stat` (no pathlib, no nutree):

  * one node per file and sub-directory at the corresponding depth,
  * node.data is a FileSystemEntry with name, is_dir, size (int; 0 for directories) and, for
    files, mdate == st_mtime,
  * sort=True (the default): every folder lists its files first, ordered by name (plain str
    ordering), then its sub-directories, ordered by name,
  * sort=False: one child per entry, in directory-listing order (os.listdir),
  * `tree.save(...)` + `FileSystemTree.load(...)` (explicit class mappers and the defaults; file
    path, StringIO, compressed file) gives an equal FileSystemTree again.

Layouts: every ordered-forest shape with <= 4 entries x every file/empty-folder assignment of
the leaves x seeded name/size/mtime assignments from a pool of sort-sensitive and unicode names,
a set of hand-made sort-sensitive folders, and seeded random layouts up to the entry bound.
Named pipes are in scope (neither a file nor a sub-directory: no node); symlinks, sockets and devices are out of scope.
"""
from __future__ import annotations

import io
import itertools
import json
import os
import random
import stat
import shutil
import tempfile
import traceback
from pathlib import Path

from .. import gen
from ..harness import Result, Violation, clip, parallel, seed

FUNC = "load_tree_from_fs"
NAMES = ("B", "a", "_x", "\u00e4", "10", "9", "a.txt", "A", "a\u0308", "Z", "b", "a b", "a-b", "ab", "\u65e5\u672c", ".hidden", "\u00f1", "1", "a.TXT", "~t",
         "\U0001f600.txt", "\uffff", "\U0001d4d0 n")  # astral-plane and U+FFFF names: code-point order, no sentinel character is 'the highest'"  # NFC and NFD spelling of a-umlaut are different names
MTIMES = (0.0, 1.0, 86400.0 * 365.25, 1234567890.0, 1234567890.5, 1700000000.123456, 2.0**31 + 0.25, 4102444800.0)
ROOTS = ("root", "r\u00f6\u00f6t dir")

C_CLASS = "ensures isinstance(result, FileSystemTree) and result.name == str(path)"
C_MIRROR = "ensures one node per file and sub-directory at the corresponding depth (same entries per folder)"
C_ATTRS = "ensures node.data is a FileSystemEntry carrying name, is_dir, size (int, 0 for folders) and for files mdate == st_mtime"
C_SORT = "ensures sort=True: each folder lists its files first, name-sorted, then its sub-directories, name-sorted"
C_UNSORTED = "ensures sort=False: one child per entry in directory-listing order"
C_NOEXC = "raises nothing for a directory tree of regular files and folders"
C_RESCAN = "ensures a second scan of the same path mirrors the directory as it is then (files rewritten in place, entries added / removed in between)"
C_ROUND = "ensures FileSystemTree.load(save(tree)) with the FileSystemTree mappers preserves structure, order and entry attributes"


# ------------------------------------------------------------------ layouts
# entry = [name, "d" | "f", size, mtime, children]
def _depths(pv):
    d = []
    for i, p in enumerate(pv):
        d.append(1 if p == -1 else d[p] + 1)
    return d


def _layout_from(pv, kinds, rng: random.Random, names=NAMES):
    """Nested layout for parent vector `pv`; kinds[i] in 'df' (inner nodes are folders)."""
    ch = gen.children_of(pv)
    chosen: dict = {}
    for parent, kids_ in ch.items():
        for k, nm in zip(kids_, rng.sample(names, len(kids_))):
            chosen[k] = nm

    def rec(i):
        if kinds[i] == "d":
            return [chosen[i], "d", 0, rng.choice(MTIMES), [rec(c) for c in ch[i]]]
        return [chosen[i], "f", rng.randint(0, 3), rng.choice(MTIMES), []]

    return [rec(c) for c in ch[-1]]


def _kind_assignments(pv):
    ch = gen.children_of(pv)
    leaves = [i for i in range(len(pv)) if not ch[i]]
    for bits in itertools.product("fd", repeat=len(leaves)):
        kinds = ["d"] * len(pv)
        for i, b in zip(leaves, bits):
            kinds[i] = b
        yield "".join(kinds)


def _handmade():
    """Folders whose expected order depends on every part of the sorting rule."""
    def f(n, size=1, mt=1234567890.5):
        return [n, "f", size, mt, []]

    def d(n, *kids_):
        return [n, "d", 0, 1.0, list(kids_)]

    out = []
    # files and folders interleaved in name order: files-first must win over name order
    out.append([d("A"), f("B"), d("a"), f("_x", 0), f("\u00e4", 3), d("10")])
    out.append([f("9"), f("10"), d("9d"), d("10d"), f("a.txt"), d("a")])
    # the same names one level down, with an empty folder and a nested chain
    out.append([d("top", d("B"), f("a"), d("_x", f("\u00e4", 2), d("A")), f("A", 0))])
    out.append([d("a", d("a", d("a", f("a", 3)))), f("b", 0)])
    # upper/lower case, NFC vs NFD, prefix relations, dots
    out.append([f("a"), f("A"), f("\u00e4"), f("a\u0308"), f("ab"), f("a b")])
    out.append([d("a"), d("A"), d("\u00e4"), d("a\u0308"), d("ab"), d("a-b")])
    out.append([d("a.d"), d("a"), d("a-d"), f("a.txt"), f("a.TXT"), f(".hidden")])
    # names above / at U+FFFF (emoji, mathematical letters): files still come before every sub-directory
    out.append([f("\U0001f600.txt"), d("a"), f("\uffff"), d("\U0001f600"), f("z"), d("\uffffd")])
    # names that are not valid UTF-8 on disk (legacy latin-1 bytes): Python shows them with lone surrogates (surrogateescape);
    # two such names differ, sort by code point, and must survive save / load like any other name
    out.append([f("caf\udce9.txt"), f("caf\udce8.txt"), d("d\udcff", f("x\udce9")), f("cafe.txt")])
    # hard links: several names of one file, in one folder and across folders -- every name is an entry of its own
    out.append([f("orig.txt", 3), f("hl_copy.txt", 3), d("snap", f("hl_orig.txt", 3)), d("snap2", f("hl_orig.txt", 3))])
    # special files (named pipes): neither a file nor a sub-directory -- no node
    out.append([f("a.txt", 2), ["pipe_a", "p", 0, 1.0, []], d("sub", ["pipe_q.fifo", "p", 0, 1.0, []], f("z", 1))])
    out.append([d("only_pipe", ["pipe_x", "p", 0, 1.0, []])])
    out.append([])  # empty root folder
    out.append([d("only")])  # a single empty folder
    return out


def _count(layout) -> int:
    return sum(1 + _count(e[4]) for e in layout)


def _count_nodes(layout) -> int:
    """entries that become nodes: regular files and directories (named pipes are neither)"""
    return sum(1 + _count_nodes(e[4]) for e in layout if e[1] != "p")


def layouts(tier: str):
    rng = random.Random(seed() * 65537 + 19)
    max_entries, max_depth = (6, 3) if tier == "quick" else (8, 4)
    reps = 2 if tier == "quick" else 4
    out = [("hand", lay) for lay in _handmade() if _count(lay) <= max_entries]
    for n in range(0, 5):
        for pv in gen.forests(n):
            if n and max(_depths(pv)) > max_depth:
                continue
            for kinds in _kind_assignments(pv):
                for _ in range(reps if n else 1):
                    out.append(("enum", _layout_from(pv, kinds, rng)))
    n_rand = 1500 if tier == "quick" else 25000
    for _ in range(n_rand):
        n = rng.randint(5, max_entries)
        while True:
            pv = []
            for i in range(n):
                cands = [-1]
                if i:
                    p = i - 1
                    while p != -1:
                        cands.append(p)
                        p = pv[p]
                pv.append(rng.choice(cands))
            if max(_depths(pv)) <= max_depth:
                break
        ch = gen.children_of(pv)
        kinds = "".join("d" if ch[i] else rng.choice("ffd") for i in range(n))
        # a small name pool makes equal names in different folders and close sort keys likely
        pool = NAMES if rng.random() < 0.5 else NAMES[:8]
        out.append(("rand", _layout_from(pv, kinds, rng, pool)))
    return out, max_entries, max_depth, n_rand


def materialise(base: str, layout) -> None:
    os.makedirs(base)
    files = []

    def rec(folder, entries):
        for name, kind, size, mt, kids_ in entries:
            p = os.path.join(folder, name)
            if kind == "d":
                os.mkdir(p)
                rec(p, kids_)
            elif kind == "p":
                os.mkfifo(p)
            elif name.startswith("hl_") and files:
                os.link(files[0][0], p)  # a second name of the first regular file (same inode): still one directory entry = one node
            else:
                with open(p, "wb") as fp:
                    fp.write(b"x" * size)
                files.append((p, mt))

    rec(base, layout)
    for p, mt in files:  # fixed modification times, set after all files exist
        os.utime(p, (mt, mt))


# ------------------------------------------------------------------ oracle (os only)
def model(folder: str, sort: bool):
    """Expected children of `folder`: [(name, is_dir, size, mtime|None, children)]."""
    listing = os.listdir(folder)
    by_name = {}
    with os.scandir(folder) as it:
        for e in it:
            by_name[e.name] = e
    files, dirs, plain = [], [], []
    for name in listing:
        e = by_name[name]
        full = os.path.join(folder, name)
        if e.is_dir(follow_symlinks=False):
            rec = (name, True, 0, None, model(full, sort))
            dirs.append(rec)
        else:
            st = os.stat(full)
            if not stat.S_ISREG(st.st_mode):
                continue  # a named pipe, socket or device is neither a file nor a sub-directory: no node
            rec = (name, False, st.st_size, st.st_mtime, ())
            files.append(rec)
        plain.append(rec)
    if sort:
        return tuple(sorted(files, key=lambda r: r[0]) + sorted(dirs, key=lambda r: r[0]))
    return tuple(plain)


def observed(tree):
    """What the tree holds, read from the raw slots.  Returns (nested, problems)."""
    from nutree.fs import FileSystemEntry

    problems = []

    def rec(node):
        out = []
        for c in node._children or ():
            d = c._data
            if not isinstance(d, FileSystemEntry):
                problems.append(f"node data is {type(d).__name__}: {d!r}")
                out.append((repr(d), None, None, None, rec(c)))
                continue
            if type(d.size) is not int or type(d.is_dir) is not bool or not isinstance(d.name, str):
                problems.append(f"{d.name!r}: name/is_dir/size have types {type(d.name).__name__}/{type(d.is_dir).__name__}/{type(d.size).__name__}")
            if not d.is_dir and type(d.mdate) is not float:
                problems.append(f"{d.name!r}: mdate of a file is {d.mdate!r}")
            if c._parent is not node:
                problems.append(f"{d.name!r}: parent link does not point to its folder node")
            out.append((d.name, d.is_dir, d.size, (None if d.is_dir else d.mdate), rec(c)))
        return tuple(out)

    return rec(tree._root), problems


def _unordered(nested):
    return tuple(sorted(((n, isd, _unordered(k)) for n, isd, _s, _m, k in nested), key=repr))


def _order_only(nested):
    return tuple((n, isd, _order_only(k)) for n, isd, _s, _m, k in nested)


def _attrs(nested):
    return tuple(sorted(((n, isd, s, m, _attrs(k)) for n, isd, s, m, k in nested), key=repr))


def _short(nested) -> str:
    def r(e):
        n, isd = e[0], e[1]
        return (f"[{n}]" + ("(" + " ".join(r(k) for k in e[-1]) + ")" if e[-1] else "")) if isd else f"{n}"

    return " ".join(r(e) for e in nested) or "<empty>"


def _layout_short(layout) -> str:
    def r(e):
        return (f"[{e[0]}]" + ("(" + " ".join(r(k) for k in e[4]) + ")" if e[4] else "")) if e[1] == "d" else f"{e[0]}:{e[2]}"

    return " ".join(r(e) for e in layout) or "<empty>"


# ------------------------------------------------------------------ evaluation
SORT_MODES = ("default", True, False)
ROUNDTRIPS = ("stringio+class mappers", "path+default mappers", "zip path+default mappers")


def check_layout(layout, scratch: str, root_name: str, tier: str, only_cfg=None):
    """Yield (config_repr, [(clause, text)], nontrivial) per evaluated configuration."""
    from nutree.fs import FileSystemTree, load_tree_from_fs

    base = os.path.join(scratch, root_name)
    materialise(base, layout)
    n_entries = _count_nodes(layout)
    for sort in SORT_MODES:
        for as_str in (True, False):
            cfg = {"sort": sort, "as_str": as_str}
            if only_cfg is not None and cfg != {k: only_cfg[k] for k in cfg}:
                continue
            diffs = []
            arg = base if as_str else Path(base)
            eff_sort = True if sort == "default" else sort
            exp = model(base, eff_sort)
            try:
                tree = load_tree_from_fs(arg) if sort == "default" else load_tree_from_fs(arg, sort=sort)
            except Exception as e:  # noqa: BLE001
                diffs.append((C_NOEXC, f"load_tree_from_fs({'str' if as_str else 'Path'}, sort={sort}) raised {type(e).__name__}: {e}"))
                yield cfg, diffs, True
                continue
            if type(tree) is not FileSystemTree or tree.name != str(arg):
                diffs.append((C_CLASS, f"result is {type(tree).__name__} named {tree.name!r}; required FileSystemTree named {str(arg)!r}"))
            obs, problems = observed(tree)
            if _unordered(obs) != _unordered(exp):
                diffs.append((C_MIRROR, f"tree holds {_short(obs)}; directory holds {_short(exp)}"))
            elif problems or _attrs(obs) != _attrs(exp):
                diffs.append((C_ATTRS, f"{'; '.join(problems[:3])} tree entries {clip(_attrs(obs), 150)}; os.stat says {clip(_attrs(exp), 150)}"))
            elif _order_only(obs) != _order_only(exp):
                if eff_sort:
                    diffs.append((C_SORT, f"child order {_short(obs)}; required {_short(exp)}"))
                else:
                    alt = _iterdir_model(base)
                    if _order_only(obs) != alt:
                        diffs.append((C_UNSORTED, f"child order {_short(obs)}; os.listdir order {_short(exp)}"))
            if len(tree._node_by_id) != n_entries:
                diffs.append((C_MIRROR, f"tree registers {len(tree._node_by_id)} nodes for {n_entries} directory entries"))
            # ---- save / load with the FileSystemTree mappers
            for rt in ROUNDTRIPS:
                try:
                    tree2 = _roundtrip(tree, rt, scratch)
                except Exception as e:  # noqa: BLE001
                    diffs.append((C_ROUND, f"{rt}: raised {type(e).__name__}: {clip(e, 200)}"))
                    continue
                obs2, problems2 = observed(tree2)
                if type(tree2) is not FileSystemTree:
                    diffs.append((C_ROUND, f"{rt}: loaded tree is a {type(tree2).__name__}"))
                if obs2 != obs or problems2:
                    diffs.append((C_ROUND, f"{rt}: loaded tree holds {clip(obs2, 170)} {problems2[:2] or ''}; saved tree held {clip(obs, 170)}"))
            yield cfg, diffs, n_entries > 0
    # ---- the directory changes and the same path is scanned again in the same process: nothing of the first scan may survive
    if only_cfg is None or only_cfg.get("rescan"):
        for step in ("files rewritten in place", "an entry added and one removed"):
            cfg = {"sort": "default", "as_str": True, "rescan": step}
            if only_cfg is not None and only_cfg.get("rescan") != step:
                _change_directory(base, step)
                continue
            diffs = []
            n_changed = _change_directory(base, step)
            exp = model(base, True)
            try:
                tree = load_tree_from_fs(base)
                obs, problems = observed(tree)
                if _unordered(obs) != _unordered(exp):
                    diffs.append((C_RESCAN, f"after '{step}': tree holds {_short(obs)}; directory holds {_short(exp)}"))
                elif problems or _attrs(obs) != _attrs(exp):
                    diffs.append((C_RESCAN, f"after '{step}': {'; '.join(problems[:3])} tree entries {clip(_attrs(obs), 150)}; os.stat says {clip(_attrs(exp), 150)}"))
                elif _order_only(obs) != _order_only(exp):
                    diffs.append((C_RESCAN, f"after '{step}': child order {_short(obs)}; required {_short(exp)}"))
            except Exception as e:  # noqa: BLE001
                diffs.append((C_NOEXC, f"second load_tree_from_fs after '{step}' raised {type(e).__name__}: {e}"))
            yield cfg, diffs, n_changed > 0
    shutil.rmtree(base, ignore_errors=True)


def _change_directory(base: str, step: str) -> int:
    """Change the generated directory between two scans; the modification times of the *folders* are put back, so that
    only a fresh look at every entry can tell.  Returns the number of changes."""
    n = 0
    for folder, _dirs, files in os.walk(base):
        st = os.stat(folder)
        files = [f for f in files if os.path.isfile(os.path.join(folder, f))]  # regular files only (a named pipe would block)
        if step == "files rewritten in place":
            for k, f in enumerate(sorted(files)):
                p = os.path.join(folder, f)
                with open(p, "wb") as fp:
                    fp.write(b"y" * (os.path.getsize(p) + 2 + k))
                os.utime(p, (1_800_000_000 + k, 1_800_000_000 + k))
                n += 1
        else:
            p = os.path.join(folder, "zz_new.bin")
            with open(p, "wb") as fp:
                fp.write(b"n" * 7)
            os.utime(p, (1_600_000_123, 1_600_000_123))
            n += 1
            if files:
                os.remove(os.path.join(folder, sorted(files)[0]))
                n += 1
        os.utime(folder, ns=(st.st_atime_ns, st.st_mtime_ns))
    return n


def _iterdir_model(folder):
    """Fallback for sort=False: order of pathlib's own listing (only consulted if the tree
    disagrees with os.listdir, to avoid blaming the library for an unstable listing)."""
    out = []
    for p in Path(folder).iterdir():
        isd = p.is_dir()
        if not isd and not p.is_file():
            continue
        out.append((p.name, isd, _iterdir_model(str(p)) if isd else ()))
    return tuple(out)


_SEQ = [0]


def _roundtrip(tree, how: str, scratch: str):
    from nutree.fs import FileSystemTree

    _SEQ[0] += 1
    if how == "stringio+class mappers":
        buf = io.StringIO()
        tree.save(buf, mapper=tree.serialize_mapper)
        json.loads(buf.getvalue())  # is a JSON document
        buf.seek(0)
        return FileSystemTree.load(buf, mapper=FileSystemTree.deserialize_mapper)
    p = os.path.join(scratch, f"rt{_SEQ[0]}.json")
    try:
        if how == "path+default mappers":
            tree.save(p)
            return FileSystemTree.load(p)
        tree.save(Path(p), compression=True)
        return FileSystemTree.load(Path(p))
    finally:
        if os.path.exists(p):
            os.remove(p)


def _run_chunk(chunk, prop, tier, scratch_root=None):
    res = Result(prop)
    scratch = tempfile.mkdtemp(prefix="c19_", dir=scratch_root)
    try:
        for idx, (src, layout) in chunk:
            root_name = ROOTS[idx % len(ROOTS)]
            try:
                for cfg, diffs, nontrivial in check_layout(layout, scratch, root_name, tier):
                    res.add_case(f"{_layout_short(layout)} | {root_name} | {cfg}", nontrivial=nontrivial)
                    for clause, text in diffs:
                        res.violations.append(Violation(prop, clause, FUNC if clause != C_ROUND else "FileSystemTree.serialize_mapper/deserialize_mapper",
                                                        {"layout": layout, "root": root_name, **cfg}, clip(text)))
            except Exception:  # noqa: BLE001
                res.errors.append(f"{_layout_short(layout)}: {traceback.format_exc()[-900:]}")
            finally:
                shutil.rmtree(os.path.join(scratch, root_name), ignore_errors=True)
    finally:
        shutil.rmtree(scratch, ignore_errors=True)
    return res


def run(prop: str, tier: str, only=None) -> Result:
    lays, max_entries, max_depth, n_rand = layouts(tier)
    scratch_root = tempfile.mkdtemp(prefix="c19_run_")  # every generated directory lives below; removed here
    try:
        res = parallel(_run_chunk, list(enumerate(lays)), prop, tier, scratch_root, prop=prop)
    finally:
        shutil.rmtree(scratch_root, ignore_errors=True)
    res.exhaustive = False
    res.bounds[FUNC] = (
        f"real directories in a mkdtemp scratch folder: every forest shape with <= 4 entries x every file/empty-folder choice of the leaves x "
        f"{2 if tier == 'quick' else 4} seeded name/size/mtime assignments, {len(_handmade())} hand-made sort-sensitive folders, {n_rand} random layouts with 5..{max_entries} entries "
        f"(nesting <= {max_depth}, sizes 0..3 bytes, mtimes from {len(MTIMES)} fixed values, names from {len(NAMES)} sort-sensitive/unicode names; VERIF_SEED={seed()}) "
        "x sort in {default, True, False} x path given as str / Path; oracle from os.scandir/os.listdir/os.stat")
    res.bounds["FileSystemTree save/load"] = "every scanned tree x {StringIO + explicit class mappers, file path + default mappers, compressed file + default mappers}"
    res.notes.append("symlinks, sockets / devices, unreadable folders and concurrent modification of the scanned folder are out of scope")
    return res


def replay(witness: dict, prop: str):
    scratch = tempfile.mkdtemp(prefix="c19_")
    try:
        out = []
        for _cfg, diffs, _nt in check_layout(witness["layout"], scratch, witness.get("root", "root"), "thorough", only_cfg=witness):
            out += diffs
        return out
    finally:
        shutil.rmtree(scratch, ignore_errors=True)
