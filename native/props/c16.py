"""C16 -- format() / format_iter() render the tree shape faithfully in every style (bounded stand-in).

Oracle (property statement + docs/sphinx/ug_pretty_print.rst; the style table
nutree.common.CONNECTORS is data the property quantifies over):

  lines(obj) = [title line]  +  [prefix(n) + rendering(n)  for n in branch(obj) in pre-order]

  * Tree.format: the title line is "<ClassName><'name'>" for title=True and for the default
    (title=None) unless style == "list", the text itself for a string, absent for title=False.
    With a title line the top-level nodes are display level 1, without it level 0.
  * Node.format: no title; add_self=True shows the node at level 0, add_self=False shows its
    children at level 0.
  * prefix(n) = ""                                     if level(n) == 0, else
                seg(a_1) ... seg(a_k) + connector(n)   where a_1..a_k are the ancestors of n at display
                levels 1..level(n)-1 (top-down), seg(a) = s0 if a is a last sibling else s1 and
                connector(n) = s2 (last, leaf) / s3 (not last, leaf) / s4 (last, has children) /
                s5 (not last, has children); for 4-tuples s4, s5 = s2, s3.
  * style "list": renderings only.  rendering(n): default "{node.data!r}" (typed trees:
    "{node.kind} -> {node.data}" with the arrow U+2192), a str.format template on `node`, or a callable.
  * format(join=j) == j.join(format_iter()).

Decoder: the prefixes (line minus rendering) are parsed back into segments *without* looking at the
tree; every reading of a prefix yields (level, last-flags of the ancestors, own last flag, own
has-children flag).  Whatever all readings agree on must equal the real shape (the level sequence
must rebuild the real parent vector); styles with pairwise distinguishable segments must have
exactly one reading.

Errors: an unknown style name and a style tuple whose length is not 4 or 6 must raise ValueError.
"""
from __future__ import annotations

import io
import itertools
import random
import signal
import traceback
from functools import lru_cache

from nutree.common import CONNECTORS

from .. import gen, hist, view
from ..harness import Result, Violation, clip, parallel, seed
from .mut import _spec_json, spec_from_json

C_RAISE = "ensures format() returns (no exception, terminates)"
C_COUNT = "ensures one line per node of the branch in pre-order after the optional title line"
C_TITLE = "ensures the title line is repr(tree) / the given text / absent for title=False (default off for style 'list')"
C_REND = "ensures each line ends with the node's rendering"
C_PREFIX = "ensures each line == connector prefix (ancestors' last-sibling segments + own connector) + rendering"
C_LIST = "ensures the list style emits the renderings only"
C_JOIN = "ensures format(join=j) == j.join(format_iter())"
C_PRINT = "ensures Tree.print(join=j, file=f) writes format(join=j) followed by one newline"
C_DEC_PARSE = "ensures every prefix is a sequence of style segments"
C_DEC_DEPTH = "ensures the prefixes alone determine each node's depth (rebuilds the real parent vector)"
C_DEC_FLAGS = "ensures the prefixes alone determine the last-sibling flags of the ancestors and of the node"
C_DEC_KIDS = "ensures the prefixes alone determine whether a node has children (compact styles)"
C_DEC_UNIQUE = "ensures a style with pairwise distinguishable segments is uniquely decodable"
C_BADSTYLE = "ensures an invalid style raises ValueError"

CUSTOM_STYLES = {
    "custom4": ("A.", "B.", "C>", "D>"),
    "custom4list": ["  ", "! ", "\\_", "+_"],
    "custom6": ("  ", "| ", "L-", "T-", "L+", "T+"),
    "custom6var": ("0:", "1::", "<2>", "<3>>", "<4+>", "<5++>"),  # prefix-free, different widths
    "custom6empty": ("  ", "| ", "L-", "T-", "", ""),  # a valid 6-tuple whose parent connectors are empty strings (falsy, but given)
}
TITLES = (None, False, "My Title", True)
REPRS = ("default", "template", "callable", "empty", "multiline")  # "empty": the valid format string "" (every rendering is "", lines are the bare prefixes)
JOINS = ("\n", ", ", "")
BAD_TUPLES = ((), ("a", "b", "c"), ("a", "b", "c", "d", "e"), ("a", "b", "c", "d", "e", "f", "g"))
CALL_TIMEOUT = 10.0


class _Timeout(BaseException):
    pass


def _on_alarm(signum, frame):
    raise _Timeout()


def _guarded(fn, *a, **kw):
    old = signal.signal(signal.SIGALRM, _on_alarm)
    signal.setitimer(signal.ITIMER_REAL, CALL_TIMEOUT)
    try:
        return fn(*a, **kw), None
    except _Timeout:
        return None, ("Timeout", f"no result after {CALL_TIMEOUT}s (non-termination)")
    except Exception as e:  # noqa: BLE001
        return None, (type(e).__name__, f"{type(e).__name__}: {e}")
    finally:
        signal.setitimer(signal.ITIMER_REAL, 0)
        signal.signal(signal.SIGALRM, old)


def _multiline_repr(node):
    """a rendering that itself contains a line feed (and a tab): still *one* entry of format_iter() per node"""
    return f"{node._data}\n\t+{node._data}"


def _callable_repr(node):
    return f"<{node._data}>"


def style_names():
    return [None] + list(CONNECTORS.keys()) + ["list"] + list(CUSTOM_STYLES.keys())


def style_value(name):
    """What is passed as `style=`."""
    return CUSTOM_STYLES.get(name, name)


def segments(name):
    """The six segments of a style (None for 'list')."""
    if name == "list":
        return None
    if name in CUSTOM_STYLES:
        t = tuple(CUSTOM_STYLES[name])
    else:
        t = tuple(CONNECTORS[name or "round43"])  # documented default: round43
    if len(t) == 4:
        t = t + (t[2], t[3])
    return t


# ------------------------------------------------------------------ the real shape (raw slots)
class Info:
    """Pre-order list of the real nodes with depth / ancestors / last / has-children."""

    def __init__(self, tree):
        self.tree = tree
        self.nodes = view.reachable(tree)
        self.index = {id(n): i for i, n in enumerate(self.nodes)}
        self.depth, self.anc, self.last, self.has = [], [], [], []
        for n in self.nodes:
            chain = []
            p = n._parent
            while p is not None and p is not tree._root:
                chain.append(self.index[id(p)])
                p = p._parent
            chain.reverse()
            self.anc.append(chain)
            self.depth.append(len(chain) + 1)
            self.last.append(n._parent._children[-1] is n)
            self.has.append(bool(n._children))

    def branch(self, start: int, add_self: bool):
        """Indices of the displayed nodes and the display level of each.  start == -1: the tree."""
        if start == -1:
            return list(range(len(self.nodes)))
        d = self.depth[start]
        out = [start] if add_self else []
        i = start + 1
        while i < len(self.nodes) and self.depth[i] > d:
            out.append(i)
            i += 1
        return out


def rendering(node, repr_kind: str, typed: bool) -> str:
    if repr_kind == "default":
        if typed:
            return f"{node._kind} → {node._data}"
        return repr(node._data)
    if repr_kind == "template":
        return f"{node._data}"
    if repr_kind == "empty":
        return ""
    if repr_kind == "multiline":
        return _multiline_repr(node)
    return f"<{node._data}>"


def repr_arg(repr_kind: str):
    return {"default": None, "template": "{node.data}", "callable": _callable_repr, "empty": "", "multiline": _multiline_repr}[repr_kind]


def expected_prefix(info: Info, i: int, level: int, seg) -> str:
    if level <= 0:
        return ""
    s0, s1, s2, s3, s4, s5 = seg
    anc = info.anc[i][len(info.anc[i]) - (level - 1):] if level > 1 else []
    parts = [s0 if info.last[a] else s1 for a in anc]
    if info.has[i]:
        parts.append(s4 if info.last[i] else s5)
    else:
        parts.append(s2 if info.last[i] else s3)
    return "".join(parts)


def expected_lines(info: Info, start: int, style_name, title, add_self, repr_kind, typed):
    """-> (title_lines, [(node_index, level, prefix, rendering)])"""
    tree = info.tree
    if start == -1:
        t = title
        if t is None:
            t = style_name != "list"
        if t is True:
            title_lines = [f"{type(tree).__name__}<{tree.name!r}>"]
        elif t is False:
            title_lines = []
        else:
            title_lines = [f"{t}"]
        base = 0 if title is not False and not (title is None and style_name == "list") else 1
        idx = info.branch(-1, False)
    else:
        title_lines = []
        base = info.depth[start] if add_self else info.depth[start] + 1
        idx = info.branch(start, add_self)
    seg = segments(style_name)
    rows = []
    for i in idx:
        level = info.depth[i] - base
        pre = "" if seg is None else expected_prefix(info, i, level, seg)
        rows.append((i, level, pre, rendering(info.nodes[i], repr_kind, typed)))
    return title_lines, rows


# ------------------------------------------------------------------ decoder (text only)
@lru_cache(maxsize=200000)
def readings(prefix: str, seg: tuple) -> tuple:
    """All ways to read `prefix` as (s0|s1)* (s2|s3|s4|s5):  tuples (anc_flags, own_last, own_has)
    with anc_flags[k] True = 'that ancestor is a last sibling'.  '' reads as display level 0."""
    if prefix == "":
        return (((), None, None),)
    out = set()
    s0, s1 = seg[0], seg[1]

    def rec(pos, flags):
        rest = prefix[pos:]
        for k in (2, 3, 4, 5):
            if rest == seg[k]:
                out.add((flags, k in (2, 4), k in (4, 5)))
        if s0 and prefix.startswith(s0, pos) and pos + len(s0) < len(prefix):
            rec(pos + len(s0), flags + (True,))
        if s1 and prefix.startswith(s1, pos) and pos + len(s1) < len(prefix):
            rec(pos + len(s1), flags + (False,))

    rec(0, ())
    return tuple(sorted(out, key=repr))


def distinguishable(seg, six: bool) -> bool:
    """Segments pairwise distinct (as far as the style has them)."""
    used = seg if six else seg[:4]
    return len(set(used)) == len(used)


def agreed(values):
    vs = set(values)
    return next(iter(vs)) if len(vs) == 1 else None


def decode_check(info: Info, rows, prefixes, style_name, has_title: bool) -> list[tuple[str, str]]:
    seg = segments(style_name)
    six = len(tuple(CUSTOM_STYLES.get(style_name) or CONNECTORS[style_name or "round43"])) == 6
    uniq = distinguishable(seg, six)
    out = []
    levels = []
    for (i, level, _pre, _r), p in zip(rows, prefixes):
        rd = readings(p, seg)
        name = repr(info.nodes[i]._data)
        if not rd:
            return [(C_DEC_PARSE, f"line of node {name}: prefix {p!r} cannot be read as segments of {seg}")]
        lv = agreed(0 if r[1] is None else len(r[0]) + 1 for r in rd)
        if lv is None:
            return [(C_DEC_DEPTH, f"line of node {name}: prefix {p!r} has readings of different depth {rd}")]
        levels.append(lv)
        if lv == 0:
            continue
        if uniq:
            # 4-tuples cannot tell has-children: two readings that differ in that flag only
            want = 1 if six else 2
            if len(rd) != want:
                out.append((C_DEC_UNIQUE, f"line of node {name}: prefix {p!r} has {len(rd)} readings {rd} in style {seg}"))
        own_last = agreed(r[1] for r in rd)
        own_has = agreed(r[2] for r in rd)
        if own_last is not None and own_last != info.last[i]:
            out.append((C_DEC_FLAGS, f"prefix {p!r} of node {name} says last sibling = {own_last}, real {info.last[i]}"))
        if own_has is not None and own_has != info.has[i]:
            out.append((C_DEC_KIDS, f"prefix {p!r} of node {name} says has children = {own_has}, real {info.has[i]}"))
        real_anc = info.anc[i][len(info.anc[i]) - (lv - 1):] if lv > 1 else []
        for k in range(lv - 1):
            f = agreed(r[0][k] for r in rd)
            if f is not None and (k >= len(real_anc) or f != info.last[real_anc[k]]):
                out.append((C_DEC_FLAGS, f"prefix {p!r} of node {name}: ancestor segment #{k} says last sibling = {f}, real ancestors' flags {[info.last[a] for a in real_anc]}"))
                break
    # rebuild the parent vector from the level sequence alone
    base = 1 if has_title else 0
    pv, stack, bad = [], [], None  # stack[d] = index of the open node at level base+d
    for k, lv in enumerate(levels):
        d = lv - base
        if d < 0 or d > len(stack):
            bad = f"line #{k} jumps to level {lv} (levels so far {levels[:k]})"
            break
        del stack[d:]
        pv.append(stack[-1] if stack else -1)
        stack.append(k)
    pos = {i: k for k, (i, *_r) in enumerate(rows)}
    real_pv = []
    for i, *_r in rows:
        par = info.anc[i][-1] if info.anc[i] else None
        real_pv.append(pos.get(par, -1) if par is not None else -1)
    if bad or pv != real_pv:
        out.append((C_DEC_DEPTH, f"levels decoded from the prefixes {levels} give parent vector {pv if not bad else bad}, real {real_pv}"))
    return out


# ------------------------------------------------------------------ one evaluation
def call_kwargs(start, style_name, title, add_self, repr_kind):
    kw = {"repr": repr_arg(repr_kind), "style": style_value(style_name)}
    if start == -1:
        kw["title"] = title
    else:
        kw["add_self"] = add_self
    return kw


def func_name(start, style_name):
    return "Tree.format" if start == -1 else "Node.format"


def check_one(info: Info, typed, start, style_name, title, add_self, repr_kind, join, decode=False):
    """-> [(clause, text)]"""
    obj = info.tree if start == -1 else info.nodes[start]
    kw = call_kwargs(start, style_name, title, add_self, repr_kind)
    got_lines, err = _guarded(lambda: list(obj.format_iter(**kw)))
    if err is not None:
        return [(C_RAISE, f"format_iter(): {err[1]}")]
    got_text, err = _guarded(lambda: obj.format(join=join, **kw))
    if err is not None:
        return [(C_RAISE, f"format(): {err[1]}")]
    title_lines, rows = expected_lines(info, start, style_name, title, add_self, repr_kind, typed)
    exp = title_lines + [p + r for _i, _l, p, r in rows]
    out = []
    if got_lines != exp:
        if len(got_lines) != len(exp):
            cl = C_LIST if style_name == "list" else C_COUNT
            out.append((cl, f"{len(got_lines)} lines {got_lines}, required {len(exp)}: {exp}"))
        elif got_lines[: len(title_lines)] != title_lines:
            out.append((C_TITLE, f"title line {got_lines[:len(title_lines)]}, required {title_lines}"))
        else:
            body = got_lines[len(title_lines):]
            for g, (i, _l, p, r) in zip(body, rows):
                if g != p + r:
                    if not g.endswith(r):
                        out.append((C_REND, f"line {g!r} of node {info.nodes[i]._data!r} does not end with its rendering {r!r}"))
                    elif style_name == "list":
                        out.append((C_LIST, f"line {g!r}, required {r!r}"))
                    else:
                        out.append((C_PREFIX, f"line {g!r} of node {info.nodes[i]._data!r} has prefix {g[:len(g) - len(r)]!r}, required {p!r}; all lines {got_lines}"))
                    break
    if got_text != join.join(got_lines):
        out.append((C_JOIN, f"format(join={join!r}) = {got_text!r}, format_iter() = {got_lines}"))
    if start == -1:  # Tree.print: the documented shortcut for print(tree.format(...))
        buf = io.StringIO()
        _r, err = _guarded(lambda: obj.print(join=join, file=buf, **kw))
        if err is not None:
            out.append((C_PRINT, f"print(): {err[1]}"))
        elif buf.getvalue() != got_text + "\n":
            out.append((C_PRINT, f"print(join={join!r}) wrote {buf.getvalue()!r}, format() = {got_text!r}"))
    # (decoding presupposes that every segment is visible: a custom style with an empty connector cannot encode the shape)
    if decode and style_name != "list" and len(got_lines) == len(exp) and all(segments(style_name)):
        body = got_lines[len(title_lines):]
        if all(g.endswith(r) for g, (_i, _l, _p, r) in zip(body, rows)):
            prefixes = [g[: len(g) - len(r)] for g, (_i, _l, _p, r) in zip(body, rows)]
            out += decode_check(info, rows, prefixes, style_name, has_title=bool(title_lines) or (start == -1 and title is not False))
    return out


def check_bad_style(info: Info, start, add_self, title):
    """-> ([(clause, text)], [notes])"""
    obj = info.tree if start == -1 else info.nodes[start]
    kw = {"title": title} if start == -1 else {"add_self": add_self}
    n_lines = len(info.branch(start, add_self))
    out, notes = [], []
    _v, err = _guarded(lambda: obj.format(style="no-such-style", **kw))
    if err is None or err[0] != "ValueError":
        out.append((C_BADSTYLE, f"style='no-such-style': {'returned ' + repr(_v) if err is None else err[1]} (required ValueError)"))
    for bad in BAD_TUPLES:
        _v, err = _guarded(lambda: obj.format(style=bad, **kw))
        if err is not None and err[0] == "ValueError":
            continue
        if err is None and n_lines == 0:
            notes.append("a style tuple of wrong length is accepted silently when the branch has no node to render (empty tree, leaf with add_self=False): validation happens per rendered node")
            continue
        out.append((C_BADSTYLE, f"style={bad!r} ({len(bad)} segments): {'returned ' + repr(_v) if err is None else err[1]} (required ValueError)"))
    return out, notes


# ------------------------------------------------------------------ inputs
LETTERS = "abcdefgh"


def spec_parent_label(spec, i):
    """label of node i's parent; the tree name 'T' for top-level nodes"""
    p = spec.nodes[i][0]
    return "T" if p == -1 else spec.nodes[p][1]


def shape_specs(n_max: int, n_min: int = 0):
    """Per ordered forest: distinct labels; labels by sibling position (clones across parents);
    a typed tree with alternating kinds."""
    out = []
    for n in range(n_min, n_max + 1):
        for pv in gen.forests(n):
            out += variants(pv)
    return out


def variants(pv):
    n = len(pv)
    sib = []
    count: dict[int, int] = {}
    for p in pv:
        sib.append(count.get(p, 0))
        count[p] = sib[-1] + 1
    out = [gen.Spec(tuple((pv[i], LETTERS[i], None, None) for i in range(n)))]
    if n >= 2:
        out.append(gen.Spec(tuple((pv[i], "xyzuvwrst"[sib[i]], None, None) for i in range(n))))
    if n >= 1:
        out.append(gen.Spec(tuple((pv[i], LETTERS[i], None, ("k1", "k2")[i % 2]) for i in range(n)), typed=True))
    return out


def configs(start):
    """(style, title, add_self, repr, join, decode) for one start object."""
    for st in style_names():
        for ta in (TITLES if start == -1 else (True, False)):
            title, add_self = (ta, True) if start == -1 else (None, ta)
            for rk in REPRS:
                for j in JOINS:
                    yield st, title, add_self, rk, j, (rk == "template" and j == "\n")


def _add_violation(res, counts, v, per_key=12):
    """Cap the witnesses kept per (func, clause) so that one frequent finding cannot crowd out others."""
    counts[v.key()] = counts.get(v.key(), 0) + 1
    if counts[v.key()] <= per_key:
        res.violations.append(v)


def _chunk(chunk, prop):
    res = Result(prop)
    notes = set()
    counts: dict = {}
    for spec in chunk:
        try:
            tree, _ = gen.build(spec)
            info = Info(tree)
            for start in range(-1, len(info.nodes)):
                for st, title, add_self, rk, j, dec in configs(start):
                    diffs = check_one(info, spec.typed, start, st, title, add_self, rk, j, decode=dec)
                    res.add_case(f"{spec.short()}@{start}|{st}|{title}|{add_self}|{rk}|{j!r}", nontrivial=len(spec) > 0)
                    for clause, text in diffs:
                        _add_violation(res, counts, Violation(prop, clause, func_name(start, st), {
                            "kind": "format", "spec": _spec_json(spec), "start": start, "style": st, "title": title,
                            "add_self": add_self, "repr": rk, "join": j}, clip(text)))
                for ta in (TITLES if start == -1 else (True, False)):
                    title, add_self = (ta, True) if start == -1 else (None, ta)
                    diffs, nn = check_bad_style(info, start, add_self, title)
                    notes.update(nn)
                    res.add_case(f"{spec.short()}@{start}|badstyle|{title}|{add_self}", nontrivial=True)
                    for clause, text in diffs:
                        _add_violation(res, counts, Violation(prop, clause, func_name(start, None), {
                            "kind": "badstyle", "spec": _spec_json(spec), "start": start, "title": title, "add_self": add_self}, clip(text)))
        except Exception:  # noqa: BLE001
            res.errors.append(f"{spec.short()}: {traceback.format_exc()[-1000:]}")
    res.notes += sorted(notes)
    return res


HIST_STYLES = (None, "round43c", "list", "custom6var")


def _chunk_big(chunk, prop):
    """Larger trees under the reduced configuration set of the histories."""
    res = Result(prop)
    counts: dict = {}
    for spec in chunk:
        try:
            tree, _ = gen.build(spec)
            info = Info(tree)
            for start in range(-1, len(info.nodes)):
                for st in HIST_STYLES:
                    for add_self in ((True,) if start == -1 else (True, False)):
                        diffs = check_one(info, spec.typed, start, st, None, add_self, "template", "\n", decode=True)
                        res.add_case(f"{spec.short()}@{start}|{st}|{add_self}", nontrivial=True)
                        for clause, text in diffs:
                            _add_violation(res, counts, Violation(prop, clause, func_name(start, st), {
                                "kind": "format", "spec": _spec_json(spec), "start": start, "style": st, "title": None,
                                "add_self": add_self, "repr": "template", "join": "\n"}, clip(text)))
        except Exception:  # noqa: BLE001
            res.errors.append(f"{spec.short()}: {traceback.format_exc()[-1000:]}")
    return res


def _mutated(spec, mut):
    """fresh tree, every accessor evaluated once (hist.warm), one structural change -> Info of the changed tree"""
    tree, nodes = gen.build(spec)
    hist.warm(tree, nodes)
    if not hist.apply(tree, nodes, mut, gen.make_data_factory(spec.flavour), typed=spec.typed):
        return None
    if view.wf_violations(tree):
        return None  # a broken structure after a single change is C01's finding, not a rendering question
    return Info(tree)


def _chunk_hist(chunk, prop):
    res = Result(prop)
    counts: dict = {}
    for spec in chunk:
        try:
            for mut in hist.mutations(spec):
                info = _mutated(spec, mut)
                if info is None:
                    continue
                for start in range(-1, len(info.nodes)):
                    for st in HIST_STYLES:
                        for add_self in ((True,) if start == -1 else (True, False)):
                            diffs = check_one(info, spec.typed, start, st, None, add_self, "template", "\n", decode=True)
                            res.add_case(f"{spec.short()}|{mut}@{start}|{st}|{add_self}", nontrivial=True)
                            for clause, text in diffs:
                                _add_violation(res, counts, Violation(prop, clause, func_name(start, st), {
                                    "kind": "format", "spec": _spec_json(spec), "after": mut, "start": start, "style": st, "title": None,
                                    "add_self": add_self, "repr": "template", "join": "\n"}, clip(f"after {mut} on a tree whose accessors had all been evaluated: " + text)))
        except Exception:  # noqa: BLE001
            res.errors.append(f"{spec.short()}: {traceback.format_exc()[-1000:]}")
    return res


def run(prop: str, tier: str, only=None) -> Result:
    total = Result(prop)
    n_full = 5 if tier == "quick" else 6
    specs = shape_specs(n_full)
    # equal data under distinct data_ids (possibly as siblings), nested clones (a[a[..]]) and a top node named like the tree
    specs += list(gen.eqpair_specs(4)) + [s for s in gen.plain_specs(4, min_n=2, alphabet=("a", "T")) if any(r[1] == spec_parent_label(s, i) for i, r in enumerate(s.nodes))]
    total.merge(parallel(_chunk, specs, prop, prop=prop))
    per = f"every style of CONNECTORS ({len(CONNECTORS)}) + default + 'list' + {len(CUSTOM_STYLES)} custom 4-/6-tuples, title in {{None, False, text, True}} (Tree) / add_self on/off (Node), repr in {{default, template, callable, ''}}, join in {{'\\n', ', ', ''}}"
    total.bounds["Tree.format / Node.format / format_iter"] = (
        f"all ordered forests with <= {n_full} nodes (distinct labels; clone labelling; typed) + equal data under distinct ids and node == parent / tree-name labels <= 4 nodes, the Tree and every start node, {per}; "
        "decoder on template repr; invalid style name / tuple length"
    )
    n_hist = 4 if tier == "quick" else 5
    total.merge(parallel(_chunk_hist, shape_specs(n_hist, 1), prop, prop=prop))
    total.bounds["format after a change (histories)"] = (
        f"all ordered forests with 1..{n_hist} nodes (distinct labels; clone labelling; typed): every accessor of the tree and of every node evaluated once, then each single change "
        "(remove with / without keep_children, move_to every other position appended / prepended, add appended / prepended, remove_children, sort_children, deep copy below every other node), "
        f"then the Tree and every start node in styles {HIST_STYLES}, add_self on/off, template repr, with the decoder"
    )
    big = gen.big_specs(seed() + 16, 9 if tier == "quick" else 60, lo=18, hi=40) + gen.big_specs(seed() + 17, 3 if tier == "quick" else 20, lo=18, hi=40, typed=True)
    rb = parallel(_chunk_big, big, prop, prop=prop)
    rb.exhaustive = False
    total.merge(rb)
    total.bounds["format of larger trees (sampled)"] = f"{len(big)} seeded trees with 18..40 nodes (long sibling runs / chains / mixed; a quarter typed), the Tree and every start node, styles {HIST_STYLES}, add_self on/off, template repr, with the decoder (VERIF_SEED={seed()})"
    if tier != "quick":
        rng = random.Random(seed() * 1_000_003 + 16)
        seven = [s for pv in gen.forests(7) for s in variants(pv)]
        rng.shuffle(seven)
        samp = seven[:300]
        deep = [gen.Spec(tuple((i - 1, LETTERS[i], None, None) for i in range(8)))]  # a chain of depth 8
        r = parallel(_chunk, samp + deep, prop, prop=prop)
        r.exhaustive = False
        total.merge(r)
        total.bounds["Tree.format / Node.format (7 nodes, sampled)"] = f"{len(samp)} sampled labelled forests with 7 nodes + one chain of depth 8, same configurations (VERIF_SEED={seed()})"
    total.notes = sorted(set(total.notes))
    return total


def replay(witness: dict, prop: str) -> list[tuple[str, str]]:
    spec = spec_from_json(witness["spec"])
    if witness.get("after"):
        info = _mutated(spec, witness["after"])
        if info is None:
            return []
    else:
        tree, _ = gen.build(spec)
        info = Info(tree)
    if witness.get("kind") == "badstyle":
        return check_bad_style(info, witness["start"], witness["add_self"], witness["title"])[0]
    return check_one(info, spec.typed, witness["start"], witness["style"], witness["title"], witness["add_self"],
                     witness["repr"], witness["join"], decode=True)
