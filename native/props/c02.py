"""C02 -- lookups and clone queries reflect exactly the nodes currently in the tree
(bounded tier).

Oracle: the nodes reachable from the root through raw `_children` (view.reachable), grouped
by their raw `_data_id`.  Every lookup of the public API -- Tree.find_all(data | data_id=,
max_results=), find_first(data | data_id= | node_id=), `data in tree`, tree[key],
Node.get_clones(add_self=), is_clone(), Tree.count / count_unique, Node.data_id -- must
return exactly those nodes, for every id present or absent.

Part 1 (static): every enumerated tree in every data flavour.
Part 2 (dynamic): the same check after every single mutating operation of ops.enum_ops on
every enumerated pre-state (also after *refused* operations), and after every step of
seeded random histories; plus the data_id rule for the nodes an operation creates / re-keys
(explicit id if given, else the tree's callback applied to the data, else hash(data)).
"""
from __future__ import annotations

import random
import signal
import traceback

from .. import gen, ops, view
from ..harness import Result, Violation, clip, parallel, seed
from .mut import _op_json, _spec_json, op_from_json, spec_from_json

GROUPS = ("add", "addnode", "move", "remove", "data", "del")


class _Timeout(BaseException):
    pass


def _on_alarm(signum, frame):
    raise _Timeout()


class _Abort(Exception):
    pass


def _calc_of(flavour):
    """The documented id rule for data without explicit id: the tree's callback if the tree
    has one (flavour 'keyed'), else hash(data)."""
    if flavour == "keyed":
        return lambda d: gen.keyed_calc_id(None, d)
    return hash


def _has(lst, x) -> bool:
    return any(y is x for y in lst)


def _same_set(a, b) -> bool:
    """Same nodes by identity, each exactly once (order is not pinned by the property)."""
    return len(a) == len(b) and all(_has(b, x) for x in a) and all(_has(a, x) for x in b) and len({id(x) for x in a}) == len(a)


class _Ctx:
    def __init__(self, prop, wit, names):
        self.prop = prop
        self.wit = wit
        self.names = names  # id(node) -> label for texts
        self.out: list[Violation] = []
        self.current = "?"

    def r(self, x):
        if isinstance(x, (list, tuple)):
            return "[" + ", ".join(self.r(y) for y in x) + "]"
        if hasattr(x, "_parent") and hasattr(x, "_data_id"):
            return self.names.get(id(x), f"<unknown node {x._data!r}>")
        return repr(x)

    def bad(self, func, clause, text, **at):
        if len(self.out) > 40:
            return
        w = dict(self.wit)
        w.update(at)
        w["clause"] = clause
        w["func"] = func
        self.out.append(Violation(self.prop, clause, func, w, clip(text)))

    def call(self, func, fn, **at):
        self.current = func
        try:
            return True, fn()
        except _Timeout:
            self.bad(func, "terminates", "call did not return within the time limit", **at)
            raise _Abort()
        except Exception as e:  # noqa: BLE001
            self.bad(func, "raises nothing", f"raised {type(e).__name__}: {e}", **at)
        return False, None

    def exact(self, func, clause, fn, expected, **at):
        ok, v = self.call(func, fn, **at)
        if ok and not (isinstance(v, list) and _same_set(v, expected)):
            self.bad(func, clause, f"returned {self.r(v)}, nodes in the tree with that id: {self.r(expected)}", **at)
        return v if ok else None

    def member(self, func, clause, fn, expected, **at):
        """None if nothing matches, else one of the matching nodes."""
        ok, v = self.call(func, fn, **at)
        if ok:
            if (not expected and v is not None) or (expected and not _has(expected, v)):
                self.bad(func, clause, f"returned {self.r(v)}, nodes in the tree with that id: {self.r(expected)}", **at)

    def eq(self, func, clause, fn, expected, **at):
        ok, v = self.call(func, fn, **at)
        if ok and not (type(v) is type(expected) and v == expected):
            self.bad(func, clause, f"returned {v!r}, expected {expected!r}", **at)


# ------------------------------------------------------------------ probes
PROBE_LABELS = ("a", "b", "c", "n", "x")
ID_PROBES = ("id7", "id9", 0, 1, 2, 4242, "a", "n", "x", "key_a", "key_b", "key_n", -1)


RAW_DATA_PROBES = ("id7", "id9", "key_a", 1, 0)


def _variants(flavour, lab, d):
    """Other objects that denote the same (or deliberately not the same) data."""
    out = []
    if flavour == "str":
        out.append((f"fresh equal str {lab!r}", "".join(list(lab))))
    elif flavour == "tuple":
        out.append((f"fresh equal tuple {lab!r}", tuple(list(d))))
    elif flavour == "dataclass":
        out.append((f"fresh equal Item({lab!r})", gen.Item(lab)))
    elif flavour == "dictwrapper":
        from nutree.common import DictWrapper

        out.append((f"other wrapper of the same dict {lab!r}", DictWrapper(d._dict)))
        out.append((f"wrapper of an equal copy of dict {lab!r}", _keep(DictWrapper(dict(d._dict)))))
    elif flavour == "keyed":
        out.append((f"other Keyed object with key of {lab!r}", gen.Keyed("key_" + lab)))
    return out


_KEEP: list = []


def _keep(x):
    _KEEP.append(x)  # keep alive: its id() is its hash
    if len(_KEEP) > 5000:
        del _KEEP[:2500]
    return x


def make_probes(flavour, mk, labels, variants=True):
    data = []
    for lab in labels:
        d = mk(lab)
        data.append((f"data {lab!r}", d))
        if variants:
            data += _variants(flavour, lab, d)
    # objects that are *ids* of nodes, used as data: found only if calc_data_id(obj) is a node's id
    data += [(f"raw object {x!r} as data", x) for x in RAW_DATA_PROBES]
    return data


# ------------------------------------------------------------------ the check of one tree state
ID_PROBES_LIGHT = ("id7", "id9", 0, 1, 2, 4242)


def check_lookups(cx: _Ctx, tree, flavour, data_probes, node_id_probes, idx_of, light=False):
    """Compare every lookup with the reachable nodes.  idx_of: id(node) -> witness index."""
    from nutree.common import AmbiguousMatchError

    calc = _calc_of(flavour)
    R = view.reachable(tree)
    by_id: dict = {}
    for n in R:
        by_id.setdefault(n._data_id, []).append(n)
    by_nid: dict = {}
    for n in R:
        by_nid.setdefault(n._node_id, []).append(n)
    internal = [id(v) for v in tree._nodes_by_data_id.values()]

    def max_results(func, fn_k, exp, **at):
        for k in range(1, len(exp) + 2):
            ok, v = cx.call(func, lambda: fn_k(k), max_results=k, **at)
            if ok:
                want = min(k, len(exp))
                if not (isinstance(v, list) and len(v) == want and all(_has(exp, x) for x in v) and len({id(x) for x in v}) == len(v)):
                    cx.bad(func, "ensures max_results=k returns min(k, len) distinct matching nodes", f"k={k}: returned {cx.r(v)}, matching nodes: {cx.r(exp)}", max_results=k, **at)

    def getitem(key, **at):
        """tree[key] -- documented 'smart' search: int -> node_id; int/str -> data_id; else
        calc_data_id(key); several matches -> AmbiguousMatchError, none -> KeyError."""
        hits = None
        if isinstance(key, int) and by_nid.get(key):
            hits = by_nid[key][:1]
        if hits is None and isinstance(key, (int, str)) and key in by_id:
            hits = by_id[key]
        if hits is None:
            try:
                hits = by_id.get(calc(key), [])
            except TypeError:
                return
        func = "Tree.__getitem__"
        cx.current = func
        try:
            v = tree[key]
        except _Timeout:
            cx.bad(func, "terminates", "call did not return within the time limit", **at)
            raise _Abort()
        except KeyError:
            if hits:
                cx.bad(func, "ensures the node is found", f"raised KeyError, nodes in the tree with that id: {cx.r(hits)}", **at)
            return
        except AmbiguousMatchError:
            if len(hits) < 2:
                cx.bad(func, "raises AmbiguousMatchError only for several matches", f"raised AmbiguousMatchError, nodes in the tree with that id: {cx.r(hits)}", **at)
            return
        except Exception as e:  # noqa: BLE001
            cx.bad(func, "raises only KeyError / AmbiguousMatchError", f"raised {type(e).__name__}: {e}", **at)
            return
        if len(hits) != 1 or v is not hits[0]:
            cx.bad(func, "ensures result is the one node with that id (KeyError if none, AmbiguousMatchError if several)", f"returned {cx.r(v)}, nodes in the tree with that id: {cx.r(hits)}", **at)

    # -- by data object
    id_probes = list(ID_PROBES_LIGHT if light else ID_PROBES)
    for name, d in data_probes:
        try:
            did = calc(d)
        except Exception:  # noqa: BLE001
            continue
        id_probes.append(did)
        exp = by_id.get(did, [])
        at = {"probe": name}
        cx.exact("Tree.find_all", "ensures find_all(data) == nodes in the tree with data_id == calc_data_id(data)", lambda: tree.find_all(d), exp, **at)
        max_results("Tree.find_all", lambda k: tree.find_all(d, max_results=k), exp, **at)
        cx.member("Tree.find_first", "ensures find_first(data) is a node in the tree with that id, None if there is none", lambda: tree.find_first(d), exp, **at)
        if not light:  # `find` is an alias of find_first
            cx.member("Tree.find", "ensures find(data) is a node in the tree with that id, None if there is none", lambda: tree.find(d), exp, **at)
        cx.eq("Tree.__contains__", "ensures (data in tree) == some node in the tree has that id", lambda: d in tree, bool(exp), **at)
        getitem(d, **at)
    # -- by data_id
    seen = set()
    for x in id_probes + [n._data_id for n in R]:
        key = (type(x).__name__, x)
        if key in seen:
            continue
        seen.add(key)
        exp = by_id.get(x, [])
        at = {"probe": f"data_id {x!r}" if not isinstance(x, int) or abs(x) < 10**6 else "data_id <hash>"}
        cx.exact("Tree.find_all", "ensures find_all(data_id=) == nodes in the tree with that data_id", lambda: tree.find_all(data_id=x), exp, **at)
        max_results("Tree.find_all", lambda k: tree.find_all(data_id=x, max_results=k), exp, **at)
        cx.member("Tree.find_first", "ensures find_first(data_id=) is a node in the tree with that id, None if there is none", lambda: tree.find_first(data_id=x), exp, **at)
        if isinstance(x, (int, str)):
            getitem(x, **at)
    # -- by node_id
    for nid in list(node_id_probes) + [n._node_id for n in R] + [4242, 1]:
        if nid is None:
            continue
        exp = by_nid.get(nid, [])
        at = {"probe": "node_id of node %s" % idx_of.get(("nid", nid), "<absent>")}
        ok, v = cx.call("Tree.find_first", lambda: tree.find_first(node_id=nid), **at)
        if ok and ((not exp and v is not None) or (exp and (len(exp) != 1 or v is not exp[0]))):
            cx.bad("Tree.find_first", "ensures find_first(node_id=) is the node in the tree with that node_id, None if there is none", f"returned {cx.r(v)}, nodes in the tree with that node_id: {cx.r(exp)}", **at)
        getitem(nid, **at)
    # -- per node
    for n in R:
        at = {"node": idx_of.get(id(n))}
        grp = by_id[n._data_id]
        others = [m for m in grp if m is not n]
        cx.eq("Node.data_id", "ensures the property returns the node's id", lambda: n.data_id == n._data_id and type(n.data_id) is type(n._data_id), True, **at)
        cx.eq("Node.node_id", "ensures node ids are unique in the tree", lambda: len(by_nid[n.node_id]), 1, **at)
        c0 = cx.exact("Node.get_clones", "ensures get_clones() == the other nodes in the tree with the same data_id", lambda: n.get_clones(), others, **at)
        cx.exact("Node.get_clones", "ensures get_clones() == the other nodes in the tree with the same data_id", lambda: n.get_clones(add_self=False), others, add_self=False, **at)
        c1 = cx.exact("Node.get_clones", "ensures get_clones(add_self=True) == all nodes in the tree with the same data_id", lambda: n.get_clones(add_self=True), grp, add_self=True, **at)
        c2 = cx.exact("Node.get_clones", "ensures get_clones(add_self=True) == all nodes in the tree with the same data_id", lambda: n.get_clones(add_self=True), grp, add_self=True, **at)
        for lst, flag in ((c0, False), (c1, True), (c2, True)):
            if lst is not None and id(lst) in internal:
                cx.bad("Node.get_clones", "ensures result is a fresh list, not the index's own list", "returned the internal clone list object", add_self=flag, **at)
        if c1 is not None and c1 is c2:
            cx.bad("Node.get_clones", "ensures result is a fresh list, not the index's own list", "two calls returned the same list object", add_self=True, **at)
        for lst in (c0, c1):
            if lst is not None and id(lst) not in internal:
                lst.clear()  # a caller may do that with a fresh list; the index must not notice
        cx.eq("Node.is_clone", "ensures is_clone() == (another node in the tree has the same data_id)", lambda: n.is_clone(), len(grp) > 1, **at)
        ok, v = cx.call("Tree.find_all", lambda: tree.find_all(data_id=n._data_id), **at)
        if ok and not (isinstance(v, list) and _has(v, n)):
            cx.bad("Tree.find_all", "ensures no node is missing: every node in the tree is listed under its own data_id", f"{cx.r(n)} not in {cx.r(v)}", **at)
        cx.eq("Tree.find_first", "ensures find_first(node_id=n.node_id) is n", lambda: tree.find_first(node_id=n.node_id) is n, True, **at)
    # -- counts
    cx.eq("Tree.count", "ensures count == number of nodes in the tree", lambda: tree.count, len(R))
    cx.eq("Tree.__len__", "ensures len(tree) == number of nodes in the tree", lambda: len(tree), len(R))
    cx.eq("Tree.count_unique", "ensures count_unique == number of distinct data_ids in the tree", lambda: tree.count_unique, len(by_id))
    return R


def _guarded(cx: _Ctx, fn):
    signal.signal(signal.SIGALRM, _on_alarm)
    signal.setitimer(signal.ITIMER_REAL, 20.0)
    try:
        return fn()
    except _Abort:
        return None
    except _Timeout:
        cx.bad(cx.current, "terminates", "call did not return within the time limit")
        return None
    finally:
        signal.setitimer(signal.ITIMER_REAL, 0)


def _names(nodes, extra=()):
    d = {}
    for i, n in enumerate(nodes):
        d[id(n)] = f"#{i}"
    for k, n in enumerate(extra):
        d.setdefault(id(n), f"new{k}")
    return d


# ------------------------------------------------------------------ part 1: static
def check_static(prop, spec, flavour) -> tuple[list[Violation], int]:
    mk = gen.make_data_factory(flavour)
    tree, nodes = gen.build(spec, flavour=flavour, mk=mk)
    calc = _calc_of(flavour)
    wit = {"kind": "static", "spec": _spec_json(spec), "flavour": flavour}
    cx = _Ctx(prop, wit, {})
    for i, n in enumerate(nodes):
        cx.names[id(n)] = f"#{i}({n._data!r} id={'<hash>' if isinstance(n._data_id, int) and abs(n._data_id) > 10**6 else repr(n._data_id)})"
    idx_of = {id(n): i for i, n in enumerate(nodes)}
    for i, n in enumerate(nodes):
        idx_of[("nid", n._node_id)] = i
    labels = sorted({r[1] for r in spec.nodes} | set(PROBE_LABELS))
    probes = make_probes(flavour, mk, labels)

    def body():
        # the data_id rule
        for i, (n, rec) in enumerate(zip(nodes, spec.nodes)):
            d = mk(rec[1])
            want = rec[2] if rec[2] is not None else calc(d)
            ok, got = cx.call("Node.data_id", lambda: n.data_id, node=i)
            if ok and not (got == want and type(got) is type(want)):
                cx.bad("Node.data_id", "ensures data_id == explicit id if given, else the tree's callback applied to the data, else hash(data)", f"node {cx.r(n)}: data_id {got!r}, rule gives {want!r}", node=i)
            ok, got = cx.call("Node.data", lambda: n.data, node=i)
            if ok and got is not d:
                cx.bad("Node.data", "ensures data is the object that was added", f"node {i}: {got!r}", node=i)
            ok, got = cx.call("Tree.calc_data_id", lambda: tree.calc_data_id(d), node=i)
            if ok and got != calc(d):
                cx.bad("Tree.calc_data_id", "ensures calc_data_id == callback(data) if a callback was given else hash(data)", f"{got!r} vs {calc(d)!r}", node=i)
        check_lookups(cx, tree, flavour, probes, [], idx_of)

    _guarded(cx, body)
    return cx.out, len(nodes)


def _static_chunk(chunk, prop):
    res = Result(prop)
    for flavour, spec in chunk:
        try:
            vs, n = check_static(prop, spec, flavour)
            res.violations += vs
            res.add_case(f"static {flavour} {spec.short()}", nontrivial=n > 0)
        except Exception:  # noqa: BLE001
            res.errors.append(f"static {flavour} {spec.short()}: {traceback.format_exc()[-1200:]}")
    return res


# ------------------------------------------------------------------ part 2: dynamic
class Pre:
    """What the id-rule clauses need from the state before an operation."""

    def __init__(self, w: ops.World):
        self.ids = [n._data_id for n in w.nodes]
        self.data = [n._data for n in w.nodes]
        self.nids = [n._node_id for n in w.nodes]
        self.reach = view.reachable(w.tree)
        self.group = {}
        for n in self.reach:
            self.group.setdefault(n._data_id, []).append(n)


def sync_nodes(w: ops.World) -> None:
    """Append nodes created by the last operation to w.nodes (pre-order, deterministic)."""
    have = {id(n) for n in w.nodes}
    for n in view.reachable(w.tree):
        if id(n) not in have:
            w.nodes.append(n)
            w.keep.append(n)
            have.add(id(n))


def id_rule_after(cx: _Ctx, w: ops.World, op, pre: Pre, status, result):
    """The data_id rule for the nodes the operation created or re-keyed."""
    if status != "ok":
        return
    calc = _calc_of(w.flavour)
    t = op[0]
    if t == "add":
        _, p, lab, b, did = op[:5]
        want = did if did is not None else calc(w.mk(lab))
        if result is not None and hasattr(result, "_data_id"):
            ok, got = cx.call("Node.data_id", lambda: result.data_id)
            if ok and got != want:
                cx.bad("Node.data_id", "ensures a new node's data_id == explicit id if given, else callback(data), else hash(data)", f"new node {result._data!r}: data_id {got!r}, rule gives {want!r}")
    elif t == "addnode":
        _, p, src, b, deep, *rest = op
        want = rest[0] if rest and rest[0] is not None else pre.ids[src]
        if result is not None and hasattr(result, "_data_id"):
            ok, got = cx.call("Node.data_id", lambda: result.data_id)
            if ok and got != want:
                cx.bad("Node.data_id", "ensures a copied node keeps the source's data_id (or gets the explicit id)", f"copy of node {src}: data_id {got!r}, expected {want!r}")
    elif t in ("set_data", "rename"):
        if t == "rename":
            i, new, did, wc = op[1], op[2], None, None
        else:
            _, i, lab, did, wc = op
            new = None if lab is None else w.mk(lab)
        node = w.nodes[i]
        old_data, old_id = pre.data[i], pre.ids[i]
        group = pre.group.get(old_id, [node])
        targets = group if (len(group) > 1 and wc) else [node]
        if new is not None and new is not old_data:
            try:
                ambiguous = bool(new == old_data)  # equal but not identical: both readings allowed
            except Exception:  # noqa: BLE001
                ambiguous = False
            change_data = True
        else:
            ambiguous, change_data = False, False
        if did is not None:
            want = did
        elif change_data:
            want = None if ambiguous else calc(new)
        else:
            want = old_id
        func = "Node.set_data" if t == "set_data" else "Node.rename"
        if want is not None:
            for tnode in targets:
                if tnode._data_id != want:
                    cx.bad(func, "ensures the re-keyed node(s) carry the new data_id (explicit id if given, else calc_data_id(new data))", f"node {cx.r(tnode)} has data_id {tnode._data_id!r}, rule gives {want!r} (old id {old_id!r})", node=i)
        if change_data and node._data is not new and not ambiguous:
            cx.bad(func, "ensures the node holds the new data", f"node {i} holds {node._data!r}, set_data passed {new!r}", node=i)


def filter_ops(spec: gen.Spec):
    """In-place filter (Tree.filter / Node.filter) with every keep-set of nodes as predicate."""
    n = len(spec.nodes)
    for p in [-1] + list(range(n)):
        for mask in range(2**n):
            yield ("filter", p, mask)


def _apply(w: ops.World, op):
    if op[0] != "filter":
        return ops.apply_real(w, op)
    _, p, mask = op
    keep = {id(n) for i, n in enumerate(w.nodes) if mask >> i & 1}
    try:
        return "ok", w.rt(p).filter(lambda node: id(node) in keep)
    except Exception as e:  # noqa: BLE001
        return "exc", e


def check_after_op(prop, w: ops.World, op, wit) -> list[Violation]:
    """Apply `op` to the real tree of `w` and evaluate all clauses on the result."""
    cx = _Ctx(prop, wit, {})
    pre = Pre(w)
    n_before = len(w.nodes)

    signal.signal(signal.SIGALRM, _on_alarm)
    signal.setitimer(signal.ITIMER_REAL, 20.0)
    try:
        status, result = _apply(w, op)
    except _Timeout:
        return []  # non-termination of a mutator is C01/C13's finding, not a lookup clause
    finally:
        signal.setitimer(signal.ITIMER_REAL, 0)
    sync_nodes(w)
    cx.names.update(_names(w.nodes))
    for i in range(n_before, len(w.nodes)):
        cx.names[id(w.nodes[i])] = f"#{i}(new)"
    idx_of = {id(n): i for i, n in enumerate(w.nodes)}
    for i, nid in enumerate(pre.nids):
        if nid is not None:
            idx_of[("nid", nid)] = i
    for i, n in enumerate(w.nodes):
        if n._node_id is not None:
            idx_of.setdefault(("nid", n._node_id), i)
    labels = sorted({r[1] for r in w.spec.nodes} | {"a", "n"} | {o for o in op if isinstance(o, str) and len(o) == 1})
    # object-identity variants of the probes are a matter of hashing (static part); for str they are dropped here
    probes = make_probes(w.flavour, w.mk, labels, variants=w.flavour != "str")

    def body():
        check_lookups(cx, w.tree, w.flavour, probes, pre.nids, idx_of, light=True)
        if w.otree is not None:
            oidx = {id(n): f"o{i}" for i, n in enumerate(w.onodes)}
            oidx.update(idx_of)
            for i, n in enumerate(w.onodes):
                cx.names.setdefault(id(n), f"other#{i}")
            sub = _Ctx(prop, dict(wit, tree="other"), cx.names)
            check_lookups(sub, w.otree, w.flavour, probes, pre.nids, oidx, light=True)
            cx.out += sub.out
        id_rule_after(cx, w, op, pre, status, result)

    try:
        _guarded(cx, body)
    except RuntimeError as e:  # view.reachable(): cyclic structure -- C01's finding
        if "not finite" not in str(e):
            raise
    for v in cx.out:
        v.text = clip(f"after {op} ({status}{'' if status == 'ok' else ': ' + type(result).__name__}): {v.text}")
    return cx.out


def _dyn_chunk(chunk, prop):
    res = Result(prop)
    for flavour, spec, op in chunk:
        if True:
            try:
                w = ops.World(spec, flavour=flavour, with_other=ops.needs_other(op))
                before = view.obs(w.tree)
                wit = {"kind": "op", "spec": _spec_json(spec), "flavour": flavour, "op": _op_json(op)}
                vs = check_after_op(prop, w, op, wit)
                res.violations += vs
                res.add_case(f"{flavour} {spec.short()} :: {op}", nontrivial=view.obs(w.tree) != before or bool(vs))
            except Exception:  # noqa: BLE001
                res.errors.append(f"{flavour} {spec.short()} {op}: {traceback.format_exc()[-1200:]}")
    return res


# ------------------------------------------------------------------ histories
def _live_ops(w: ops.World, rng: random.Random):
    """Candidate operations over the nodes currently in the real tree (raw structure)."""
    reach = view.reachable(w.tree)
    pos = {id(n): i for i, n in enumerate(w.nodes)}
    live = [pos[id(n)] for n in reach if id(n) in pos]
    P = [-1] + live
    labels = ["a", "b", "c", "n"]
    root = w.tree._root

    def children_of(p):
        par = root if p == -1 else w.nodes[p]
        return [pos[id(c)] for c in view.kids(par) if id(c) in pos]

    out = []
    for _ in range(10):
        kind = rng.choice(GROUPS)
        if kind == "add":
            p = rng.choice(P)
            ch = children_of(p)
            b = rng.choice([None, None, True] + [("i", k) for k in range(len(ch) + 1)] + [("n", c) for c in ch])
            out.append(("add", p, rng.choice(labels), b, rng.choice([None, None, None, "id9", 0])))
        elif kind == "move" and live:
            i = rng.choice(live)
            p = rng.choice(P)
            ch = [c for c in children_of(p) if c != i]
            out.append(("move", i, p, rng.choice([None, True] + [("n", c) for c in ch])))
        elif kind == "remove" and live:
            out.append(("remove", rng.choice(live), rng.random() < 0.4, rng.random() < 0.4))
            if rng.random() < 0.15:
                out.append(("remove_children", rng.choice(P)))
        elif kind == "addnode" and live:
            out.append(("addnode", rng.choice(P), rng.choice(live), rng.choice([None, True]), rng.choice([None, False, True])))
        elif kind == "data" and live:
            i = rng.choice(live)
            out.append(
                rng.choice(
                    [
                        ("set_data", i, rng.choice(labels), None, rng.choice([None, False, True])),
                        ("set_data", i, rng.choice(labels), None, rng.choice([False, True])),
                        ("set_data", i, rng.choice(labels), rng.choice(["id9", 0]), rng.choice([None, False, True])),
                        ("set_data", i, None, rng.choice(["id9", 0]), rng.choice([None, False, True])),
                        ("rename", i, rng.choice(labels)),
                    ]
                )
            )
        elif kind == "del":
            out.append(("del", rng.choice(labels)))
    return out


def _hist_setup(hseed: int):
    rng = random.Random(hseed)
    n = rng.randint(0, 5)
    flavour = rng.choice(("str", "str", "str") + gen.FLAVOURS)
    mode = rng.random()
    spec = gen.random_spec(rng, n)
    if mode < 0.2 and n >= 2:  # equal data under distinct explicit ids
        recs = [(p, "x" if rng.random() < 0.6 else lab, None, None) for p, lab, _d, _k in spec.nodes]
        recs = [(p, lab, (i + 1 if lab == "x" else None), None) for i, (p, lab, _d, _k) in enumerate(recs)]
        spec = gen.Spec(tuple(recs))
    return rng, spec, flavour


def _hist_chunk(chunk, prop, length):
    res = Result(prop)
    for (hseed,) in chunk:
        try:
            rng, spec, flavour = _hist_setup(hseed)
            w = ops.World(spec, flavour=flavour, with_other=False)
            hist = []
            for _ in range(length):
                cands = _live_ops(w, rng)
                if not cands:
                    break
                op = rng.choice(cands)
                hist.append(op)
                wit = {"kind": "history", "spec": _spec_json(spec), "flavour": flavour, "ops": [_op_json(o) for o in hist]}
                vs = check_after_op(prop, w, op, wit)
                if vs:
                    for v in vs:
                        v.func += " (history)"
                    res.violations += vs[:6]
                    break
                if view.wf_violations(w.tree):
                    break  # the structure itself is broken (C01's finding); later steps would be noise
            res.add_case(f"hist {flavour} {spec.short()} :: {hist}", nontrivial=len(hist) > 1)
        except Exception:  # noqa: BLE001
            res.errors.append(f"history seed {hseed}: {traceback.format_exc()[-1200:]}")
    return res


# ------------------------------------------------------------------ driver
def _static_items(tier):
    quick = tier == "quick"
    items = []
    for fl in gen.FLAVOURS:
        items += [(fl, s) for s in gen.plain_specs(4 if (quick or fl != "str") else 5)]
        items += [(fl, s) for s in gen.explicit_id_specs(3 if quick else 4)]
    items += [("str", s) for s in gen.eqpair_specs(4 if quick else 5)]
    return items


def _dyn_items(tier):
    quick = tier == "quick"
    out = {"str": list(gen.plain_specs(3 if quick else 4))}
    out["str"] += list(gen.eqpair_specs(3 if quick else 4))
    out["str"] += list(gen.explicit_id_specs(2 if quick else 3))
    for fl in gen.FLAVOURS[1:]:
        out[fl] = list(gen.plain_specs(2 if quick else 3, alphabet=("a", "b")))
        out[fl] += list(gen.explicit_id_specs(1 if quick else 2))
    return out


def run(prop: str, tier: str, only=None) -> Result:
    quick = tier == "quick"
    total = Result(prop)
    st = _static_items(tier)
    total.merge(parallel(_static_chunk, st, prop, prop=prop))
    total.bounds["lookups on a built tree (static)"] = (
        f"every data flavour {gen.FLAVOURS} x all ordered forests with <= 4 nodes x labelings over {{a,b,c}} (clones incl.)"
        + ("" if quick else " (<= 5 nodes for str)")
        + f", one node with an explicit data_id (<= {3 if quick else 4} nodes), equal data under distinct ids (<= {4 if quick else 5} nodes); "
        "probes: every label present or absent as data object (same object, fresh equal object, other DictWrapper of the same / of a copied dict, "
        "other Keyed object with the same key), as data_id (hash / key / explicit ids / 0 / absent ids), every node_id and absent node_ids; max_results = 1..len+1"
    )
    dyn_specs = _dyn_items(tier)
    dyn = [(fl, sp, op) for fl, specs in dyn_specs.items() for sp in specs for op in ops.enum_ops(sp, GROUPS)]
    dyn += [("str", sp, op) for sp in dyn_specs["str"] for op in filter_ops(sp)]
    total.merge(parallel(_dyn_chunk, dyn, prop, prop=prop))
    total.bounds["lookups after one mutating operation (dynamic)"] = (
        f"str: all forests with <= {3 if quick else 4} nodes x {{a,b,c}}, equal-data pairs <= {3 if quick else 4} nodes, explicit-id trees <= {2 if quick else 3} nodes; "
        f"other flavours: forests <= {2 if quick else 3} nodes x {{a,b}}, explicit-id trees <= {1 if quick else 2} nodes; "
        f"every operation of ops.enum_ops groups {GROUPS} (accepted or refused) and in-place filter() from the tree / every node with every keep-set as predicate (str), same probes as the static part, also on the second tree of cross-tree operations"
    )
    n_hist, length = (1500, 6) if quick else (20000, 8)
    base = seed() * 1_000_003 + 2
    h = parallel(_hist_chunk, [(base + i,) for i in range(n_hist)], prop, length, prop=prop)
    h.exhaustive = False
    total.merge(h)
    total.bounds["lookups along mutation histories"] = (
        f"{n_hist} seeded random histories of <= {length} operations (add / copy / move / remove / remove_children / set_data / rename / del) "
        f"from random trees with <= 5 nodes in random data flavours, lookups re-checked after every step (VERIF_SEED={seed()})"
    )
    from . import c13  # index consistency after an add that the typed constructor refuses for its kind

    total.merge(c13.badkind(prop, tier))
    total.exhaustive = False
    return total


def _match(v: Violation, witness: dict) -> bool:
    return (
        v.clause == witness.get("clause")
        and v.func.replace(" (history)", "") == str(witness.get("func", "")).replace(" (history)", "")
        and all(v.witness.get(k) == witness.get(k) for k in ("probe", "node", "tree"))
    )


def replay(witness: dict, prop: str) -> list[tuple[str, str]]:
    spec = spec_from_json(witness["spec"])
    flavour = witness.get("flavour", "str")
    kind = witness.get("kind")
    if kind == "badkind":
        from . import c13

        return c13.replay(witness, prop)
    if kind == "static":
        vs, _n = check_static(prop, spec, flavour)
        return [(v.clause, v.text) for v in vs if _match(v, witness)]
    if kind == "op":
        op = op_from_json(witness["op"])
        w = ops.World(spec, flavour=flavour, with_other=ops.needs_other(op))
        vs = check_after_op(prop, w, op, {})
        return [(v.clause, v.text) for v in vs if _match(v, witness)]
    w = ops.World(spec, flavour=flavour, with_other=False)
    out = []
    for oj in witness["ops"]:
        vs = check_after_op(prop, w, op_from_json(oj), {})
        out = [(v.clause, v.text) for v in vs if _match(v, witness)]
    return out
