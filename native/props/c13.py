"""C13 — refused or failing operations do not corrupt the tree (bounded stand-in).

Part 1 (mut.sweep): every operation of ops.enum_ops that the model refuses (uniqueness, ambiguous
match, invalid position / target, unsupported move) must leave view.obs() unchanged.
Part 2 (here): a user callback raising at its k-th invocation, for every k, during every operation
that takes one: calc_data_id (add / set_data / find / `in`), predicate (filter, filtered, copy),
mapper (save, to_dict_list, to_dot, Node.from_dict below a fresh leaf), sort key, visitor, match callback.  Mutators must
leave wf(T) intact (C01-C03); read-only operations must leave obs() unchanged.
"""
from __future__ import annotations

import io

from .. import gen, ops, view
from ..harness import Result, Violation, clip, parallel
from . import mut


class Boom(Exception):
    pass


def raising(k, inner=None):
    """callable that raises Boom at its k-th invocation (1-based) and records the call count."""
    state = {"n": 0}

    def f(*a, **kw):
        state["n"] += 1
        if state["n"] == k:
            raise Boom(f"callback invocation #{k}")
        return inner(*a, **kw) if inner else None

    f.state = state
    return f


def _ops_with_callbacks(tree, nodes):
    """(name, read_only, thunk(cb)) for every operation taking a user callback."""
    out = []
    out.append(("Tree.filter(predicate)", False, lambda cb: tree.filter(lambda n: (cb(n), len(n.name) % 2 == 1)[1])))
    out.append(("Tree.filtered(predicate)", True, lambda cb: tree.filtered(lambda n: (cb(n), True)[1])))
    out.append(("Tree.copy(predicate)", True, lambda cb: tree.copy(predicate=lambda n: (cb(n), True)[1])))
    out.append(("Tree.sort(key)", False, lambda cb: tree.sort(key=lambda n: (cb(n), n.name)[1])))
    out.append(("Tree.visit(callback)", True, lambda cb: tree.visit(lambda n, memo: cb(n))))
    out.append(("Tree.find_all(match)", True, lambda cb: tree.find_all(match=lambda n: (cb(n), True)[1])))
    out.append(("Tree.find_first(match)", True, lambda cb: tree.find_first(match=lambda n: (cb(n), False)[1])))
    out.append(("Tree.save(mapper)", True, lambda cb: tree.save(io.StringIO(), mapper=lambda n, d: (cb(n), d)[1], key_map=False)))
    out.append(("Tree.to_dict_list(mapper)", True, lambda cb: tree.to_dict_list(mapper=lambda n, d: (cb(n), d)[1])))
    out.append(("Tree.to_dot(node_mapper)", True, lambda cb: list(tree.to_dot(node_mapper=lambda n, d: cb(n)))))
    out.append(("Tree.format(repr)", True, lambda cb: tree.format(repr=lambda n: (cb(n), n.name)[1])))
    # from_dict below a fresh leaf, from the tree's own dict form: the mapper raising at its k-th call must leave a well-formed
    # tree (whatever was built so far is attached *and* registered, or neither)
    def _from_dict(cb):
        lst = tree.to_dict_list()
        leaf = tree.add("fresh_leaf_for_from_dict")
        leaf.from_dict(lst, mapper=lambda parent, item: (cb(parent), item["data"])[1])

    out.append(("Node.from_dict(mapper)", False, _from_dict))
    for i, nd in enumerate(nodes[:2]):
        out.append((f"Node.filter(predicate)@{i}", False, lambda cb, nd=nd: nd.filter(lambda n: (cb(n), False)[1])))
        out.append((f"Node.sort_children(key)@{i}", False, lambda cb, nd=nd: nd.sort_children(key=lambda n: (cb(n), n.name)[1], deep=True)))
    return out


def _cb_chunk(chunk, prop):
    res = Result(prop)
    for spec in chunk:
        n = len(spec.nodes)
        probe_tree, probe_nodes = gen.build(spec)
        names = [nm for nm, _ro, _th in _ops_with_callbacks(probe_tree, probe_nodes)]
        for idx, name in enumerate(names):
            for k in range(1, n + 2):
                tree, nodes = gen.build(spec)
                _nm, ro, thunk = _ops_with_callbacks(tree, nodes)[idx]
                cb = raising(k)
                before = view.obs(tree)
                wit = {"kind": "cb", "spec": mut._spec_json(spec), "op": name, "k": k}
                try:
                    thunk(cb)
                    raised = False
                except Boom:
                    raised = True
                except Exception as e:  # noqa: BLE001
                    res.violations.append(Violation(prop, "ensures only the callback's own exception escapes", name.split("@")[0], wit, clip(f"{type(e).__name__}: {e}")))
                    raised = True
                res.add_case(f"{spec.short()} {name} k={k}", nontrivial=raised)
                bad = view.wf_violations(tree)
                for v in bad[:2]:
                    res.violations.append(Violation(prop, "ensures wf(T) after a callback raised (C01-C03)", name.split("@")[0], wit, clip(v)))
                if ro and view.obs(tree) != before:
                    res.violations.append(Violation(prop, "ensures a read-only operation leaves the tree unchanged when its callback raises", name.split("@")[0], wit, clip(view.fmt(tree))))
        # calc_data_id raising: add / set_data / lookups on a tree with an id callback
        for k in range(1, 4):
            for opname in ("add", "set_data", "in", "find_all", "getitem"):
                from nutree import Tree

                calls = {"n": 0}

                def hook(tree_, data, k=k):
                    calls["n"] += 1
                    if armed["on"] and calls["n"] == k:
                        raise Boom("calc_data_id")
                    return hash(data)

                armed = {"on": False}
                t = Tree("T", calc_data_id=hook)
                nds = []
                for p, lab, did, _k in spec.nodes:
                    par = t if p == -1 else nds[p]
                    nds.append(par.add(lab) if did is None else par.add(lab, data_id=did))
                calls["n"] = 0
                armed["on"] = True
                before = view.obs(t)
                wit = {"kind": "hook", "spec": mut._spec_json(spec), "op": opname, "k": k}
                try:
                    if opname == "add":
                        (nds[0] if nds else t).add("n")
                    elif opname == "set_data" and nds:
                        nds[0].set_data("n", with_clones=False)
                    elif opname == "in":
                        "a" in t  # noqa: B015
                    elif opname == "find_all":
                        t.find_all("a")
                    elif opname == "getitem":
                        try:
                            t["a"]
                        except (KeyError, LookupError, RuntimeError):
                            pass
                    raised = False
                except Boom:
                    raised = True
                except Exception as e:  # noqa: BLE001
                    res.violations.append(Violation(prop, "ensures only the callback's own exception escapes", "calc_data_id@" + opname, wit, clip(f"{type(e).__name__}: {e}")))
                    raised = True
                armed["on"] = False
                res.add_case(f"{spec.short()} hook {opname} k={k}", nontrivial=raised)
                for v in view.wf_violations(t)[:2]:
                    res.violations.append(Violation(prop, "ensures wf(T) after calc_data_id raised (C01-C03)", "calc_data_id@" + opname, wit, clip(v)))
                if raised and view.obs(t) != before:
                    res.violations.append(Violation(prop, "ensures the tree is unchanged when calc_data_id raises", "calc_data_id@" + opname, wit, clip(view.fmt(t))))
        # a user node factory refusing the k-th node while a branch / a whole tree is copied in: what was built so far must be
        # a well-formed part of the target (registered *and* attached, or neither), the source untouched
        if len(spec.nodes) >= 2:
            from nutree import Tree
            from nutree.node import Node

            for k in range(1, len(spec.nodes) + 1):
                for opname in ("add(node, deep)", "copy_to(deep)", "add(tree)", "Tree.copy_to"):
                    made = {"n": 0, "armed": False}

                    class CheckedNode(Node):
                        def __init__(self, data, *, parent, data_id=None, node_id=None, meta=None, _m=made, _k=k):
                            if _m["armed"]:
                                _m["n"] += 1
                                if _m["n"] == _k:
                                    raise Boom(f"node factory refuses node #{_k}")
                            super().__init__(data, parent=parent, data_id=data_id, node_id=node_id, meta=meta)

                    src, snodes = gen.build(spec)
                    tgt = Tree("target", factory=CheckedNode)
                    anchor = tgt.add("anchor_of_target")
                    src_before = view.obs(src)
                    made["armed"] = True
                    wit = {"kind": "factory", "spec": mut._spec_json(spec), "op": opname, "k": k}
                    try:
                        if opname == "add(node, deep)":
                            anchor.add(snodes[0], deep=True)
                        elif opname == "copy_to(deep)":
                            snodes[0].copy_to(anchor, deep=True)
                        elif opname == "add(tree)":
                            anchor.add(src)
                        else:
                            src.copy_to(tgt)
                        raised = False
                    except Boom:
                        raised = True
                    except Exception as e:  # noqa: BLE001
                        res.violations.append(Violation(prop, "ensures only the callback's own exception escapes", "node factory@" + opname, wit, clip(f"{type(e).__name__}: {e}")))
                        raised = True
                    made["armed"] = False
                    res.add_case(f"{spec.short()} factory {opname} k={k}", nontrivial=raised)
                    for v in view.wf_violations(tgt)[:2]:
                        res.violations.append(Violation(prop, "ensures wf(T) after the node factory raised (C01-C03)", "node factory@" + opname, wit, clip(v)))
                    if view.obs(src) != src_before:
                        res.violations.append(Violation(prop, "ensures the source of a copy is unchanged when the node factory raises", "node factory@" + opname, wit, clip(view.fmt(src))))
    return res


CL_BADKIND = "ensures an add refused for its kind (ANY_KIND / not a str) leaves the typed tree unchanged and well-formed (wf(T): indexes incl.)"


def _badkind_chunk(chunk, prop):
    """Typed trees: add / prepend / append / sibling-insert with a kind the constructor refuses -- nothing may stay behind
    (a node registered in the indexes but attached nowhere)."""
    from nutree.typed_tree import ANY_KIND

    res = Result(prop)
    for spec in chunk:
        for i in range(-1, len(spec.nodes)):
            for bad_name, bad in (("ANY_KIND", ANY_KIND), ("int", 123), ("None", None)):
                for opname in ("add", "add(known data)", "prepend_child", "append_sibling"):
                    if opname == "append_sibling" and i == -1:
                        continue
                    tree, nodes = gen.build(spec)
                    tgt = tree if i == -1 else nodes[i]
                    before = view.obs(tree)
                    wit = {"kind": "badkind", "spec": mut._spec_json(spec), "op": opname, "k": bad_name, "node": i}
                    try:
                        if opname == "add":
                            tgt.add("fresh", kind=bad)
                        elif opname == "add(known data)":
                            tgt.add("a", kind=bad)
                        elif opname == "prepend_child":
                            tgt.prepend_child("fresh", kind=bad)
                        else:
                            tgt.append_sibling("fresh", kind=bad)
                        raised = False
                    except Exception:  # noqa: BLE001
                        raised = True
                    res.add_case(f"{spec.short()} badkind {opname} {bad_name} @{i}", nontrivial=True)
                    if not raised:
                        if bad is None:
                            continue  # kind=None may be accepted as 'default kind' by the shortcuts: then it is an ordinary add
                        res.violations.append(Violation(prop, CL_BADKIND, "TypedNode.add_child", wit, f"{opname}(kind={bad_name}) was accepted"))
                        continue
                    try:
                        wfv = view.wf_violations(tree)[:2]
                    except Exception as e:  # noqa: BLE001  (e.g. the repr of a half-built node that stayed in an index)
                        wfv = [f"the well-formedness scan itself failed on what the tree holds now: {type(e).__name__}: {e}"]
                    for v in wfv:
                        res.violations.append(Violation(prop, CL_BADKIND, "TypedNode.add_child", wit, clip(f"after the refused {opname}(kind={bad_name}): {v}")))
                    if view.obs(tree) != before:
                        res.violations.append(Violation(prop, CL_BADKIND, "TypedNode.add_child", wit, clip(f"after the refused {opname}(kind={bad_name}) the tree changed: {view.fmt(tree)}")))
    return res


def badkind(prop, tier):
    r = parallel(_badkind_chunk, list(gen.typed_specs(2 if tier == "quick" else 3, min_n=0)), prop, prop=prop)
    r.bounds["typed adds refused for their kind"] = f"typed trees with <= {2 if tier == 'quick' else 3} nodes x every target x add / add(known data) / prepend_child / append_sibling x kind in {{ANY_KIND, 123, None}}"
    return r


CL_RO_DEEP = "ensures a read-only operation leaves the tree unchanged (structure, ids, meta and the contents of the data objects)"


def _deep(tree):
    from .c05 import datakey

    return view.obs(tree), tuple(datakey(n._data) for n in view.reachable(tree)), tuple(repr(n._meta) for n in view.reachable(tree))


def _ro_chunk(chunk, prop):
    """Read-only operations that succeed, on trees of *mutable* data objects with the library's / the user's mappers under
    every storage option: the source must be unchanged down to the contents of its data objects."""
    import tempfile

    from . import c05

    res = Result(prop)
    with tempfile.TemporaryDirectory(prefix="verif_c13_") as tmpdir:
        for famname, spec in chunk:
            fam = c05.FAMILIES[famname]
            labels = tuple(r[1] for r in spec.nodes) or ("a",)
            tree, _nodes = c05.build(fam, spec)
            before = _deep(tree)
            mapper_kw = {"mapper": fam.save_mapper} if fam.save_mapper is not None else {}
            thunks = [(f"{type(tree).__name__}.save({'/'.join(map(str, o))})", (lambda o=o: c05.save_load(fam, tree, labels, o, tmpdir))) for o in c05.combos(fam, "pair")]
            thunks += [
                ("Tree.to_dict_list(mapper)", lambda: tree.to_dict_list(**mapper_kw)), ("Tree.to_dot()", lambda: list(tree.to_dot())), ("Tree.format()", lambda: tree.format()),
                ("Tree.copy()", lambda: tree.copy()), ("Tree.find_all(match)", lambda: tree.find_all(match=".*")), ("Tree.visit()", lambda: tree.visit(lambda n, memo: None)),
                ("Tree.to_mermaid_flowchart()", lambda: tree.to_mermaid_flowchart(io.StringIO())), ("iter(tree)", lambda: list(tree)),
            ]
            for name, th in thunks:
                wit = {"kind": "ro", "family": famname, "spec": mut._spec_json(spec), "op": name}
                try:
                    th()
                except Exception:  # noqa: BLE001  (a failing save is C05's business)
                    pass
                res.add_case(f"{famname} {spec.short()} {name}", nontrivial=len(spec) > 0)
                now = _deep(tree)
                if now != before:
                    what = "structure / ids" if now[0] != before[0] else ("data object contents: " + repr(now[1]) + " before: " + repr(before[1]) if now[1] != before[1] else "meta")
                    res.violations.append(Violation(prop, CL_RO_DEEP, name.split("(")[0], wit, clip(f"[{famname}] {spec.short()} after {name}: changed {what}")))
                    tree, _nodes = c05.build(fam, spec)
                    before = _deep(tree)
    return res


def run(prop, tier, only=None):
    total = mut.sweep(prop, tier)
    ro = [(f, s) for f in ("dw", "derivedtyped", "rec", "fs", "typed") for s in gen.plain_specs(2 if tier == "quick" else 3, min_n=1)]
    ro = [(f, (s if not __import__("native.props.c05", fromlist=["x"]).FAMILIES[f].typed else gen.Spec(tuple((p, lab, d, ("k1", "k2")[i % 2]) for i, (p, lab, d, _k) in enumerate(s.nodes)), typed=True))) for f, s in ro]
    total.merge(parallel(_ro_chunk, ro, prop, prop=prop))
    total.bounds["read-only operations leave the tree unchanged, deep"] = (
        f"trees with 1..{2 if tier == 'quick' else 3} nodes of DictWrapper / entity / frozen-record / FileSystemEntry / string data (families dw, derivedtyped, rec, fs, typed of native/props/c05.py) x "
        "save under a pairwise-covering set of key_map x value_map x compression x target x meta, to_dict_list(mapper), to_dot, to_mermaid_flowchart, format, copy, find_all, visit, iteration; "
        "compared: view.obs + field-wise contents of every data object + meta"
    )
    n = 3 if tier == "quick" else 4
    specs = list(gen.plain_specs(n, min_n=1))
    total.merge(parallel(_cb_chunk, specs, prop, prop=prop))
    total.merge(badkind(prop, tier))
    total.bounds["callback raises at its k-th invocation"] = f"all plain forests with 1..{n} nodes x every operation taking a callback x every k in 1..n+1; calc_data_id raising at k in 1..3; a node factory of the target tree refusing the k-th node (every k) while a branch / the whole tree is copied in (add(node, deep), copy_to(deep), add(tree), Tree.copy_to)"
    return total


def replay(witness, prop):
    k = witness.get("kind")
    if k in ("op", "history"):
        return mut.replay(witness, prop)
    spec = mut.spec_from_json(witness["spec"])
    if k == "badkind":
        r = _badkind_chunk([spec], prop)
        return [(v.clause, v.text) for v in r.violations if all(v.witness.get(q) == witness.get(q) for q in ("op", "k", "node"))]
    if k == "ro":
        r = _ro_chunk([(witness["family"], spec)], prop)
        return [(v.clause, v.text) for v in r.violations if v.witness.get("op") == witness.get("op")]
    r = _cb_chunk([spec], prop)
    return [(v.clause, v.text) for v in r.violations if v.witness.get("op") == witness.get("op") and v.witness.get("k") == witness.get("k") and v.witness.get("kind") == witness.get("kind")]
