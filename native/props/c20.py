"""C20 -- build_random_tree produces a tree that conforms to its structure definition.

Bounded stand-in: structure definitions are generated *as plain data* (JSON-able descriptors,
which are also the replay witness), turned into real definitions with real Randomizer objects,
and built by the real `Tree.build_random_tree` / `TypedTree.build_random_tree` /
`tree_generator.build_random_tree` for many `random.seed(s)`.  The oracle walks the result by
raw slots and interprets the *descriptor* (never the library's Randomizer fields, never
`_merge_specs`):

  * result is an instance of the requested class (named as requested);
  * every node's type (attribute "t" written by the relation spec; `node.kind` for typed trees)
    is one its parent's type may have according to `relations`;
  * per parent and relation: number of children == fixed count, or in [min, max) of the count
    randomizer (0 / none_value if the count randomizer was skipped by probability);
  * attributes == merge of "*" defaults, type defaults, relation spec (later wins), without the
    ":count" / ":callback" / ":factory" keys; "{idx}" -> 1-based index of the node among the
    siblings created by that relation, "{hier_idx}" -> dotted path of these indexes;
  * randomized values lie in their declared ranges (int: [min,max), float: [min,max], dates:
    [min,max], JS stamps: a date in [min,max], sample values from the list (count > 0)),
    attributes skipped by probability are absent (probability 0.0: always absent / none_value,
    1.0: always present);
  * typed trees carry the type name as kind; default factory is DictWrapper, ":factory"
    and ":callback" are honoured; the caller's definition is not modified;
  * invalid definitions (no "relations", no "__root__", extra keys) raise AssertionError/KeyError.
"""
from __future__ import annotations

import functools
import hashlib
import json
import random
import signal
import traceback
from datetime import date, datetime, timedelta, timezone

from ..harness import Result, Violation, clip, parallel, seed
from .. import view

FUNC = "build_random_tree"
TYPES = ("ta", "tb", "tc", "td")
COLON = (":count", ":callback", ":factory")

C_CLASS = "ensures result is an instance of the requested tree class (and carries the requested name)"
C_TYPE = "ensures each node's type is one its parent's type may have according to relations"
C_COUNT = "ensures number of children per relation == fixed count or within the count randomizer's range"
C_ATTRS = "ensures node attributes == merge(global defaults, type defaults, relation spec) with {idx}/{hier_idx} expanded"
C_RANGE = "ensures randomized attribute values lie in their declared ranges"
C_PROB = "ensures attributes skipped by probability are absent (0.0: never present, 1.0: always present)"
C_KIND = "ensures typed trees carry the type name as node kind"
C_COLON = "ensures ':count' / ':callback' / ':factory' never appear as attributes"
C_FACTORY = "ensures node.data is built by the ':factory' class (default DictWrapper) / ':callback' sees the resolved data"
C_FRAME = "ensures the caller's structure definition is unchanged"
C_NOEXC = "raises nothing for a valid structure definition (and terminates)"
C_ARGS = "raises AssertionError/KeyError for a definition without relations / '__root__' or with extra keys"


# ------------------------------------------------------------------ factories / callbacks (by name)
class Rec:
    """Custom node data class for ':factory'."""

    def __init__(self, **kw):
        self.kw = kw

    def __repr__(self):
        return f"Rec<{self.kw}>"


def cb_mark(data: dict):
    """':callback': records which keys it saw (so the oracle knows it ran on resolved data)."""
    data["cb"] = ",".join(sorted(data))


def cb_drop(data: dict):
    data.pop("dropme", None)
    data["cb"] = ",".join(sorted(data))


CALLBACKS = {"cb_mark": cb_mark, "cb_drop": cb_drop}


def _factories():
    from nutree.common import DictWrapper

    return {"DictWrapper": DictWrapper, "Rec": Rec}


# ------------------------------------------------------------------ descriptors -> real definition
def _d(s: str) -> date:
    return date.fromisoformat(s)


def realise_value(v):
    """Descriptor value -> value for the real structure definition."""
    from nutree import tree_generator as tg

    if isinstance(v, dict) and "$r" in v:
        k = v["$r"]
        if k == "range":
            kw = {"probability": v["p"]}
            if v.get("none") is not None:
                kw["none_value"] = v["none"]
            return tg.RangeRandomizer(v["min"], v["max"], **kw)
        if k == "date":
            mx = v["max"] if isinstance(v["max"], int) else _d(v["max"])
            return tg.DateRangeRandomizer(_d(v["min"]), mx, as_js_stamp=v["js"], probability=v["p"])
        if k == "value":
            return tg.ValueRandomizer(v["value"], probability=v["p"])
        if k == "sparse":
            return tg.SparseBoolRandomizer(probability=v["p"])
        if k == "sample":
            kw = {"probability": v["p"]}
            if v.get("counts") is not None:
                kw["counts"] = list(v["counts"])
            return tg.SampleRandomizer(list(v["list"]), **kw)
        raise ValueError(k)
    return v


def realise_spec(spec: dict) -> dict:
    out = {}
    for k, v in spec.items():
        if k == ":factory":
            out[k] = _factories()[v]
        elif k == ":callback":
            out[k] = CALLBACKS[v]
        else:
            out[k] = realise_value(v)
    return out


def realise(desc: dict) -> dict:
    out = {}
    if "name" in desc:
        out["name"] = desc["name"]
    if "types" in desc:
        out["types"] = {t: realise_spec(s) for t, s in desc["types"].items()}
    if "relations" in desc:
        out["relations"] = {p: {t: realise_spec(s) for t, s in rel.items()} for p, rel in desc["relations"].items()}
    for k, v in desc.items():
        if k not in ("name", "types", "relations"):
            out[k] = v
    return out


def _snapshot(real) -> str:
    """Structure of the real definition with objects by identity (frame check)."""
    def r(x):
        if isinstance(x, dict):
            return "{" + ",".join(f"{k!r}:{r(v)}" for k, v in x.items()) + "}"
        if isinstance(x, (str, int, float, bool)) or x is None:
            return repr(x)
        return f"<{type(x).__name__}@{id(x)}:{sorted((k, repr(v)) for k, v in vars(x).items()) if hasattr(x, '__dict__') else ''}>"

    return r(real)


# ------------------------------------------------------------------ definition generator
def _rand_value(rng: random.Random):
    """A randomizer descriptor of a random class/parameterisation."""
    p = rng.choice([1.0, 1.0, 0.5, 0.0, 0.25])
    k = rng.choice(["range_i", "range_f", "date", "value", "sparse", "sample", "sample_c"])
    if k == "range_i":
        lo = rng.choice([-3, 0, 1, 10])
        return {"$r": "range", "min": lo, "max": lo + rng.choice([1, 2, 5]), "p": p, "none": rng.choice([None, None, -99, 0])}
    if k == "range_f":
        lo = rng.choice([-1.5, 0.0, 2.25])
        return {"$r": "range", "min": lo, "max": lo + rng.choice([0.5, 1.0, 10.0]), "p": p, "none": rng.choice([None, None, -1.0])}
    if k == "date":
        mn = rng.choice(["2020-01-01", "2019-12-30", "2024-02-28", "1999-12-31"])
        mx = rng.choice([1, 2, 30, 366]) if rng.random() < 0.5 else (_d(mn) + timedelta(days=rng.choice([1, 3, 60]))).isoformat()
        return {"$r": "date", "min": mn, "max": mx, "js": rng.random() < 0.5, "p": p}
    if k == "value":
        return {"$r": "value", "value": rng.choice([0, False, "", "v", "v{idx}", 7, 2.5, True]), "p": p}
    if k == "sparse":
        return {"$r": "sparse", "p": p}
    lst = rng.choice([["x", "y", "z"], [0, 1, 2], [False, True], ["s{idx}", "t{hier_idx}"], [1.5, "m", 0]])
    if k == "sample":
        return {"$r": "sample", "list": lst, "counts": None, "p": p}
    counts = [rng.choice([0, 1, 3]) for _ in lst]
    if not any(counts):
        counts[rng.randrange(len(counts))] = 2
    return {"$r": "sample", "list": lst, "counts": counts, "p": p}


def _literal(rng: random.Random):
    # (a literal None is a value like any other: only a *randomizer* answering None means "skip this attribute")
    return rng.choice(["lit", "n{idx}", "p{hier_idx}/{idx}", 42, 0, True, False, 1.25, "", "{idx}{idx}", None, "S{idx:03}", "{idx!r}|{hier_idx:>7}"])


def _attrs(rng: random.Random, names, n):
    out = {}
    for nm in rng.sample(names, min(n, len(names))):
        out[nm] = _rand_value(rng) if rng.random() < 0.6 else _literal(rng)
    return out


ATTR_NAMES = ("a1", "a2", "a3", "a4", "a5", "dropme")


def _count_desc(rng: random.Random, deep: bool):
    r = rng.random()
    hi = 3 if deep else 4
    if r < 0.45:
        return rng.choice([0, 1, 1, 2, 2, 3][: hi + 2])
    if r < 0.85:
        lo = rng.choice([0, 1, 2])
        return {"$r": "range", "min": lo, "max": lo + rng.choice([1, 2]), "p": 1.0, "none": None}
    lo = rng.choice([1, 2])
    return {"$r": "range", "min": lo, "max": lo + 2, "p": rng.choice([0.5, 0.0]), "none": rng.choice([None, None, 1])}


def gen_def(rng: random.Random, idx: int) -> dict:
    k = rng.randint(1, 4)
    types = list(TYPES[:k])
    desc: dict = {}
    if rng.random() < 0.7:
        desc["name"] = f"def{idx}"
    rel: dict = {"__root__": {}}
    roots = rng.sample(types, rng.randint(1, min(2, k)))
    edges = [("__root__", t) for t in sorted(roots, key=types.index)]
    for i, t in enumerate(types):
        for u in types[i + 1:]:
            if rng.random() < 0.55:
                edges.append((t, u))
    recursive = None
    if rng.random() < 0.2:
        recursive = rng.choice(types)
        edges.append((recursive, recursive))
    tdefs: dict = {}
    if rng.random() < 0.8:
        star = _attrs(rng, ATTR_NAMES, rng.randint(0, 3))
        if rng.random() < 0.3:
            star[":factory"] = rng.choice(["DictWrapper", "Rec"])
        if rng.random() < 0.2:
            star[":callback"] = "cb_mark"
        if rng.random() < 0.3:
            star["i"] = "#{idx}"
        if rng.random() < 0.15:
            star[":count"] = 2
        tdefs["*"] = star
        for t in types:
            if rng.random() < 0.7:
                td = _attrs(rng, ATTR_NAMES, rng.randint(0, 3))
                if rng.random() < 0.25:
                    td[":factory"] = rng.choice(["DictWrapper", "Rec"])
                if rng.random() < 0.2:
                    td[":callback"] = rng.choice(["cb_mark", "cb_drop"])
                if rng.random() < 0.3:
                    td["i"] = "t{idx}"
                if rng.random() < 0.15:
                    td[":count"] = rng.choice([1, 2])
                tdefs[t] = td
        desc["types"] = tdefs
    for p, t in edges:
        spec = {"t": t, "h": "{hier_idx}"}
        spec.update(_attrs(rng, ATTR_NAMES, rng.randint(0, 3)))
        if rng.random() < 0.3:
            spec["i"] = "r{idx}"
        if rng.random() < 0.15:
            spec[":factory"] = rng.choice(["DictWrapper", "Rec"])
        if rng.random() < 0.15:
            spec[":callback"] = rng.choice(["cb_mark", "cb_drop"])
        if rng.random() < 0.15:  # attributes named like the macros
            spec["idx"] = rng.choice(["{idx}", "#{hier_idx}", 5])
        if rng.random() < 0.15:
            spec["hier_idx"] = rng.choice(["{hier_idx}", "{idx}"])
        has_default_count = ":count" in tdefs.get(t, {}) or ":count" in tdefs.get("*", {})
        if p == t:  # self-recursive relation: sub-critical count (mean 0.5) so that the tree is finite
            spec[":count"] = {"$r": "range", "min": 0, "max": 2, "p": 1.0, "none": None}
        elif not (has_default_count and rng.random() < 0.6):
            spec[":count"] = _count_desc(rng, deep=p != "__root__")
        rel.setdefault(p, {})[t] = spec
    for t in types:  # some leaf types get an explicit empty relation entry
        if t not in rel and rng.random() < 0.3:
            rel[t] = {}
    desc["relations"] = rel
    return desc


def handmade_defs():
    """The documented example (without fabulist) and corner definitions."""
    out = []
    out.append({  # docs/sphinx/ug_randomize.rst example, text randomizers replaced by macros/samples
        "name": "fmea",
        "types": {"*": {":factory": "DictWrapper"}, "function": {"icon": "gear"}, "failure": {"icon": "exclamation"},
                  "cause": {"icon": "tools"}, "effect": {"icon": "lightning"}},
        "relations": {
            "__root__": {"function": {":count": 3, "t": "function", "h": "{hier_idx}", "title": "{idx}: Provide", "expanded": True}},
            "function": {"failure": {":count": {"$r": "range", "min": 1, "max": 3, "p": 1.0, "none": None}, "t": "failure", "h": "{hier_idx}", "title": "not provided"}},
            "failure": {"cause": {":count": {"$r": "range", "min": 1, "max": 3, "p": 1.0, "none": None}, "t": "cause", "h": "{hier_idx}"},
                        "effect": {":count": {"$r": "range", "min": 1, "max": 3, "p": 1.0, "none": None}, "t": "effect", "h": "{hier_idx}"}},
        },
    })
    out.append({"relations": {"__root__": {}}})  # valid, empty
    out.append({"relations": {"__root__": {"ta": {":count": 0, "t": "ta", "h": "{hier_idx}"}}}})  # count 0
    # attributes that are *named* like the macros (the obvious way to store the index) and like one another's templates
    out.append({"name": "macro-named", "types": {"*": {"idx": "{idx}", "prefix": "P"}, "tb": {"hier_idx": "{hier_idx}", "idx": 7}},
                "relations": {"__root__": {"ta": {":count": 3, "t": "ta", "h": "{hier_idx}", "hier_idx": "{hier_idx}", "label": "#{idx}", "title": "Shelf {hier_idx}", "code": "S{idx:03}/{idx:>3}/{idx!r}"}},
                              "ta": {"tb": {":count": 2, "t": "tb", "h": "{hier_idx}", "label": "{idx}/{hier_idx}", "idx": {"$r": "range", "min": 100, "max": 200, "p": 1.0, "none": None}}}}})
    out.append({"name": "probs", "relations": {"__root__": {"ta": {  # every randomizer at probability 0.0 / 1.0 / 0.5
        ":count": 4, "t": "ta", "h": "{hier_idx}", "i": "{idx}",
        "r0": {"$r": "range", "min": 1, "max": 3, "p": 0.0, "none": None}, "r1": {"$r": "range", "min": 1, "max": 2, "p": 1.0, "none": None},
        "rn": {"$r": "range", "min": 5, "max": 9, "p": 0.0, "none": -1}, "rh": {"$r": "range", "min": 5, "max": 9, "p": 0.5, "none": 0},
        "f1": {"$r": "range", "min": 0.0, "max": 1.0, "p": 1.0, "none": None}, "f5": {"$r": "range", "min": -2.0, "max": -1.0, "p": 0.5, "none": None},
        "d0": {"$r": "date", "min": "2020-01-01", "max": 3, "js": True, "p": 0.0}, "d1": {"$r": "date", "min": "2020-01-01", "max": 1, "js": True, "p": 1.0},
        "d2": {"$r": "date", "min": "2020-02-28", "max": "2020-03-02", "js": False, "p": 1.0}, "d5": {"$r": "date", "min": "1999-12-31", "max": 2, "js": False, "p": 0.5},
        "v0": {"$r": "value", "value": "never", "p": 0.0}, "v1": {"$r": "value", "value": 0, "p": 1.0}, "v5": {"$r": "value", "value": False, "p": 0.5},
        "b0": {"$r": "sparse", "p": 0.0}, "b1": {"$r": "sparse", "p": 1.0}, "b5": {"$r": "sparse", "p": 0.5},
        "s0": {"$r": "sample", "list": [1, 2], "counts": None, "p": 0.0}, "s1": {"$r": "sample", "list": [0, False, ""], "counts": None, "p": 1.0},
        "sc": {"$r": "sample", "list": ["a", "b", "c"], "counts": [0, 2, 0], "p": 1.0}, "sm": {"$r": "sample", "list": ["k{idx}", "l{hier_idx}"], "counts": [1, 1], "p": 0.5},
    }}}})
    out.append({  # override chain: the same attribute at all three levels, randomizer <-> literal
        "types": {"*": {"a": "star{idx}", "b": {"$r": "range", "min": 0, "max": 5, "p": 1.0, "none": None}, "c": 1, ":count": 2, ":callback": "cb_mark"},
                  "ta": {"a": "type{idx}", "c": {"$r": "value", "value": "tv", "p": 0.5}, ":factory": "Rec"},
                  "tb": {"b": "lit-b", ":count": {"$r": "range", "min": 1, "max": 4, "p": 1.0, "none": None}}},
        "relations": {"__root__": {"ta": {"t": "ta", "h": "{hier_idx}", "a": "rel{hier_idx}"}, "tb": {"t": "tb", "h": "{hier_idx}"}},
                      "ta": {"tb": {"t": "tb", "h": "{hier_idx}", "c": {"$r": "sparse", "p": 0.5}, ":count": 1, ":factory": "DictWrapper", ":callback": "cb_drop", "dropme": 1}},
                      "tb": {}},
    })
    out.append({  # shared child type below two parents with different specs + self recursion
        "name": "dag",
        "relations": {"__root__": {"ta": {":count": 2, "t": "ta", "h": "{hier_idx}"}, "tb": {":count": 1, "t": "tb", "h": "{hier_idx}"}},
                      "ta": {"tc": {":count": {"$r": "range", "min": 0, "max": 3, "p": 1.0, "none": None}, "t": "tc", "h": "{hier_idx}", "via": "ta"},
                             "ta": {":count": {"$r": "range", "min": 0, "max": 2, "p": 1.0, "none": None}, "t": "ta", "h": "{hier_idx}"}},
                      "tb": {"tc": {":count": 2, "t": "tc", "h": "{hier_idx}", "via": "tb{idx}"}}},
    })
    return out


BAD_DEFS = (
    ("no relations", {}),
    ("no relations (only name/types)", {"name": "x", "types": {}}),
    ("no __root__", {"relations": {}}),
    ("no __root__ (other relation only)", {"relations": {"ta": {"tb": {":count": 1}}}}),
    ("extra key", {"relations": {"__root__": {}}, "extra": 1}),
    ("extra key (typo of types)", {"relations": {"__root__": {"ta": {":count": 1}}}, "type": {}}),
)


# ------------------------------------------------------------------ oracle
def _expand(s: str, idx: int, hier: str) -> str:
    return s.format(idx=idx, hier_idx=hier)  # str.format semantics: `idx` is the int index (format specs / conversions apply to an int), `hier_idx` the dotted str


def _merged(desc: dict, ntype: str, rel_spec: dict) -> dict:
    types = desc.get("types", {})
    out = dict(types.get("*", {}))
    out.update(types.get(ntype, {}))
    out.update(rel_spec)
    return out


def _same(a, b) -> bool:
    return type(a) is type(b) and a == b


def _check_value(key, dv, got: dict, idx: int, hier: str, out: list):
    """Check attribute `key` of one node against its descriptor value."""
    present = key in got
    v = got.get(key)
    if not (isinstance(dv, dict) and "$r" in dv):  # literal
        exp = _expand(dv, idx, hier) if isinstance(dv, str) else dv
        if not present or not _same(v, exp):
            out.append((C_ATTRS, f"{hier}: attribute {key!r} is {(repr(v) if present else '<absent>')}; required {exp!r}"))
        return
    k, p = dv["$r"], dv["p"]
    none = dv.get("none")
    if not present:
        if p == 1.0:
            out.append((C_PROB, f"{hier}: attribute {key!r} ({k}, probability 1.0) is absent"))
        elif k == "range" and none is not None:
            out.append((C_PROB, f"{hier}: attribute {key!r} (range with none_value={none!r}) is absent; a skipped value must be the none_value"))
        return
    if k == "range":
        if p < 1.0 and none is not None and _same(v, none):
            return
        if p == 0.0:
            out.append((C_PROB, f"{hier}: attribute {key!r} (range, probability 0.0) is present with {v!r}"))
            return
        lo, hi = dv["min"], dv["max"]
        ok = (type(v) is float and lo <= v <= hi) if isinstance(lo, float) else (type(v) is int and lo <= v < hi)
        if not ok:
            out.append((C_RANGE, f"{hier}: attribute {key!r} = {v!r} outside {'[' + str(lo) + ', ' + str(hi) + (']' if isinstance(lo, float) else ')')}"))
        return
    if p == 0.0:
        out.append((C_PROB, f"{hier}: attribute {key!r} ({k}, probability 0.0) is present with {v!r}"))
        return
    if k == "date":
        mn = _d(dv["min"])
        mx = mn + timedelta(days=dv["max"]) if isinstance(dv["max"], int) else _d(dv["max"])
        if dv["js"]:
            if type(v) is not float:
                out.append((C_RANGE, f"{hier}: attribute {key!r} = {v!r} is not a JS time stamp (float)"))
                return
            dt = datetime.fromtimestamp(v / 1000.0, tz=timezone.utc).date()
        else:
            if type(v) is not date:
                out.append((C_RANGE, f"{hier}: attribute {key!r} = {v!r} is not a date"))
                return
            dt = v
        if not (mn <= dt <= mx):
            out.append((C_RANGE, f"{hier}: attribute {key!r} = {v!r} (date {dt}) outside [{mn}, {mx}]"))
    elif k == "value":
        exp = _expand(dv["value"], idx, hier) if isinstance(dv["value"], str) else dv["value"]
        if not _same(v, exp):
            out.append((C_RANGE, f"{hier}: attribute {key!r} = {v!r}; the ValueRandomizer holds {exp!r}"))
    elif k == "sparse":
        if v is not True:
            out.append((C_RANGE, f"{hier}: attribute {key!r} = {v!r}; a SparseBoolRandomizer yields True or nothing"))
    elif k == "sample":
        counts = dv.get("counts") or [1] * len(dv["list"])
        allowed = [(_expand(x, idx, hier) if isinstance(x, str) else x) for x, c in zip(dv["list"], counts) if c > 0]
        if not any(_same(v, a) for a in allowed):
            out.append((C_RANGE, f"{hier}: attribute {key!r} = {v!r} not among the selectable sample values {allowed!r}"))


def _count_ok(cd, n: int) -> bool:
    if isinstance(cd, dict):
        if cd["p"] < 1.0 and n == (cd.get("none") or 0):
            return True
        if cd["p"] == 0.0:
            return False
        return cd["min"] <= n < cd["max"]
    return n == cd


def check_tree(tree, desc: dict, cls, typed: bool, max_report=6):
    from nutree.common import DictWrapper

    out: list = []
    rel = desc["relations"]
    if type(tree) is not cls:
        out.append((C_CLASS, f"result is a {type(tree).__name__}; requested {cls.__name__}"))
    if "name" in desc and tree.name != desc["name"]:
        out.append((C_CLASS, f"tree is named {tree.name!r}; the definition says {desc['name']!r}"))
    n_nodes = 0

    def attrs_of(node, ntype_spec):
        d = node._data
        fac = ntype_spec.get(":factory", "DictWrapper")
        if fac == "Rec":
            if type(d) is not Rec:
                out.append((C_FACTORY, f"node data is {type(d).__name__}; ':factory' is Rec"))
                return None
            return d.kw
        if type(d) is not DictWrapper:
            out.append((C_FACTORY, f"node data is {type(d).__name__}; the (default) factory is DictWrapper"))
            return None
        return d._dict

    def walk(parent, ptype, phier):
        nonlocal n_nodes
        allowed = rel.get(ptype)
        kids_ = view.kids(parent)
        if allowed is None:
            if kids_:
                out.append((C_TYPE, f"{phier or '<root>'} ({ptype}) has {len(kids_)} children but no relations entry"))
            return
        groups: dict = {t: [] for t in allowed}
        for c in kids_:
            n_nodes += 1
            d = c._data
            raw = d.kw if type(d) is Rec else getattr(d, "_dict", None)
            kind = getattr(c, "_kind", None) if typed else None
            t_attr = raw.get("t") if isinstance(raw, dict) else None
            ctype = kind if typed else t_attr
            if typed and t_attr != kind:
                out.append((C_KIND, f"node below {phier or '<root>'} has kind {kind!r} but was created by the relation for type {t_attr!r}"))
            if ctype not in allowed:
                out.append((C_TYPE, f"child of type {ctype!r} below {phier or '<root>'} ({ptype}); relations allow {list(allowed)}"))
                continue
            groups[ctype].append(c)
        for ctype, members in groups.items():
            spec = _merged(desc, ctype, allowed[ctype])
            cd = spec.get(":count", 1)
            if not _count_ok(cd, len(members)):
                out.append((C_COUNT, f"{phier or '<root>'} ({ptype}) has {len(members)} children of type {ctype}; ':count' is {cd}"))
            for k, c in enumerate(members, 1):
                hier = f"{phier}.{k}" if phier else f"{k}"
                got = attrs_of(c, spec)
                if got is not None:
                    bad_colon = [x for x in got if isinstance(x, str) and x.startswith(":")]
                    if bad_colon:
                        out.append((C_COLON, f"{hier}: attributes contain {bad_colon}"))
                    cbname = spec.get(":callback")
                    exp_keys = {x for x in spec if x not in COLON}
                    check = dict(got)
                    if cbname:
                        seen = check.pop("cb", None)
                        want = ",".join(sorted(check))
                        if cbname == "cb_drop":
                            exp_keys.discard("dropme")
                            if "dropme" in check:
                                out.append((C_FACTORY, f"{hier}: ':callback' cb_drop removed 'dropme' from the data but the node still has it"))
                        # the callback recorded the keys it saw: the resolved attributes, no ':' keys
                        if seen != want:
                            out.append((C_FACTORY, f"{hier}: ':callback' {cbname} recorded {seen!r}; the node's attributes are {want!r}"))
                    extra = [x for x in check if x not in exp_keys and not (isinstance(x, str) and x.startswith(":"))]
                    if extra:
                        out.append((C_ATTRS, f"{hier}: attributes {extra} are in no default or relation spec"))
                    for key in exp_keys:
                        _check_value(key, spec[key], check, k, hier, out)
                if len(out) >= max_report:
                    return
                walk(c, ctype, hier)

    walk(tree._root, "__root__", "")
    return out[:max_report], n_nodes


# ------------------------------------------------------------------ running the library
class _Timeout(Exception):
    pass


def _alarm(_sig, _frm):
    raise _Timeout()


@functools.lru_cache(maxsize=None)
def _classes():
    from nutree import Tree
    from nutree.typed_tree import TypedTree

    class SubTree(Tree):
        pass

    class SubTypedTree(TypedTree):
        pass

    return {"Tree": (Tree, False), "TypedTree": (TypedTree, True), "SubTree": (SubTree, False), "SubTypedTree": (SubTypedTree, True)}


def build(desc: dict, real: dict, cls, s: int, entry: str):
    from nutree import tree_generator as tg

    random.seed(s)
    old = signal.signal(signal.SIGALRM, _alarm)
    signal.setitimer(signal.ITIMER_REAL, 10.0)
    try:
        if entry == "function":
            return tg.build_random_tree(tree_class=cls, structure_def=real)
        return cls.build_random_tree(real)
    finally:
        signal.setitimer(signal.ITIMER_REAL, 0)
        signal.signal(signal.SIGALRM, old)


def check_one(desc: dict, cls_name: str, s: int, entry: str, real=None):
    """-> (diffs, n_nodes)"""
    cls, typed = _classes()[cls_name]
    if real is None:
        real = realise(desc)
    snap = _snapshot(real)
    try:
        tree = build(desc, real, cls, s, entry)
    except _Timeout:
        return [(C_NOEXC, "build_random_tree did not return within 10s")], 0
    except Exception as e:  # noqa: BLE001
        return [(C_NOEXC, f"raised {type(e).__name__}: {clip(e, 200)}")], 0
    diffs, n = check_tree(tree, desc, cls, typed)
    if _snapshot(real) != snap:
        diffs.append((C_FRAME, "the structure definition passed by the caller was modified"))
    return diffs, n


def check_bad(label: str, bad: dict, cls_name: str, entry: str):
    from nutree import tree_generator as tg

    cls, _typed = _classes()[cls_name]
    real = realise(bad)
    try:
        if entry == "function":
            t = tg.build_random_tree(tree_class=cls, structure_def=real)
        else:
            t = cls.build_random_tree(real)
    except (AssertionError, KeyError):
        return []
    except Exception as e:  # noqa: BLE001
        return [(C_ARGS, f"{label}: raised {type(e).__name__}: {clip(e, 160)}; required AssertionError or KeyError")]
    return [(C_ARGS, f"{label}: returned {t!r} with {len(t._node_by_id)} nodes; required AssertionError or KeyError")]


def _short(desc: dict) -> str:
    return clip(json.dumps(desc, sort_keys=True, default=str), 4000)


def _run_chunk(chunk, prop, seeds, base_seed):
    res = Result(prop)
    for kind, di, desc in chunk:
        try:
            if kind == "bad":
                label, bad = desc
                for cls_name in ("Tree", "TypedTree"):
                    for entry in ("classmethod", "function"):
                        diffs = check_bad(label, bad, cls_name, entry)
                        res.add_case(f"bad:{label}|{cls_name}|{entry}")
                        for clause, text in diffs:
                            res.violations.append(Violation(prop, clause, FUNC, {"kind": "bad", "label": label, "def": bad, "cls": cls_name, "entry": entry}, clip(text)))
                continue
            real = realise(desc)
            full = json.dumps(desc, sort_keys=True, default=str)
            dkey = f"def{di}:{hashlib.blake2b(full.encode(), digest_size=4).hexdigest()} {clip(json.dumps(desc.get('relations', {}), default=str), 120)}"
            for j in range(seeds):
                s = base_seed + j
                for cls_name in ("Tree", "TypedTree") + (("SubTree", "SubTypedTree") if j % 10 == 0 else ()):
                    entry = "function" if j % 2 else "classmethod"
                    diffs, n = check_one(desc, cls_name, s, entry, real=real)
                    res.add_case(f"{dkey}|{cls_name}|{s}", nontrivial=n > 0)
                    for clause, text in diffs:
                        res.violations.append(Violation(prop, clause, FUNC, {"kind": "def", "def": desc, "cls": cls_name, "seed": s, "entry": entry}, clip(text)))
        except Exception:  # noqa: BLE001
            res.errors.append(f"def #{di}: {traceback.format_exc()[-900:]}")
    return res


def run(prop: str, tier: str, only=None) -> Result:
    n_gen = 300 if tier == "quick" else 1500
    seeds = 50 if tier == "quick" else 200
    rng = random.Random(seed() * 31337 + 20)
    defs = handmade_defs() + [gen_def(rng, i) for i in range(n_gen)]
    items = [("def", i, d) for i, d in enumerate(defs)] + [("bad", i, b) for i, b in enumerate(BAD_DEFS)]
    base_seed = seed() * 100000
    res = parallel(_run_chunk, items, prop, seeds, base_seed, prop=prop)
    res.exhaustive = False
    res.bounds[FUNC] = (
        f"{len(handmade_defs())} hand-made definitions (documented example, empty, count 0, every randomizer class at probability 0.0/0.5/1.0, three-level override chain, shared child type + self recursion) "
        f"+ {n_gen} generated definitions (<= 4 types, DAG relations with shared children, optional sub-critical self recursion, fixed / RangeRandomizer / probabilistic / defaulted ':count', "
        f"0..3 attributes per level from {{literals with {{idx}}/{{hier_idx}}, RangeRandomizer int/float with probability/none_value, DateRangeRandomizer date/int span js on/off, ValueRandomizer, SparseBoolRandomizer, SampleRandomizer with/without counts}}, "
        f"':factory' DictWrapper/custom, ':callback'; VERIF_SEED={seed()}) x random.seed({base_seed}..{base_seed + seeds - 1}) x {{Tree, TypedTree}} (+ subclasses every 10th seed); entry points classmethod / tree_generator.build_random_tree alternate"
    )
    res.bounds["argument errors"] = f"{len(BAD_DEFS)} invalid definitions x {{Tree, TypedTree}} x both entry points"
    res.notes.append("TextRandomizer / BlindTextRandomizer (fabulist) are not exercised; date ranges are checked as closed intervals [min, max] (JS stamps converted back to a UTC date)")
    res.notes.append("observation (not counted as a violation under the closed-interval reading): DateRangeRandomizer(as_js_stamp=True) returns the stamp of the day *after* the drawn date "
                     "(e.g. min 2020-01-01, span 1 day -> always 1577923200000.0 = 2020-01-02T00:00Z, while as_js_stamp=False yields 2020-01-01), i.e. stamps lie in [min+1d, max], dates in [min, max-1d]")
    return res


def replay(witness: dict, prop: str):
    if witness.get("kind") == "bad":
        return check_bad(witness["label"], witness["def"], witness["cls"], witness["entry"])
    diffs, _n = check_one(witness["def"], witness["cls"], witness["seed"], witness.get("entry", "classmethod"))
    return diffs
