"""C01 / C03 / C04: bounded stand-in of the mutator contracts (see mut.py)."""
from .. import gen
from ..harness import parallel
from . import mut


def run(prop, tier, only=None):
    total = mut.sweep(prop, tier)
    if prop == "C01":
        # "after any sequence of public mutating operations": also after one that was cut short by a user callback (predicate,
        # sort key, mapper, id hook, node factory raising at its k-th invocation) -- the well-formedness clauses of the C13 sweep
        from . import c13

        n = 3 if tier == "quick" else 4
        r = parallel(c13._cb_chunk, list(gen.plain_specs(n, min_n=1)), prop, prop=prop)
        r.violations = [v for v in r.violations if "wf(T)" in v.clause]
        total.merge(r)
        total.merge(c13.badkind(prop, tier))
        total.bounds["mutating operations cut short by a raising callback"] = f"all plain forests with 1..{n} nodes x every operation taking a callback x every k; only the clauses 'wf(T) after ... raised' count here (the rest is C13's)"
    return total


def replay(witness, prop):
    if witness.get("kind") in ("cb", "hook", "factory", "badkind"):
        from . import c13

        return c13.replay(witness, prop)
    return mut.replay(witness, prop)
