"""C01 / C03 / C04: bounded stand-in of the mutator contracts (see mut.py)."""
from . import mut


def run(prop, tier, only=None):
    return mut.sweep(prop, tier)


replay = mut.replay
