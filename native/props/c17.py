"""C17 -- DOT, Mermaid and RDF exports describe exactly the tree's edges (bounded stand-in).

The concrete output text (DOT, Mermaid) / the rdflib graph (RDF) is parsed and compared with a
model computed from raw slots (`_children`, `_parent`, `_data`, `_data_id`, `_node_id`, `_kind`):

  start        the Tree (its invisible system root) or any node
  exported     E = descendants(start) in pre-order, plus start itself iff add_self / add_root
  key(n)       n._data_id when unique_nodes is on (RDF: always), n._node_id when it is off
  graph nodes  { key(n) : n in E }, each defined exactly once, labelled with n's name (str(data));
               the system root is labelled with the tree name
  edges        one  key(parent(n)) -> key(n)  per n in descendants(start) whose parent is in E,
               labelled with n's kind for typed trees (DOT: label attribute, Mermaid: quoted text,
               RDF: a nutree:kind triple on the child)
  excluding the root (add_self / add_root off) removes start's definition and the len(children(start))
  edges leaving it and nothing else -- which is what the model above says for E without start.

Mermaid numbers its nodes; the check looks for a bijection between the numbers and the keys that
respects the names and maps the edge multiset onto the model's (the documented first-occurrence
numbering is tried first).  An RDF graph is a *set* of triples, so parallel edges between the same
two data_ids (clones below clones) collapse by construction: edges, kinds and sibling indexes are
compared as sets there.
"""
from __future__ import annotations

import io
import itertools
import os
import re
import shutil
import signal
import tempfile
import traceback
from collections import Counter

from .. import gen, view
from ..harness import Result, Violation, clip, parallel, seed
from .mut import _spec_json, spec_from_json

C_RAISE = "ensures the export returns (no exception, terminates)"
C_PARSE = "ensures the output consists of node definitions and edges only"
C_NODES = "ensures one graph node per distinct data_id (per tree node when unique_nodes is off)"
C_ONCE = "ensures each graph node is defined exactly once"
C_LABEL = "ensures node labels carry the node's name"
C_EDGES = "ensures exactly one parent->child edge per exported tree node whose parent is part of the export"
C_KIND = "ensures each edge is labelled with the child's kind (typed trees)"
C_INDEX = "ensures each exported child carries its index among its siblings (RDF)"
C_ROOT = "ensures excluding the root omits the root node and the edges leaving it and nothing else"
C_FILE = "ensures to_dotfile(path) writes the same text as to_dotfile(stream)"

FUNC = {"dot": "node_to_dot", "dotfile": "tree_to_dotfile", "dotfile_path": "tree_to_dotfile",
        "mermaid": "_node_to_mermaid_flowchart_iter", "rdf": "node_to_rdf", "rdf_tree": "tree_to_rdf"}
CALL_TIMEOUT = 10.0


class _Timeout(BaseException):
    pass


def _on_alarm(signum, frame):
    raise _Timeout()


def _guarded(fn, *a, **kw):
    old = signal.signal(signal.SIGALRM, _on_alarm)
    signal.setitimer(signal.ITIMER_REAL, CALL_TIMEOUT)
    try:
        return fn(*a, **kw), None
    except _Timeout:
        return None, f"no result after {CALL_TIMEOUT}s (non-termination)"
    except Exception as e:  # noqa: BLE001
        return None, f"{type(e).__name__}: {e}"
    finally:
        signal.setitimer(signal.ITIMER_REAL, 0)
        signal.signal(signal.SIGALRM, old)


# ------------------------------------------------------------------ model
class Model:
    def __init__(self, tree, start_idx: int, add_self: bool, unique: bool):
        self.tree = tree
        nodes = view.reachable(tree)
        self.root = tree._root
        self.start = self.root if start_idx == -1 else nodes[start_idx]
        self.typed = hasattr(self.root, "_kind")
        self.desc = self._descendants(self.start)
        self.add_self = add_self
        self.unique = unique
        self.exported = ([self.start] if add_self else []) + self.desc

    @staticmethod
    def _descendants(n):
        out = []

        def walk(p):
            for c in view.kids(p):
                out.append(c)
                walk(c)

        walk(n)
        return out

    def key(self, n):
        return n._data_id if self.unique else n._node_id

    def name(self, n):
        return self.tree.name if n is self.root else f"{n._data}"

    def keys_in_order(self):
        seen, out = set(), []
        for n in self.exported:
            k = self.key(n)
            if k not in seen:
                seen.add(k)
                out.append(k)
        return out

    def names_of_key(self):
        d: dict = {}
        for n in self.exported:
            d.setdefault(self.key(n), set()).add(self.name(n))
        return d

    def edges(self, with_kind=True):
        """Multiset of (key(parent), key(child), kind|None)."""
        c = Counter()
        for n in self.desc:
            if n._parent is self.start and not self.add_self:
                continue
            c[(self.key(n._parent), self.key(n), (n._kind if self.typed and with_kind else None))] += 1
        return c


# ------------------------------------------------------------------ DOT
_DOT_EDGE = re.compile(r"^(\S+) -> (\S+)(?: \[(.*)\])?$")
_DOT_NODE = re.compile(r"^(\S+)(?: \[(.*)\])?$")
_ATTR = re.compile(r'(\w+)="((?:[^"\\]|\\.)*)"')


def parse_dot(text: str):
    defs, edges, junk = [], [], []
    lines = text.split("\n")
    body = False
    for raw in lines:
        ln = raw.strip()
        if not ln or ln.startswith("#") or ln.startswith("//"):
            continue
        if ln.startswith("digraph ") and ln.endswith("{"):
            body = True
            continue
        if ln == "}":
            body = False
            continue
        if not body:
            junk.append(raw)
            continue
        m = _DOT_EDGE.match(ln)
        if m:
            edges.append((m.group(1), m.group(2), dict(_ATTR.findall(m.group(3) or ""))))
            continue
        m = _DOT_NODE.match(ln)
        if m and m.group(1) not in ("graph", "node", "edge"):
            defs.append((m.group(1), dict(_ATTR.findall(m.group(2) or ""))))
            continue
        junk.append(raw)
    return defs, edges, junk


def check_dot(text: str, m: Model) -> list[tuple[str, str]]:
    out = []
    defs, edges, junk = parse_dot(text)
    if junk:
        out.append((C_PARSE, f"unexpected line(s) {junk[:3]}"))
    exp_keys = [f"{k}" for k in m.keys_in_order()]
    got = Counter(k for k, _a in defs)
    if set(got) != set(exp_keys):
        out.append((C_NODES, f"defined graph nodes {sorted(got)} != keys of the exported tree nodes {sorted(exp_keys)}"))
    dup = {k: c for k, c in got.items() if c > 1}
    if dup:
        out.append((C_ONCE, f"graph node(s) defined more than once: {dup}; definitions: {[(k, a) for k, a in defs if k in dup]}"))
    # labels: every exported *child* (and the system root) carries its name
    names = {}
    for n in m.desc + ([m.root] if m.add_self and m.start is m.root else []):
        names.setdefault(f"{m.key(n)}", set()).add(m.name(n))
    for k, want in names.items():
        labels = [a.get("label") for kk, a in defs if kk == k]
        if not labels:
            continue  # reported as C_NODES
        if len(want) == 1:
            w = next(iter(want))
            if any(l is not None and l != w for l in labels) or all(l is None for l in labels):
                out.append((C_LABEL, f"graph node {k} has label(s) {labels}, the tree node's name is {w!r}"))
                break
    got_e = Counter((a, b, at.get("label")) for a, b, at in edges)
    exp_e = Counter({(f"{a}", f"{b}", k): c for (a, b, k), c in m.edges().items()})
    if got_e != exp_e:
        plain_got = Counter((a, b) for a, b, _at in edges)
        plain_exp = Counter()
        for (a, b, _k), c in exp_e.items():
            plain_exp[(a, b)] += c
        if plain_got == plain_exp:
            out.append((C_KIND, f"edge labels {sorted(got_e.elements(), key=repr)} != {sorted(exp_e.elements(), key=repr)}"))
        else:
            out.append((C_EDGES, f"edges {sorted(plain_got.elements())} != one per exported child {sorted(plain_exp.elements())}"))
    return out


# ------------------------------------------------------------------ Mermaid
_MM_NODE = re.compile(r'^(\d+)\("(.*)"\)$')
_MM_ROOT = re.compile(r'^(\d+)\{\{"(.*)"\}\}$')
_MM_EDGE = re.compile(r"^(\d+) --> (\d+)$")
_MM_EDGE_T = re.compile(r'^(\d+)-- "(.*)" -->(\d+)$')


def parse_mermaid(text: str):
    defs, edges, junk = [], [], []
    for raw in text.split("\n"):
        ln = raw.strip()
        if not ln or ln in ("```mermaid", "```", "---") or ln.startswith("%%") or ln.startswith("title:") or ln.startswith("flowchart "):
            continue
        mm = _MM_NODE.match(ln) or _MM_ROOT.match(ln)
        if mm:
            defs.append((mm.group(1), mm.group(2)))
            continue
        mm = _MM_EDGE.match(ln)
        if mm:
            edges.append((mm.group(1), mm.group(2), None))
            continue
        mm = _MM_EDGE_T.match(ln)
        if mm:
            edges.append((mm.group(1), mm.group(3), mm.group(2)))
            continue
        junk.append(raw)
    return defs, edges, junk


def check_mermaid(text: str, m: Model) -> list[tuple[str, str]]:
    out = []
    defs, edges, junk = parse_mermaid(text)
    if junk:
        out.append((C_PARSE, f"unexpected line(s) {junk[:3]}"))
    keys = m.keys_in_order()
    names = m.names_of_key()
    idx_count = Counter(i for i, _n in defs)
    dup = {i: c for i, c in idx_count.items() if c > 1}
    if dup:
        out.append((C_ONCE, f"graph node(s) defined more than once: {dup}; definitions {defs}"))
        return out
    if len(defs) != len(keys):
        out.append((C_NODES, f"{len(defs)} graph nodes {defs} for {len(keys)} distinct keys (names {[sorted(names[k]) for k in keys]})"))
        return out
    used = {i for e in edges for i in e[:2]}
    if not used <= set(idx_count):
        out.append((C_EDGES, f"edges {edges} use undefined node numbers {sorted(used - set(idx_count))}"))
        return out
    exp_e = m.edges()
    exp_plain = Counter()
    for (a, b, _k), c in exp_e.items():
        exp_plain[(a, b)] += c

    def try_map(f):
        """0 = names differ, 1 = edges differ, 2 = only kinds differ, 3 = match"""
        if any(nm not in names[f[i]] for i, nm in defs):
            return 0
        # (Mermaid: an edge without text and an edge whose kind is the empty string are the same picture)
        if Counter((f[a], f[b], k or None) for a, b, k in edges) == Counter({(a, b, k or None): c for (a, b, k), c in exp_e.items()}):
            return 3
        if Counter((f[a], f[b]) for a, b, _k in edges) == exp_plain:
            return 2
        return 1

    best = try_map({i: k for (i, _n), k in zip(defs, keys)})
    if best != 3:
        # any other bijection that respects the names?
        if Counter(nm for _i, nm in defs) != Counter(next(iter(names[k])) for k in keys):
            best = 0
        else:
            by_name: dict = {}
            for k in keys:
                by_name.setdefault(next(iter(names[k])), []).append(k)
            groups = []
            for nm, ks in by_name.items():
                idxs = [i for i, n2 in defs if n2 == nm]
                groups.append([list(zip(idxs, p)) for p in itertools.permutations(ks)])
            for combo in itertools.product(*groups):
                f = {i: k for part in combo for i, k in part}
                best = max(best, try_map(f))
                if best == 3:
                    break
    if best == 0:
        out.append((C_LABEL, f"graph node names {[n for _i, n in defs]} != names of the exported keys {[sorted(names[k]) for k in keys]}"))
    elif best == 1:
        out.append((C_EDGES, f"edges {edges} over nodes {defs} cannot be mapped onto one edge per exported child {sorted(exp_e.elements(), key=repr)}"))
    elif best == 2:
        out.append((C_KIND, f"edge labels {edges} do not match the children's kinds {sorted(exp_e.elements(), key=repr)}"))
    return out


# ------------------------------------------------------------------ RDF
def _py(term):
    from rdflib import Literal, URIRef

    if isinstance(term, URIRef):
        return ("uri", str(term))
    if isinstance(term, Literal):
        v = term.toPython()
        return (type(v).__name__, v)
    return ("?", str(term))


def _lit(v):
    return (type(v).__name__, v)


def check_rdf(graph, m: Model, tree_level: bool) -> list[tuple[str, str]]:
    from nutree.rdf import NUTREE_NS as NS

    out = []
    sysroot = ("uri", str(NS.system_root))

    def key(n):
        return sysroot if n is m.root else _lit(n._data_id)

    got_names = {(_py(s), _py(o)) for s, _p, o in graph.triples((None, NS.name, None))}
    exp_names = {(key(n), _lit(m.name(n))) for n in m.exported}
    if {k for k, _ in got_names} != {k for k, _ in exp_names}:
        out.append((C_NODES, f"graph nodes with a name {sorted({k for k, _ in got_names}, key=repr)} != keys of the exported tree nodes {sorted({k for k, _ in exp_names}, key=repr)}"))
    elif got_names != exp_names:
        out.append((C_LABEL, f"name triples {sorted(got_names, key=repr)} != {sorted(exp_names, key=repr)}"))
    got_e = {(_py(s), _py(o)) for s, _p, o in graph.triples((None, NS.has_child, None))}
    exp_e = {(key(n._parent), key(n)) for n in m.desc if m.add_self or n._parent is not m.start}
    if got_e != exp_e:
        out.append((C_EDGES, f"has_child triples {sorted(got_e, key=repr)} != one per exported child {sorted(exp_e, key=repr)} (missing {sorted(exp_e - got_e, key=repr)}, extra {sorted(got_e - exp_e, key=repr)})"))
    if m.typed:
        got_k = {(_py(s), _py(o)) for s, _p, o in graph.triples((None, NS.kind, None))}
        exp_k = {(key(n), _lit(n._kind)) for n in m.exported if n is not m.root}
        if got_k != exp_k:
            out.append((C_KIND, f"kind triples {sorted(got_k, key=repr)} != {sorted(exp_k, key=repr)}"))
    got_i = {(_py(s), _py(o)) for s, _p, o in graph.triples((None, NS.index, None))}
    exp_i = {(key(n), _lit(next(i for i, c in enumerate(view.kids(n._parent)) if c is n))) for n in m.desc}  # by identity: Node.__eq__ compares data
    if got_i != exp_i:
        out.append((C_INDEX, f"index triples {sorted(got_i, key=repr)} != {sorted(exp_i, key=repr)}"))
    return out


# ------------------------------------------------------------------ one evaluation
def export_and_check(tree, start_idx: int, fmt: str, unique: bool, add_self: bool, tmpdir=None) -> list[tuple[str, str]]:
    nodes = view.reachable(tree)
    obj = tree if start_idx == -1 else nodes[start_idx]
    is_tree = start_idx == -1
    m = Model(tree, start_idx, add_self, unique if not fmt.startswith("rdf") else True)
    if fmt == "dot":
        kw = {"add_root": add_self} if is_tree else {"add_self": add_self}
        text, err = _guarded(lambda: "\n".join(obj.to_dot(unique_nodes=unique, **kw)))
        return [(C_RAISE, err)] if err else check_dot(text, m)
    if fmt == "dotfile":
        buf = io.StringIO()
        _v, err = _guarded(lambda: tree.to_dotfile(buf, add_root=add_self, unique_nodes=unique))
        return [(C_RAISE, err)] if err else check_dot(buf.getvalue(), m)
    if fmt == "dotfile_path":
        buf = io.StringIO()
        path = os.path.join(tmpdir, "g.gv")
        _v, err = _guarded(lambda: (tree.to_dotfile(path, add_root=add_self, unique_nodes=unique), tree.to_dotfile(buf, add_root=add_self, unique_nodes=unique)))
        if err:
            return [(C_RAISE, err)]
        with open(path) as fp:
            text = fp.read()
        out = check_dot(text, m)
        if text != buf.getvalue():
            out.append((C_FILE, f"file holds {text!r}, stream got {buf.getvalue()!r}"))
        return out
    if fmt in ("mermaid", "mermaid_plain"):
        buf = io.StringIO()
        kw = {"add_root": add_self} if is_tree else {"add_self": add_self}
        if fmt == "mermaid_plain":
            kw.update(as_markdown=False, title=False)
        _v, err = _guarded(lambda: obj.to_mermaid_flowchart(buf, unique_nodes=unique, **kw))
        return [(C_RAISE, err)] if err else check_mermaid(buf.getvalue(), m)
    if fmt == "rdf":
        if is_tree:
            g, err = _guarded(lambda: tree.to_rdf_graph())
        else:
            g, err = _guarded(lambda: obj.to_rdf_graph(add_self=add_self))
        return [(C_RAISE, err)] if err else check_rdf(g, m, is_tree)
    raise ValueError(fmt)


def func_of(fmt, start_idx):
    if fmt == "rdf":
        return FUNC["rdf_tree"] if start_idx == -1 else FUNC["rdf"]
    return FUNC["mermaid" if fmt.startswith("mermaid") else fmt]


def cases_for(start_idx: int):
    """(fmt, unique_nodes, add_self) -- add_self=True first, so that a root-exclusion defect can be told apart."""
    for unique in (True, False):
        for add_self in (True, False):
            yield "dot", unique, add_self
            yield "mermaid", unique, add_self
            if start_idx == -1:
                yield "dotfile", unique, add_self
                yield "dotfile_path", unique, add_self
                yield "mermaid_plain", unique, add_self
    if start_idx == -1:
        yield "rdf", True, True
    else:
        yield "rdf", True, True
        yield "rdf", True, False


def _add_violation(res, counts, v, per_key=12):
    counts[v.key()] = counts.get(v.key(), 0) + 1
    if counts[v.key()] <= per_key:
        res.violations.append(v)


def _part_tree(name, **kw):
    """A typed tree whose nodes are instances of a TypedNode subclass that declares __slots__ of its own (the pattern the
    library's own node classes use): still a typed tree for every exporter."""
    from nutree.typed_tree import TypedNode, TypedTree

    class PartNode(TypedNode):
        __slots__ = ("extra",)

    return TypedTree(name, factory=PartNode, **kw)


def _build(spec):
    """typed specs with an odd number of nodes are built over the custom node class"""
    if spec.typed and len(spec.nodes) % 2 == 1:
        return gen.build(spec, tree_cls=_part_tree)
    return gen.build(spec)


def _chunk(chunk, prop):
    res = Result(prop)
    counts: dict = {}
    tmpdir = tempfile.mkdtemp(prefix="verif_c17_")
    try:
        for spec in chunk:
            try:
                tree, nodes = _build(spec)
                before = view.obs(tree)
                for start in range(-1, len(nodes)):
                    failed_with_self = set()
                    for fmt, unique, add_self in cases_for(start):
                        diffs = export_and_check(tree, start, fmt, unique, add_self, tmpdir)
                        res.add_case(f"{spec.short()}@{start}|{fmt}|u{int(unique)}|s{int(add_self)}", nontrivial=len(spec) > 0)
                        if diffs and add_self:
                            failed_with_self.add((fmt, unique))
                        for clause, text in diffs:
                            if not add_self and (fmt, unique) not in failed_with_self and clause in (C_NODES, C_ONCE, C_EDGES, C_KIND, C_LABEL):
                                text = f"[{clause}] {text}"
                                clause = C_ROOT  # the export with the root is right, the one without is not
                            _add_violation(res, counts, Violation(prop, clause, func_of(fmt, start), {
                                "spec": _spec_json(spec), "start": start, "format": fmt, "unique_nodes": unique, "add_self": add_self}, clip(text)))
                if view.obs(tree) != before:
                    res.errors.append(f"{spec.short()}: an export modified the tree (not part of C17, later cases may be polluted)")
            except Exception:  # noqa: BLE001
                res.errors.append(f"{spec.short()}: {traceback.format_exc()[-1000:]}")
    finally:
        shutil.rmtree(tmpdir, ignore_errors=True)
    return res


# ------------------------------------------------------------------ inputs
def zero_id_specs(max_n: int, alphabet=("a", "b")):
    """One node carries the explicit data_id 0 (what hash(0) / hash(False) / hash(0.0) give for
    such data): a falsy graph-node key."""
    for sp in gen.plain_specs(max_n, min_n=1, alphabet=alphabet):
        for i in range(len(sp)):
            nodes = [(p, lab, (0 if k == i else None), kd) for k, (p, lab, _d, kd) in enumerate(sp.nodes)]
            s2 = gen.Spec(tuple(nodes))
            if gen.sibling_ids_unique(s2):
                yield s2


def string_id_specs(max_n: int):
    """Two or three nodes carry explicit *string* data_ids that differ only in characters outside [A-Za-z0-9_]
    ('lib-x', 'lib_x', 'lib.x'): distinct ids are distinct graph nodes however an exporter spells its keys."""
    import itertools

    ids = ("lib-x", "lib_x", "lib.x")
    for sp in gen.plain_specs(max_n, min_n=2, alphabet=("a", "b")):
        n = len(sp)
        for pick in itertools.combinations(range(n), 2 if n < 3 else 3):
            nodes = list(sp.nodes)
            for t, k in enumerate(pick):
                p, lab, _d, kd = nodes[k]
                nodes[k] = (p, lab, ids[t], kd)
            s2 = gen.Spec(tuple(nodes))
            if gen.sibling_ids_unique(s2):
                yield s2


def inputs(tier: str):
    if tier == "quick":
        groups = {
            "string ids differing in punctuation only": list(string_id_specs(3)),
            "names and kinds that look like markup": list(gen.plain_specs(3, min_n=1, alphabet=("<init>", "a&b"))) + [gen.Spec(tuple((p, lab, d, ("<requires>", "k1")[i % 2]) for i, (p, lab, d, _k) in enumerate(s.nodes)), typed=True) for s in gen.plain_specs(2, min_n=1, alphabet=("<lambda>", "b"))],
            "empty names and kinds (falsy attribute values are values)": list(gen.plain_specs(3, min_n=1, alphabet=("", "0"))) + [gen.Spec(tuple((p, lab, d, ("", "k1")[i % 2]) for i, (p, lab, d, _k) in enumerate(s.nodes)), typed=True) for s in gen.plain_specs(3, min_n=1, alphabet=("", "b"))],
            "non-ASCII names and kinds": list(gen.plain_specs(3, min_n=1, alphabet=("Zürich", "日本"))) + [gen.Spec(tuple((p, lab, d, ("zubehör", "k1")[i % 2]) for i, (p, lab, d, _k) in enumerate(s.nodes)), typed=True) for s in gen.plain_specs(3, min_n=1, alphabet=("Zürich", "b"))],
            "plain": list(gen.plain_specs(4)),
            "typed": list(gen.typed_specs(3, alphabet=("a", "b", "c"))) + list(gen.typed_specs(4, min_n=4)),
            "equal data under distinct ids": list(gen.eqpair_specs(3)),
            "data_id 0": list(zero_id_specs(3)),
        }
        words = "plain forests <= 4 nodes over {a,b,c}; typed forests <= 3 nodes over {a,b,c} and with 4 nodes over {a,b} (at most 2 siblings) x kinds {k1,k2}; equal-data pairs <= 3 nodes; one node with data_id 0 (<= 3 nodes); explicit string ids lib-x / lib_x / lib.x on 2..3 nodes (<= 3 nodes); non-ASCII names (Zürich, 日本) and a non-ASCII kind (<= 3 nodes)"
    else:
        groups = {
            "string ids differing in punctuation only": list(string_id_specs(4)),
            "names and kinds that look like markup": list(gen.plain_specs(3, min_n=1, alphabet=("<init>", "a&b"))) + [gen.Spec(tuple((p, lab, d, ("<requires>", "k1")[i % 2]) for i, (p, lab, d, _k) in enumerate(s.nodes)), typed=True) for s in gen.plain_specs(2, min_n=1, alphabet=("<lambda>", "b"))],
            "empty names and kinds (falsy attribute values are values)": list(gen.plain_specs(3, min_n=1, alphabet=("", "0"))) + [gen.Spec(tuple((p, lab, d, ("", "k1")[i % 2]) for i, (p, lab, d, _k) in enumerate(s.nodes)), typed=True) for s in gen.plain_specs(3, min_n=1, alphabet=("", "b"))],
            "non-ASCII names and kinds": list(gen.plain_specs(4, min_n=1, alphabet=("Zürich", "日本"))) + [gen.Spec(tuple((p, lab, d, ("zubehör", "k1")[i % 2]) for i, (p, lab, d, _k) in enumerate(s.nodes)), typed=True) for s in gen.plain_specs(3, min_n=1, alphabet=("Zürich", "b"))],
            "plain": list(gen.plain_specs(5)),
            "typed": list(gen.typed_specs(4, alphabet=("a", "b", "c"))),
            "equal data under distinct ids": list(gen.eqpair_specs(4)),
            "data_id 0": list(zero_id_specs(4)),
        }
        words = "plain forests <= 5 nodes over {a,b,c}; typed forests <= 4 nodes over {a,b,c} x kinds {k1,k2}; equal-data pairs <= 4 nodes; one node with data_id 0 (<= 4 nodes); explicit string ids lib-x / lib_x / lib.x on 2..3 nodes (<= 4 nodes); non-ASCII names (Zürich, 日本) and a non-ASCII kind (<= 4 nodes)"
    return groups, words


def run(prop: str, tier: str, only=None) -> Result:
    total = Result(prop)
    groups, words = inputs(tier)
    specs = [s for g in groups.values() for s in g]
    n_hist = 3
    hst = gen.history_specs([s for s in specs if len(s) <= n_hist])
    big = gen.big_specs(seed() + 17, 6 if tier == "quick" else 40, lo=18, hi=32) + gen.big_specs(seed() + 18, 3 if tier == "quick" else 20, lo=18, hi=32, typed=True)
    specs = specs + hst + big
    total.merge(parallel(_chunk, specs, prop, prop=prop, chunks_per_proc=8))
    total.bounds["to_dot / to_dotfile / to_mermaid_flowchart / to_rdf_graph"] = (
        f"all labelled trees with clones: {words} ({len(specs)} trees incl. {len(big)} seeded larger trees with 18..32 nodes and {len(hst)} " + "histories: every tree of <= {n} nodes with all accessors evaluated once, then one of remove / remove(keep_children) / move_to / add / remove_children / sort_children / deep copy (native/hist.py), the checks run on the resulting tree".format(n=n_hist) + "); the Tree and every start node; unique_nodes on/off x add_root/add_self on/off "
        "for DOT (Tree.to_dot, Node.to_dot, to_dotfile to a stream and to a file) and Mermaid (markdown and plain); RDF with add_self on/off"
    )
    return total


def replay(witness: dict, prop: str) -> list[tuple[str, str]]:
    spec = spec_from_json(witness["spec"])
    tree, _ = _build(spec)
    tmpdir = tempfile.mkdtemp(prefix="verif_c17_")
    try:
        diffs = export_and_check(tree, witness["start"], witness["format"], witness["unique_nodes"], witness["add_self"], tmpdir)
        if diffs and not witness["add_self"]:
            # classify as in the sweep: a defect that only shows without the root is reported under C_ROOT
            with_self = export_and_check(tree, witness["start"], witness["format"], witness["unique_nodes"], True, tmpdir)
            if not with_self:
                diffs = [((C_ROOT, f"[{c}] {t}") if c in (C_NODES, C_ONCE, C_EDGES, C_KIND, C_LABEL) else (c, t)) for c, t in diffs]
        return diffs
    finally:
        shutil.rmtree(tmpdir, ignore_errors=True)
