"""Bounded stand-in for C06 -- traversals visit each node once in the documented order and
obey control signals.

Oracle (written from the property statement and docs/sphinx/ug_search_and_navigate.rst,
ug_advanced.rst; reads raw `_children` only, never calls an iterator of the library):

    Pre(n)        = concat over c in kids(n):  [c] + Pre(c)
    Post(n)       = concat over c in kids(n):  Post(c) + [c]
    AtDepth(n,1)  = kids(n);   AtDepth(n,d+1) = concat over c in kids(n): AtDepth(c,d)
    Level(n)      = AtDepth(n,1) + AtDepth(n,2) + ...                (every level left-to-right)
    LevelRTL(n)   = rev(AtDepth(n,1)) + rev(AtDepth(n,2)) + ...      (every level right-to-left)
    ZigZag(n)     = AtDepth(n,1) + rev(AtDepth(n,2)) + AtDepth(n,3) + ...
    ZigZagRTL(n)  = rev(AtDepth(n,1)) + AtDepth(n,2) + rev(AtDepth(n,3)) + ...
    add_self: [n] + Order(n), for post-order Order(n) + [n]

Checked clauses (every start node and the Tree object, every IterMethod, add_self on/off):

  * `node.iterator(method, add_self=)`, `tree.iterator(method)`, `for x in node`, `for x in tree`
    yield exactly Order(start) by identity (hence every node of the branch exactly once);
    `tree.iterator(UNORDERED | RANDOM_ORDER)` yield a permutation of all nodes.
  * `visit(callback, method=, add_self=, memo=)` for PRE_ORDER, POST_ORDER, LEVEL_ORDER calls
    the callback in iterator order, passes `memo` through (the passed object, or one and the
    same initially empty dict when none is passed) and returns None.
  * for every node X of the visited sequence and every spelling of a control signal given
    by the callback at X (and nowhere else):
      skip (SkipBranch class / instance, returned / raised): the calls are Order(start) without
      the descendants of X for pre-order and level-order; post-order is unaffected (children
      come first); visit() returns None;
      stop (StopTraversal class / StopTraversal(v) / StopTraversal(0), False, StopIteration class
      / StopIteration(v), returned or raised): the calls are the prefix of Order(start) up to
      and including X and visit() returns the carried value (identity), None where none is
      carried.
  * the tree is unchanged afterwards (view.obs).

A callback that returns `True` or another value is not constrained by the property (the
documentation says "continue", the code raises ValueError) and is not exercised.

Non-termination guard: iterators are consumed with a length cap, the recording callback
aborts after 4*n+16 calls, and every tree runs under a wall-clock alarm.
"""
from __future__ import annotations

import itertools
import random
import signal
import traceback
import warnings

from nutree.common import IterMethod, SkipBranch, StopTraversal

from .. import gen, view
from ..harness import Result, Violation, clip, parallel, seed
from .mut import _spec_json, spec_from_json

ORDERED = ("pre", "post", "level", "level_rtl", "zigzag", "zigzag_rtl")
VISITABLE = ("pre", "post", "level")
METHOD = {m.value: m for m in IterMethod}

CL_ITER = "ensures iterator(method, add_self) yields Order(method, self): each node of the branch once, by identity"
CL_PERM = "ensures UNORDERED / RANDOM_ORDER yield a permutation of all nodes"
CL_VISIT = "ensures visit() calls the callback in iterator order"
CL_SKIP = "ensures a skip signal suppresses exactly that node's descendants (post-order: nothing)"
CL_STOP = "ensures a stop signal ends the traversal at once (no further callback)"
CL_VALUE = "ensures visit() returns the value carried by the stop signal (None otherwise)"
CL_MEMO = "ensures memo is passed through to every callback call"
CL_EXC = "ensures no exception escapes"
CL_TERM = "ensures termination"
CL_FRAME = "ensures the tree is unchanged by traversals"

_V = ("carried", 7)  # value object carried by StopTraversal(v) / StopIteration(v); compared by identity

# name -> (kind, "return"|"raise", factory of the object, carried value)
SIGNALS = {
    "ret SkipBranch": ("skip", "return", lambda: SkipBranch, None),
    "ret SkipBranch()": ("skip", "return", lambda: SkipBranch(), None),
    "raise SkipBranch": ("skip", "raise", lambda: SkipBranch, None),
    "raise SkipBranch()": ("skip", "raise", lambda: SkipBranch(), None),
    "ret StopTraversal": ("stop", "return", lambda: StopTraversal, None),
    "ret StopTraversal(v)": ("stop", "return", lambda: StopTraversal(_V), _V),
    "raise StopTraversal": ("stop", "raise", lambda: StopTraversal, None),
    "raise StopTraversal(v)": ("stop", "raise", lambda: StopTraversal(_V), _V),
    "raise StopTraversal(0)": ("stop", "raise", lambda: StopTraversal(0), 0),
    "ret False": ("stop", "return", lambda: False, None),
    "ret StopIteration": ("stop", "return", lambda: StopIteration, None),
    "ret StopIteration(v)": ("stop", "return", lambda: StopIteration(_V), _V),
    "raise StopIteration": ("stop", "raise", lambda: StopIteration, None),
    "raise StopIteration(v)": ("stop", "raise", lambda: StopIteration(_V), _V),
}


# ------------------------------------------------------------------ oracle (raw slots only)
def _kids(n):
    c = n._children
    return [] if c is None else list(c)


def pre(n):
    out = []
    for c in _kids(n):
        out.append(c)
        out += pre(c)
    return out


def post(n):
    out = []
    for c in _kids(n):
        out += post(c)
        out.append(c)
    return out


def at_depth(n, d):
    if d == 1:
        return _kids(n)
    out = []
    for c in _kids(n):
        out += at_depth(c, d - 1)
    return out


def by_level(n, *, first_rtl: bool, alternate: bool):
    out, d, rtl = [], 1, first_rtl
    while True:
        lv = at_depth(n, d)
        if not lv:
            return out
        out += lv[::-1] if rtl else lv
        if alternate:
            rtl = not rtl
        d += 1


def order(start, method: str, add_self: bool):
    """Expected sequence for a traversal that starts at raw node `start`."""
    if method == "pre":
        seq = pre(start)
    elif method == "post":
        seq = post(start)
    elif method == "level":
        seq = by_level(start, first_rtl=False, alternate=False)
    elif method == "level_rtl":
        seq = by_level(start, first_rtl=True, alternate=False)
    elif method == "zigzag":
        seq = by_level(start, first_rtl=False, alternate=True)
    elif method == "zigzag_rtl":
        seq = by_level(start, first_rtl=True, alternate=True)
    else:
        raise ValueError(method)
    if add_self:
        seq = seq + [start] if method == "post" else [start] + seq
    return seq


def visit_expect(start, method, add_self, at, kind):
    """(expected call sequence, stopped?) when the callback signals `kind` at node `at`."""
    seq = order(start, method, add_self)
    if at is None:
        return seq
    if kind == "skip":
        if method == "post":
            return seq
        below = {id(x) for x in pre(at)}
        return [x for x in seq if id(x) not in below]
    i = [k for k, x in enumerate(seq) if x is at][0]
    return seq[: i + 1]


# ------------------------------------------------------------------ evaluation of one case
class _Runaway(Exception):
    pass


class _Timeout(BaseException):
    pass


def _alarm(_sig, _frm):
    raise _Timeout()


def _names(seq, idx):
    return "[" + " ".join(_nm(x, idx) for x in seq) + "]"


def _nm(x, idx):
    i = idx.get(id(x))
    try:
        d = x._data
    except Exception:  # noqa: BLE001
        d = "?"
    return f"{d}@{i}" if i is not None else f"<foreign {x!r}>"


def _same(a, b):
    return len(a) == len(b) and all(x is y for x, y in zip(a, b))


def eval_case(tree, nodes, case):
    """Evaluate one case on the real tree.  Returns ([(clause, func, text)], nontrivial)."""
    idx = {id(n): i for i, n in enumerate(nodes)}
    idx[id(tree._root)] = -1
    n_all = len(nodes)
    cap = 4 * n_all + 16
    kind = case[0]
    out = []

    def start_of(s):
        return (tree, tree._root) if s == -1 else (nodes[s], nodes[s])

    if kind in ("iter", "for"):
        if kind == "iter":
            _, s, m, add_self = case
        else:
            _, s = case
            m, add_self = "pre", False
        obj, raw = start_of(s)
        exp = order(raw, m, add_self)
        func = ("Tree.iterator" if s == -1 else "Node.iterator") + f"/_iter_{m}"
        try:
            if kind == "for":
                it = iter(obj)
            elif s == -1:
                it = obj.iterator(METHOD[m])
            else:
                it = obj.iterator(METHOD[m], add_self=add_self)
            got = list(itertools.islice(it, cap + 1))
        except Exception as e:  # noqa: BLE001
            return [(CL_EXC, func, f"{type(e).__name__}: {e}")], True
        if len(got) > cap:
            out.append((CL_TERM, func, f"more than {cap} nodes yielded for a tree of {n_all} nodes"))
        elif not _same(got, exp):
            out.append((CL_ITER, func, f"yielded {_names(got, idx)}, required {_names(exp, idx)}"))
        return out, len(exp) >= 2

    if kind == "unord":
        _, m = case
        func = "Tree.iterator"
        try:
            got = list(itertools.islice(tree.iterator(METHOD[m]), cap + 1))
        except Exception as e:  # noqa: BLE001
            return [(CL_EXC, func, f"{type(e).__name__}: {e}")], True
        exp = pre(tree._root)
        if len(got) != len(exp) or {id(x) for x in got} != {id(x) for x in exp}:
            out.append((CL_PERM, func, f"{m}: yielded {_names(got, idx)}, required a permutation of {_names(exp, idx)}"))
        return out, len(exp) >= 2

    if kind == "two":
        _, m = case
        func = "Tree.iterator"
        exp = pre(tree._root)
        try:
            it1 = iter(tree.iterator(METHOD[m]))
            got1 = list(itertools.islice(it1, len(exp) // 2))  # the first iterator is part-way through ...
            it2 = iter(tree.iterator(METHOD[m]))  # ... when the second one is created
            got2 = []
            for _ in range(cap + 1):
                a, b = next(it1, None), next(it2, None)
                if a is None and b is None:
                    break
                if a is not None:
                    got1.append(a)
                if b is not None:
                    got2.append(b)
        except Exception as e:  # noqa: BLE001
            return [(CL_EXC, func, f"{type(e).__name__}: {e}")], True
        for which, got in (("first", got1), ("second", got2)):
            if len(got) != len(exp) or {id(x) for x in got} != {id(x) for x in exp}:
                out.append((CL_PERM if m in ("unordered", "random") else CL_ITER, func, f"{m}, two iterators consumed alternately: the {which} yielded {_names(got, idx)}, required {'a permutation of ' if m in ('unordered', 'random') else ''}{_names(exp, idx)}"))
        return out, len(exp) >= 2

    if kind == "visit":
        _, s, m, add_self, at, sig, memo_kind = case
        obj, raw = start_of(s)
        at_node = None if at is None else (tree._root if at == -1 else nodes[at])
        skind, how, make, carried = SIGNALS[sig] if sig else (None, None, None, None)
        exp = visit_expect(raw, m, add_self, at_node, skind)
        func = ("Tree.visit" if s == -1 else "Node.visit") + f"/_visit_{m}"
        calls, memos = [], []

        def cb(node, memo):
            calls.append(node)
            memos.append(memo)
            if len(calls) > cap:
                raise _Runaway()
            if node is at_node:
                o = make()
                if how == "raise":
                    raise o
                return o
            return None

        passed = [] if memo_kind == "obj" else None
        kw = {"method": METHOD[m]}
        if s != -1:
            kw["add_self"] = add_self
        if passed is not None:
            kw["memo"] = passed
        try:
            ret = obj.visit(cb, **kw)
        except _Runaway:
            return [(CL_TERM, func, f"callback called more than {cap} times for a tree of {n_all} nodes")], True
        except Exception as e:  # noqa: BLE001
            return [(CL_EXC, func, f"{type(e).__name__}: {e} after calls {_names(calls, idx)}")], True
        if not _same(calls, exp):
            cl = CL_VISIT if skind is None else (CL_SKIP if skind == "skip" else CL_STOP)
            out.append((cl, func, f"callback saw {_names(calls, idx)}, required {_names(exp, idx)}"))
        want = carried if skind == "stop" else None
        if ret is not want:
            out.append((CL_VALUE, func, f"visit() returned {ret!r}, required {want!r}"))
        if passed is not None:
            if any(mm is not passed for mm in memos):
                out.append((CL_MEMO, func, "callback received an object other than the passed memo"))
        elif memos:
            if not isinstance(memos[0], dict) or any(mm is not memos[0] for mm in memos):
                out.append((CL_MEMO, func, f"without memo= the callback must get one dict for the whole traversal, got {[type(x).__name__ for x in memos]}"))
        if skind is None:
            nontrivial = len(exp) >= 2
        elif skind == "skip":
            nontrivial = bool(_kids(at_node)) and m != "post"
        else:
            nontrivial = len(exp) < len(order(raw, m, add_self))
        return out, nontrivial

    raise ValueError(case)


def enum_cases(spec, *, full_signals=True):
    """All cases for one tree (start -1 == the Tree object)."""
    n = len(spec)
    ch = gen.children_of([r[0] for r in spec.nodes])

    def desc(i):  # spec indices of the branch below i, any order
        out = []
        for c in ch[i]:
            out.append(c)
            out += desc(c)
        return out

    for m in ("unordered", "random"):
        yield ("unord", m)
    for m in ("unordered", "random", "pre", "level"):
        yield ("two", m)  # two iterators of the same tree consumed alternately: each still yields its own full sequence
    toggle = 0
    for s in [-1] + list(range(n)):
        yield ("for", s)
        branch = desc(s)
        for add_self in ((False,) if s == -1 else (False, True)):
            for m in ORDERED:
                yield ("iter", s, m, add_self)
            for m in VISITABLE:
                yield ("visit", s, m, add_self, None, None, "obj")
                yield ("visit", s, m, add_self, None, None, "none")
                members = ([s] if add_self else []) + branch
                for at in members:
                    for sig in SIGNALS:
                        toggle ^= 1
                        yield ("visit", s, m, add_self, at, sig, "obj" if toggle else "none")


def _case_repr(spec, case):
    return f"{spec.short()}{'/typed' if spec.typed else ''} :: " + "|".join(str(x) for x in case)


def _witness(spec, case):
    return {"spec": _spec_json(spec), "case": list(case)}


_BREAKER = None  # cross-process count of trees that ran into the watchdog (multiprocessing.Value), set by run()


def _run_chunk(chunk, prop, per_tree_timeout):
    res = Result(prop)
    old = signal.signal(signal.SIGALRM, _alarm)
    try:
        with warnings.catch_warnings():
            warnings.simplefilter("ignore")
            for pos, spec in enumerate(chunk):
                if _BREAKER is not None and _BREAKER.value >= 6:
                    # a traversal that does not terminate (or corrupts the trees it walks) would otherwise cost the watchdog's
                    # time for every remaining tree: the violations found so far are reported, the rest is skipped
                    res.notes.append(f"circuit breaker: {len(chunk) - pos} trees of this chunk not evaluated after repeated watchdog time-outs")
                    break
                try:
                    tree, nodes = gen.build(spec)
                    before = view.obs(tree)
                except Exception:  # noqa: BLE001
                    res.errors.append(f"build {spec.short()}: {traceback.format_exc()[-600:]}")
                    continue
                case = None
                signal.setitimer(signal.ITIMER_REAL, per_tree_timeout)
                try:
                    for case in enum_cases(spec):
                        try:
                            diffs, nontrivial = eval_case(tree, nodes, case)
                        except _Timeout:
                            raise
                        except Exception:  # noqa: BLE001
                            res.errors.append(f"{_case_repr(spec, case)}: {traceback.format_exc()[-800:]}")
                            continue
                        res.add_case(_case_repr(spec, case), nontrivial=nontrivial)
                        for clause, func, text in diffs:
                            res.violations.append(Violation(prop, clause, func, _witness(spec, case), clip(text)))
                        if case[0] == "visit" and view.obs(tree) != before:
                            # a traversal that writes the tree: reported at once, and the next case gets a fresh tree (the damage
                            # would otherwise accumulate over the cases of this tree)
                            res.violations.append(Violation(prop, CL_FRAME, "Node.visit", _witness(spec, case), clip(f"view.obs(tree) differs after {case}: {view.fmt(tree)}")))
                            tree, nodes = gen.build(spec)
                            before = view.obs(tree)
                except _Timeout:
                    res.violations.append(
                        Violation(prop, CL_TERM, "Node.iterator/Node.visit", _witness(spec, case or ("for", -1)), f"no result within {per_tree_timeout}s (all cases of the tree)")
                    )
                    if _BREAKER is not None:
                        with _BREAKER.get_lock():
                            _BREAKER.value += 1
                    continue
                finally:
                    signal.setitimer(signal.ITIMER_REAL, 0)
                if view.obs(tree) != before:
                    res.violations.append(Violation(prop, CL_FRAME, "Node.iterator/Node.visit", _witness(spec, ("for", -1)), "view.obs(tree) differs after the traversals"))
    finally:
        signal.signal(signal.SIGALRM, old)
    return res


# ------------------------------------------------------------------ inputs
def _greedy_labels(pv):
    """Clone-rich labeling: every node gets the smallest label of a,b,c,... not used by an
    elder sibling (so every first child is a clone of 'a')."""
    labs = []
    for i, p in enumerate(pv):
        used = {labs[j] for j in range(i) if pv[j] == p}
        k = 0
        while _lab(k) in used:
            k += 1
        labs.append(_lab(k))
    return labs


def _lab(k):
    return "abcdefghijklmnopqrstuvwxyz"[k] if k < 26 else f"z{k}"


def specs_for(max_n):
    """Every ordered forest with <= max_n nodes in three dressings: pairwise distinct data,
    clone-rich data, typed tree with alternating kinds."""
    out = []
    for n in range(0, max_n + 1):
        for pv in gen.forests(n):
            out.append(gen.Spec(tuple((pv[i], f"n{i}", None, None) for i in range(n))))
            if n >= 2:
                g = _greedy_labels(pv)
                out.append(gen.Spec(tuple((pv[i], g[i], None, None) for i in range(n))))
                out.append(gen.Spec(tuple((pv[i], g[i], None, gen.KINDS[i % 2]) for i in range(n)), typed=True))
    out += list(gen.eqpair_specs(min(max_n, 4)))  # equal data under distinct data_ids, also as siblings: nodes are told apart by identity only
    return out


def random_specs(count, lo, hi, base):
    out = []
    for k in range(count):
        rng = random.Random(base + k)
        out.append(gen.random_spec(rng, rng.randint(lo, hi), alphabet=("a", "b", "c", "d")))
    return out


def run(prop: str, tier: str, only=None) -> Result:
    max_n = 6 if tier == "quick" else 8
    n_rand = 64 if tier == "quick" else 1500
    specs = specs_for(max_n)
    # biggest trees first so that the chunks are balanced
    rnd = random_specs(n_rand, 7, 9, seed() * 1_000_003 + 606)
    n_hist = 3 if tier == "quick" else 4
    hst = gen.history_specs(specs_for(n_hist))  # trees reached by one change of a tree whose accessors had all been evaluated
    big = gen.big_specs(seed() + 6, 12 if tier == "quick" else 60, lo=18, hi=40)  # size-dependent paths (long sibling runs / chains)
    total = Result(prop)
    global _BREAKER
    import multiprocessing as mp

    _BREAKER = mp.get_context("fork").Value("i", 0)
    total.merge(parallel(_run_chunk, sorted(specs + rnd + hst + big, key=len, reverse=True), prop, 30.0, prop=prop, chunks_per_proc=8))
    total.exhaustive = False  # the random trees are sampled; the part below the bound is exhaustive
    b = (
        f"every ordered forest with <= {max_n} nodes (distinct data / clone-rich labels / typed tree with kinds k1,k2; equal data under distinct ids <= 4 nodes) "
        f"+ {n_rand} seeded random trees with 7..9 nodes over {{a,b,c,d}} (VERIF_SEED={seed()}) + {len(big)} seeded larger trees with 18..40 nodes (long sibling runs / chains / mixed) "
        f"+ {len(hst)} histories (every tree of <= {n_hist} nodes: all accessors evaluated once, then one of remove / remove(keep_children) / move_to / add / remove_children / sort_children / deep copy; the traversals run on the resulting tree); "
        "every start node and the Tree object"
    )
    total.bounds["Node.iterator / Tree.iterator / __iter__"] = b + "; all 6 ordered IterMethods x add_self on/off; UNORDERED, RANDOM_ORDER on the tree"
    total.bounds["Node.visit / Tree.visit"] = (
        b + "; PRE_ORDER, POST_ORDER, LEVEL_ORDER x add_self on/off x memo passed/defaulted; every single node of the visited sequence "
        f"x {len(SIGNALS)} spellings of skip/stop (class/instance/value, returned/raised, False, StopIteration)"
    )
    return total


def replay(witness: dict, prop: str):
    spec = spec_from_json(witness["spec"])
    case = tuple(witness["case"])
    tree, nodes = gen.build(spec)
    old = signal.signal(signal.SIGALRM, _alarm)
    signal.setitimer(signal.ITIMER_REAL, 60.0)
    try:
        with warnings.catch_warnings():
            warnings.simplefilter("ignore")
            diffs, _ = eval_case(tree, nodes, case)
    except _Timeout:
        return [(CL_TERM, "no result within 60s")]
    finally:
        signal.setitimer(signal.ITIMER_REAL, 0)
        signal.signal(signal.SIGALRM, old)
    return [(c, t) for c, _f, t in diffs]
