"""C12 -- the native file format follows its documented layout, both ways (bounded tier).

(a) writer:  tree.save(StringIO, key_map=, value_map=, meta=) on the real code; the JSON document is
    checked against the layout documented in docs/sphinx/ug_serialize.rst, using an *independent
    encoder* of that layout (below, `encode_nodes`; written from the guide, not from nutree's code):
      header  "$generator" starts with "nutree/", "$format_version" == "1.0", "$key_map"/"$value_map"
              present iff non-empty and equal to what was requested (documented class defaults for
              True; for a TypedTree the value map gains "kind": <distinct kinds>), user meta merged;
      nodes   one entry per node in pre-order, entry = [parent_idx, payload], parent_idx = 1-based
              position of the parent's entry (0 = root); a repeated occurrence of a data_id whose kind
              equals that of the FIRST occurrence is only the integer position of the first occurrence
              (and nothing else is an integer); a plain string without custom id in a plain Tree is a
              bare string; otherwise a dict {"str"?, "data_id"?, "kind"?, mapper fields} whose keys and
              values are shortened exactly as the header maps declare (and not otherwise).
(b) reader:  documents produced by the independent encoder for every small tree x header variants
    (no maps / documented default key map / other short names; value lists in arbitrary order with
    unused values; older generator version; extra user meta) are loaded through StringIO with
    Tree.load / TypedTree.load / derived classes and compared with the tree the document describes
    (derived from the enumerated spec alone); the literal example documents of the user guide are
    loaded and compared with the trees the guide shows; malformed headers must raise RuntimeError.
"""
from __future__ import annotations

import copy
import io
import json
import traceback
from dataclasses import dataclass

from nutree import Tree
from nutree.common import DictWrapper
from nutree.fs import FileSystemEntry
from nutree.typed_tree import TypedTree

from .. import gen, view
from ..harness import Result, Violation, clip, parallel, seed
from . import c05
from .c05 import FAMILIES, Ent, Family, Rec, describe, desc_from_spec, render, time_limit, _Timeout, _Keep, fold_counts
from .mut import _spec_json, spec_from_json

# ---------------------------------------------------------------- documented defaults (ug_serialize.rst, "Compact Format")
DOC_KEY_MAP = {
    "str": {"data_id": "i", "str": "s"}, "strcb": {"data_id": "i", "str": "s"},
    "rec": {"data_id": "i", "str": "s"}, "dw": {"data_id": "i", "str": "s"},
    "typed": {"data_id": "i", "str": "s", "kind": "k"}, "typedcb": {"data_id": "i", "str": "s", "kind": "k"},
    "rectyped": {"data_id": "i", "str": "s", "kind": "k"},
    "recpop": {"data_id": "i", "str": "s"}, "recpoptyped": {"data_id": "i", "str": "s", "kind": "k"},
    "reckind": {"data_id": "i", "str": "s", "kind": "k"}, "labtyped": {"data_id": "i", "str": "s", "kind": "k"}, "lab": {"data_id": "i", "str": "s"},
    "recnest": {"data_id": "i", "str": "s"}, "recshort": {"data_id": "i", "str": "s"},
    "derived": {"data_id": "i", "str": "s", "type": "t", "name": "n", "size": "z"},  # c05.RecTree.DEFAULT_KEY_MAP
    "derivedtyped": {"data_id": "i", "str": "s", "kind": "k", "type": "t", "name": "n"},  # c05.EntTypedTree.DEFAULT_KEY_MAP
    "fs": {},
}
DOC_VALUE_MAP = {"derived": {"type": ["rec", "other"]}, "derivedtyped": {"type": ["ent", "dept"]}}  # others: no default


# ---------------------------------------------------------------- node records
def long_payload(fam: Family, obj, custom_id: bool, data_id, kind):
    """The un-shortened payload the documented layout prescribes for one node:
    a bare string, or a dict with 'str' (string data), 'data_id' (only if custom), 'kind' (typed
    trees) and the fields the serialize mapper contributes."""
    if type(obj) is str and not custom_id and not fam.typed:
        return obj
    d = {}
    if type(obj) is str:
        d["str"] = obj
    if custom_id:
        d["data_id"] = data_id
    if fam.typed:
        d["kind"] = kind
    if fam.name in ("lab", "labtyped"):
        d["str"] = obj.text
    elif fam.name == "reckind":
        d.update({"name": obj.name, "size": obj.size})
    elif fam.name == "recnest":
        d.update({"type": "rec", "name": obj.name, "size": obj.size, "attrs": {"s": obj.size, "i": obj.name, "str": "v", "k": [obj.size, {"s": 1}]}})
    elif fam.name == "recshort":
        d.update({"t": "rec", "i": obj.name, "s": obj.size, "k": True})
    elif isinstance(obj, Rec):
        d.update({"type": "rec", "name": obj.name, "size": obj.size})
    elif isinstance(obj, Ent):
        d.update({"type": "ent", "name": obj.name})
    elif isinstance(obj, DictWrapper):
        d.update(obj._dict)
    elif isinstance(obj, FileSystemEntry):
        d.update({"n": obj.name, "d": True} if obj.is_dir else {"n": obj.name, "s": obj.size, "m": obj.mdate})
    return d


def recs_from_spec(fam: Family, spec: gen.Spec):
    """[(parent_pos, long payload, group key, kind)] in pre-order, from the spec alone."""
    mk = fam.mk()
    out = []
    for p, lab, did, kind in spec.nodes:
        obj = mk(lab)
        if did is not None:
            custom, the_id, key = True, did, ("I", did)
        elif fam.guid:
            custom, the_id, key = True, obj.guid, ("I", obj.guid)
        else:
            custom, the_id, key = False, None, ("L", lab)
        k = kind if fam.typed else None
        out.append((p, long_payload(fam, obj, custom, the_id, k), key, k))
    return out


def recs_from_tree(fam: Family, tree):
    """Same records, read from the raw slots of the real tree."""
    out = []

    def walk(node, p):
        for c in view.kids(node):
            i = len(out)
            try:
                custom = c._data_id != hash(c._data)
            except TypeError:
                custom = True
            k = getattr(c, "_kind", None)
            out.append((p, long_payload(fam, c._data, custom, c._data_id, k), (type(c._data_id).__name__, c._data_id), k))
            walk(c, i)

    walk(tree._root, -1)
    return out


# ---------------------------------------------------------------- the independent encoder / decoder
def shorten(payload, key_map: dict, value_map: dict):
    if isinstance(payload, str):
        return payload
    out = {}
    for k, v in payload.items():
        if k in value_map:
            v = value_map[k].index(v)  # ValueError if the header's list lacks the value
        out[key_map.get(k, k)] = v
    return out


def unshorten(payload, key_map: dict, value_map: dict):
    if not isinstance(payload, dict):
        return payload
    inv = {v: k for k, v in key_map.items()}
    out = {}
    for k, v in payload.items():
        lk = inv.get(k, k)
        if lk in value_map and type(v) is int and 0 <= v < len(value_map[lk]):
            v = value_map[lk][v]
        out[lk] = v
    return out


def encode_nodes(recs, key_map: dict, value_map: dict) -> list:
    """Node list of the documented layout."""
    first = {}  # group key -> (1-based position, kind) of the first occurrence
    nodes = []
    for pos, (p, payload, key, kind) in enumerate(recs, 1):
        if key in first and first[key][1] == kind:
            nodes.append([p + 1, first[key][0]])
            continue
        first.setdefault(key, (pos, kind))
        nodes.append([p + 1, shorten(payload, key_map, value_map)])
    return nodes


# ---------------------------------------------------------------- clauses
W_DOC = "writer: document is {'meta': {...}, 'nodes': [...]}"
W_GEN = "writer: header '$generator' starts with 'nutree/' and '$format_version' == '1.0'"
W_KEYMAP = "writer: header '$key_map' present iff non-empty and equal to the requested/documented map"
W_VALMAP = "writer: header '$value_map' present iff non-empty and equal to the requested/documented map"
W_META = "writer: user meta merged into the header"
W_COUNT = "writer: one entry [parent_idx, payload] per node, in pre-order"
W_PARENT = "writer: parent_idx == 1-based position of the parent's entry (0 = root)"
W_REF = "writer: repeated occurrence with the kind of the first occurrence is stored only as that occurrence's position"
W_NOREF = "writer: only a repeated occurrence with the kind of the first occurrence is stored as an integer"
W_BARE = "writer: plain string without custom id in a plain Tree is stored as a bare string"
W_SHORT = "writer: keys/values shortened exactly as the header maps declare"
W_PAYLOAD = "writer: payload carries str / custom data_id / kind / mapper fields"
W_EXC = "writer: save() raises no exception"
R_EXC = "reader: load() of a document in the documented layout raises no exception"
R_TREE = "reader: load() returns the tree the document describes"
R_META = "reader: file_meta receives the header"
R_MAPPER = "reader: the deserialize mapper is called exactly once per dict entry, with a dict (bare strings and references are not mapped)"
R_EXAMPLE = "reader: user-guide example loads into the tree the guide shows"
R_REJECT = "reader: JSON without the nutree header raises RuntimeError"
R_REJECT_ANY = "reader: JSON with a malformed 'meta' member is rejected"
TIMEOUT = "save()/load() terminates"

USER_META = {"foo": "bar", "n": [1, {"k": None}], "ü": "€", "$schema": "urn:x", "$comment": None}
RESERVED_META = ("$generator", "$format_version", "$key_map", "$value_map")


# ---------------------------------------------------------------- (a) writer
def requested_maps(fam: Family, labels, km: str, vm: str):
    """(key_map argument, value_map argument, expected header key_map, expected header value_map w/o kinds)."""
    k_arg = copy.deepcopy(fam.key_maps()[km])
    v_arg = copy.deepcopy(fam.value_maps(labels)[vm])
    k_exp = DOC_KEY_MAP[fam.name] if k_arg is True else ({} if k_arg is False else dict(k_arg))
    if v_arg is True:
        v_exp = copy.deepcopy(DOC_VALUE_MAP.get(fam.name, {}))
    elif v_arg is False:
        v_exp = {}
    else:
        v_exp = copy.deepcopy(v_arg)
    return k_arg, v_arg, k_exp, v_exp


def check_writer(fam: Family, tree, labels, opts) -> list:
    km, vm, metaname = opts
    k_arg, v_arg, k_exp, v_exp = requested_maps(fam, labels, km, vm)
    meta = copy.deepcopy(USER_META) if metaname in ("meta", "filemeta") else None
    if metaname == "filemeta":
        meta = {"$generator": "nutree/0.0.1", "$format_version": "0.1", "$key_map": {"data_id": "i", "str": "s", "stale": "x"}, "$value_map": {"kind": ["stale1", "stale2"], "stale": ["y"]}, **meta}
    kw = dict(key_map=k_arg, value_map=v_arg, meta=meta)
    if fam.save_mapper is not None:
        kw["mapper"] = fam.save_mapper
    if meta is not None:
        # the caller's metadata dict has a history: it was already handed to an earlier save() of the same tree with the
        # default maps switched on.  The document under test must declare the maps *its* entries were written with.
        try:
            with time_limit(10):
                tree.save(io.StringIO(), **{k: v for k, v in kw.items() if k not in ("key_map", "value_map")})
        except BaseException:  # noqa: BLE001  (the earlier call is history, not the case under test)
            pass
    buf = io.StringIO()
    try:
        with time_limit(10):
            tree.save(buf, **kw)
    except _Timeout:
        return [(TIMEOUT, "save() did not return within 10 s")]
    except Exception as e:  # noqa: BLE001
        return [(W_EXC, f"save() raised {type(e).__name__}: {clip(str(e), 200)}")]
    text = buf.getvalue()
    try:
        doc = json.loads(text)
    except ValueError as e:
        return [(W_DOC, f"output is not JSON ({e}): {clip(text, 200)}")]
    if not (isinstance(doc, dict) and isinstance(doc.get("meta"), dict) and isinstance(doc.get("nodes"), list)):
        return [(W_DOC, f"document {clip(text, 200)}")]
    diffs = []
    head = doc["meta"]
    g = head.get("$generator")
    if not (isinstance(g, str) and g.startswith("nutree/")) or head.get("$format_version") != "1.0":
        diffs.append((W_GEN, f"header {clip(head, 200)}"))
    # key map
    if k_exp:
        if head.get("$key_map") != k_exp:
            diffs.append((W_KEYMAP, f"$key_map {head.get('$key_map')!r}, expected {k_exp!r}"))
    elif "$key_map" in head:
        diffs.append((W_KEYMAP, f"$key_map {head['$key_map']!r} present although no key map is in use"))
    # value map (typed trees: 'kind' list = distinct kinds, any order, unless the caller supplied one)
    recs = recs_from_tree(fam, tree)
    h_vm = head.get("$value_map")
    vm_ok = True
    if fam.typed and v_arg is not False and "kind" not in v_exp:
        kinds = {r[3] for r in recs}
        got_k = h_vm.get("kind") if isinstance(h_vm, dict) else None
        if got_k is None and not kinds and (h_vm is None or isinstance(h_vm, dict)):
            got_k = []
        if not isinstance(got_k, list) or len(set(got_k)) != len(got_k) or set(got_k) != kinds:
            diffs.append((W_VALMAP, f"$value_map['kind'] = {got_k!r}, expected the distinct kinds {sorted(kinds)}"))
            vm_ok = False
        rest = {k: v for k, v in h_vm.items() if k != "kind"} if isinstance(h_vm, dict) else ({} if h_vm is None else h_vm)
        if rest != v_exp:
            diffs.append((W_VALMAP, f"$value_map {h_vm!r}, expected {v_exp!r} + 'kind'"))
            vm_ok = False
    elif v_exp:
        if h_vm != v_exp:
            diffs.append((W_VALMAP, f"$value_map {h_vm!r}, expected {v_exp!r}"))
            vm_ok = False
    elif "$value_map" in head:
        diffs.append((W_VALMAP, f"$value_map {h_vm!r} present although no value map is in use"))
        vm_ok = False
    # user meta
    user = {k: v for k, v in head.items() if k not in RESERVED_META}
    if user != (USER_META if meta else {}):
        diffs.append((W_META, f"non-$ header keys {clip(user, 150)} != meta {clip(meta, 150)}"))
    # node list: decode with the maps the header declares
    h_km = head.get("$key_map", {}) if isinstance(head.get("$key_map", {}), dict) else {}
    h_vm = h_vm if isinstance(h_vm, dict) else {}
    try:
        want = encode_nodes(recs, h_km, h_vm)
    except ValueError as e:
        if vm_ok:
            diffs.append((W_VALMAP, f"header value map {h_vm!r} lacks a value in use ({e})"))
        return diffs
    got = doc["nodes"]
    diffs += diff_nodes(got, want, h_km, h_vm, text)
    return diffs


def diff_nodes(got: list, want: list, key_map, value_map, text) -> list:
    if got == want:
        return []
    if len(got) != len(want):
        return [(W_COUNT, f"{len(got)} entries for {len(want)} nodes: {clip(text, 240)}")]
    for i, (g, w) in enumerate(zip(got, want), 1):
        if g == w:
            continue
        where = f"entry #{i} is {g!r}, documented layout gives {w!r}; document nodes: {clip(json.dumps(got, ensure_ascii=False), 200)}"
        if not (isinstance(g, list) and len(g) == 2):
            return [(W_COUNT, where)]
        if g[0] != w[0]:
            return [(W_PARENT, where)]
        gi, wi = type(g[1]) is int, type(w[1]) is int
        if wi and not gi:
            return [(W_REF, where)]
        if wi and gi:
            return [(W_REF, where + " (wrong position)")]
        if gi:
            return [(W_NOREF, where)]
        if isinstance(w[1], str):
            return [(W_BARE, where)]
        if isinstance(g[1], str):
            return [(W_PAYLOAD, where)]
        if unshorten(g[1], key_map, value_map) == unshorten(w[1], key_map, value_map):
            return [(W_SHORT, where)]
        return [(W_PAYLOAD, where)]
    return []


# ---------------------------------------------------------------- (b) reader
def header_variants(fam: Family, labels):
    """(name, key_map, value_map) header variants of documents 'written by other means'."""
    customs = fam.value_maps(labels)
    vm_custom = copy.deepcopy(customs["custom"])
    kinds_vm = {"kind": ["k2", "unused", "", "k1"]} if fam.typed else {}
    other_short = {k: "_" + v.upper() for k, v in DOC_KEY_MAP[fam.name].items()} or dict(fam.key_custom)
    return [
        ("plain", {}, {}),
        ("defkeys", dict(DOC_KEY_MAP[fam.name]), {}),
        ("defkeys+kinds", dict(DOC_KEY_MAP[fam.name]), kinds_vm),
        ("custkeys+vals", dict(fam.key_custom), {**kinds_vm, **vm_custom}),
        ("otherkeys+vals", other_short, vm_custom),
        ("vals", {}, {**vm_custom, **kinds_vm}),
    ] + ([("plain-tree layout", {}, {}), ("plain-tree layout+defkeys", dict(DOC_KEY_MAP[fam.name]), {})] if fam.typed and type(fam.mk()("a")) is str else [])


def _plain_twin(fam: Family):
    """the same family writing the *plain-tree* layout (no kinds; bare strings where possible): what Tree.save or an
    independent encoder for plain trees produces, and a TypedTree must still load (all kinds default to 'child')"""
    f2 = copy.copy(fam)
    f2.typed = False
    return f2


def make_doc(fam: Family, spec: gen.Spec, variant) -> dict:
    name, key_map, value_map = variant
    if name.startswith("plain-tree layout"):
        fam = _plain_twin(fam)
    head = {"$generator": "nutree/0.5.1" if name in ("plain", "vals") else "nutree/9.9.9-other", "$format_version": "1.0"}
    if key_map:
        head["$key_map"] = key_map
    if value_map:
        head["$value_map"] = value_map
    head["foo"] = "bar"
    return {"meta": head, "nodes": encode_nodes(recs_from_spec(fam, spec), key_map, value_map)}


def expected_of_doc(fam: Family, spec: gen.Spec, doc: dict, variant=None):
    exp = desc_from_spec(fam, spec)
    if variant is not None and variant[0].startswith("plain-tree layout"):
        exp.kinds = ["child" for _ in exp.kinds]
    # a clone group shares ONE object iff all later members are integer references
    refs = [type(e[1]) is int for e in doc["nodes"]]
    exp.shared = tuple(all(refs[i] for i in g[1:]) for g in exp.groups)
    return exp


def check_reader(fam: Family, spec: gen.Spec, variant) -> list:
    doc = make_doc(fam, spec, variant)
    text = json.dumps(doc, ensure_ascii=(len(spec) % 2 == 0))
    exp = expected_of_doc(fam, spec, doc, variant)
    file_meta = {}
    kw = dict(file_meta=file_meta)
    calls = []
    if fam.load_mapper is not None:
        def counting(parent, data, _m=fam.load_mapper):
            calls.append(type(data).__name__)
            return _m(parent, data)

        kw["mapper"] = counting
    try:
        with time_limit(10):
            loaded = fam.load_cls.load(io.StringIO(text), **kw)
    except _Timeout:
        return [(TIMEOUT, "load() did not return within 10 s")]
    except Exception as e:  # noqa: BLE001
        return [(R_EXC, f"{fam.load_cls.__name__}.load() raised {type(e).__name__}: {clip(str(e), 160)} for document {clip(text, 220)}")]
    diffs = []
    if type(loaded) is not fam.load_cls:
        diffs.append((R_TREE, f"{fam.load_cls.__name__}.load() returned a {type(loaded).__name__}"))
    try:
        got = describe(loaded)
    except RuntimeError as e:
        return diffs + [(R_TREE, str(e))]
    wf = view.wf_violations(loaded)
    if wf:
        diffs.append((R_TREE, "loaded tree is not well-formed: " + "; ".join(wf)))
    for clause, t in c05.compare(exp, got):
        diffs.append((R_TREE, f"{clause}: {t}; document nodes {clip(json.dumps(doc['nodes'], ensure_ascii=False), 200)}"))
    n_dicts = sum(1 for e in doc["nodes"] if isinstance(e[1], dict))
    if fam.load_mapper is not None and (len(calls) != n_dicts or any(c != "dict" for c in calls)):
        diffs.append((R_MAPPER, f"mapper called {len(calls)} times with {sorted(set(calls))}, the document has {n_dicts} dict entries among {len(doc['nodes'])}; nodes {clip(json.dumps(doc['nodes'], ensure_ascii=False), 200)}"))
    # the same document again, this time handing in a file_meta dict that still holds the header of an earlier file (a caller
    # re-using one dict): the document must be read by *its own* header
    stale = {"$generator": "nutree/0.0.1", "$format_version": "1.0", "$key_map": {"str": "data_id", "kind": "str", "name": "type"},
             "$value_map": {"data_id": ["q0", "q1", "q2", "q3", "q4", "q5", "q6", "q7", "q8"], "size": ["s0", "s1", "s2", "s3", "s4", "s5"]}, "left over": 1}
    kw2 = dict(kw, file_meta=copy.deepcopy(stale))
    try:
        with time_limit(10):
            again = fam.load_cls.load(io.StringIO(text), **kw2)
        got2 = describe(again)
        if got2.sig() != got.sig():
            diffs.append((R_TREE, f"with a re-used file_meta dict (header of an earlier file still in it) the same document loads differently: {clip(c05.compare(got, got2)[:2], 200)}"))
    except Exception as e:  # noqa: BLE001
        diffs.append((R_EXC, f"with a re-used file_meta dict the same document raised {type(e).__name__}: {clip(str(e), 120)}"))
    if file_meta != doc["meta"]:
        diffs.append((R_META, f"file_meta {clip(file_meta, 150)} != header {clip(doc['meta'], 150)}"))
    return diffs


# ---------------------------------------------------------------- user-guide examples (docs/sphinx/ug_serialize.rst)
# Literal copies.  The second document is printed in the guide with a trailing comma after
# '"$format_version": "1.0"' (not valid JSON); the comma is dropped here.
EXAMPLE_PLAIN = """
{
    "meta": {
        "$generator": "nutree/0.5.1",
        "$format_version": "1.0",
        "foo": "bar"
    },
    "nodes": [
        [0, "A"],
        [1, "a1"],
        [2, "a11"],
        [2, "a12"],
        [1, "a2"],
        [0, "B"],
        [6, 3],
        [6, "b1"],
        [8, "b11"]
    ]
}
"""
EXAMPLE_OBJECTS = """
{
    "meta": {
        "$generator": "nutree/0.5.1",
        "$format_version": "1.0"
    },
    "nodes": [
        [0, { "type": "dept", "name": "Development" }],
        [1, { "type": "person", "name": "Alice", "age": 23, "guid": "{123-456}" }],
        [1, { "type": "person", "name": "Bob", "age": 32, "guid": "{234-456}" }],
        [1, { "type": "person", "name": "Charleen", "age": 43, "guid": "{345-456}" }],
        [0, { "type": "dept", "name": "Marketing" }],
        [5, 4],
        [5, { "type": "person", "name": "Dave", "age": 54, "guid": "{456-456}" }]
    ]
}
"""
EXAMPLE_KEY_MAP = """
{
    "meta": {
        "$generator": "nutree/0.7.0",
        "$format_version": "1.0",
        "$key_map": { "type": "t", "name": "n", "age": "a", "guid": "g" }
    },
    "nodes": [
        [0, { "t": "dept", "n": "Development" }],
        [1, { "t": "person", "n": "Alice", "a": 23, "g": "{123-456}" }],
        [1, { "t": "person", "n": "Bob", "a": 32, "g": "{234-456}" }],
        [1, { "t": "person", "n": "Charleen", "a": 43, "g": "{345-456}" }],
        [0, { "t": "dept", "n": "Marketing" }],
        [5, 4],
        [5, { "t": "person", "n": "Dave", "a": 54, "g": "{456-456}" }]
    ]
}
"""
EXAMPLE_VALUE_MAP = """
{
    "meta": {
        "$generator": "nutree/0.7.0",
        "$format_version": "1.0",
        "$key_map": { "type": "t", "name": "n", "age": "a", "guid": "g" },
        "$value_map": { "type": ["dept", "person"] }
    },
    "nodes": [
        [0, { "t": 0, "n": "Development" }],
        [1, { "t": 1, "n": "Alice", "a": 23, "g": "{123-456}" }],
        [1, { "t": 1, "n": "Bob", "a": 32, "g": "{234-456}" }],
        [1, { "t": 1, "n": "Charleen", "a": 43, "g": "{345-456}" }],
        [0, { "t": 0, "n": "Marketing" }],
        [5, 4],
        [5, { "t": 1, "n": "Dave", "a": 54, "g": "{456-456}" }]
    ]
}
"""


@dataclass(frozen=True)
class Person:
    name: str
    age: int
    guid: str


@dataclass(frozen=True)
class Department:
    name: str


def guide_deserialize_mapper(parent, data):  # the guide's mapper
    node_type = data["type"]
    if node_type == "person":
        data = Person(name=data["name"], age=data["age"], guid=data["guid"])
    elif node_type == "dept":
        data = Department(name=data["name"])
    return data


def _guide_desc(parents, objs, groups):
    d = c05.Desc()
    d.parents = parents
    d.data = [c05.datakey(o) for o in objs]
    d.ids = [("H",)] * len(objs)
    d.kinds = [None] * len(objs)
    d.groups = tuple(sorted(groups))
    d.shared = tuple(True for _ in d.groups)
    return d


def guide_expectations():
    """(name, document text, mapper, expected description, expected user meta)."""
    plain = _guide_desc(
        [-1, 0, 1, 1, 0, -1, 5, 5, 7],
        ["A", "a1", "a11", "a12", "a2", "B", "a11", "b1", "b11"],
        [(0,), (1,), (2, 6), (3,), (4,), (5,), (7,), (8,)],
    )
    ch = Person("Charleen", 43, "{345-456}")
    company = _guide_desc(
        [-1, 0, 0, 0, -1, 4, 4],
        [Department("Development"), Person("Alice", 23, "{123-456}"), Person("Bob", 32, "{234-456}"), ch, Department("Marketing"), ch, Person("Dave", 54, "{456-456}")],
        [(0,), (1,), (2,), (3, 5), (4,), (6,)],
    )
    return [
        ("plain string nodes", EXAMPLE_PLAIN, None, plain, {"foo": "bar"}),
        ("arbitrary objects", EXAMPLE_OBJECTS, guide_deserialize_mapper, company, {}),
        ("compact format: key_map", EXAMPLE_KEY_MAP, guide_deserialize_mapper, company, {}),
        ("compact format: key_map + value_map", EXAMPLE_VALUE_MAP, guide_deserialize_mapper, company, {}),
    ]


def check_example(idx: int) -> list:
    name, text, mapper, exp, user = guide_expectations()[idx]
    fm = {}
    kw = dict(file_meta=fm)
    if mapper:
        kw["mapper"] = mapper
    try:
        with time_limit(10):
            loaded = Tree.load(io.StringIO(text), **kw)
    except Exception as e:  # noqa: BLE001
        return [(R_EXAMPLE, f"example '{name}': Tree.load raised {type(e).__name__}: {clip(str(e), 200)}")]
    diffs = []
    if type(loaded) is not Tree:
        diffs.append((R_EXAMPLE, f"example '{name}': result is a {type(loaded).__name__}"))
    got = describe(loaded)
    for clause, t in c05.compare(exp, got):
        diffs.append((R_EXAMPLE, f"example '{name}': {clause}: {t}"))
    if {k: v for k, v in fm.items() if k not in RESERVED_META} != user or "$generator" not in fm:
        diffs.append((R_EXAMPLE, f"example '{name}': file_meta {fm!r}"))
    return diffs


# ---------------------------------------------------------------- malformed headers
MALFORMED = [  # (name, JSON text)  -- all must raise RuntimeError
    ("not a dict: list", "[]"),
    ("not a dict: list of pairs", '[[0, "a"]]'),
    ("not a dict: string", '"nutree/1.0"'),
    ("not a dict: number", "3"),
    ("not a dict: null", "null"),
    ("not a dict: true", "true"),
    ("empty dict", "{}"),
    ("no meta", '{"nodes": [[0, "a"]]}'),
    ("no nodes", '{"meta": {"$generator": "nutree/1.0", "$format_version": "1.0"}}'),
    ("no $generator", '{"meta": {"$format_version": "1.0"}, "nodes": []}'),
    ("empty meta", '{"meta": {}, "nodes": [[0, "a"]]}'),
    ("generator of another tool", '{"meta": {"$generator": "other/1.0", "$format_version": "1.0"}, "nodes": []}'),
    ("generator without slash", '{"meta": {"$generator": "nutree", "$format_version": "1.0"}, "nodes": []}'),
    ("generator empty", '{"meta": {"$generator": ""}, "nodes": []}'),
    ("generator number", '{"meta": {"$generator": 7}, "nodes": []}'),
    ("generator null", '{"meta": {"$generator": null}, "nodes": []}'),
    ("generator key misspelled", '{"meta": {"generator": "nutree/1.0"}, "nodes": []}'),
]
MALFORMED_META = [  # 'meta' is not an object: must be rejected (the kind of exception is not pinned)
    ("meta null", '{"meta": null, "nodes": []}'),
    ("meta number", '{"meta": 5, "nodes": []}'),
    ("meta string", '{"meta": "$generator nutree/1.0", "nodes": []}'),
    ("meta list", '{"meta": ["$generator"], "nodes": []}'),
]


def check_malformed(cls, name, text, strict=True, file_meta=None) -> list:
    try:
        with time_limit(10):
            t = cls.load(io.StringIO(text)) if file_meta is None else cls.load(io.StringIO(text), file_meta=file_meta)
    except RuntimeError:
        return []
    except Exception as e:  # noqa: BLE001
        if strict:
            return [(R_REJECT, f"{cls.__name__}.load({name}: {text}) raised {type(e).__name__}: {clip(str(e), 120)} instead of RuntimeError")]
        return []
    return [(R_REJECT if strict else R_REJECT_ANY, f"{cls.__name__}.load({name}: {text}) returned {t!r} instead of raising")]


# ---------------------------------------------------------------- enumeration / driver
def case_list(tier: str):
    # C05's trees, without the DictWrapper trees that carry explicit ids (their mapper replaces the
    # entry dict; that loss is charged to C05)
    return [(f, s) for f, s in c05.case_list(tier) if not (f == "dw" and any(r[2] is not None for r in s.nodes))]


def writer_opts(fam: Family):
    # "filemeta": the user metadata is the `file_meta` dict of an earlier load() -- it also holds the *reserved* entries of
    # that other document (generator, version, its key / value maps), which must not shadow the ones of this document
    return [(k, v, m) for k in fam.km_names for v in fam.value_map_names() for m in ("none", "meta", "filemeta")]


def func_w(fam):
    return ("TypedTree" if fam.typed else "Tree") + ".save / Node.to_list_iter"


def func_r(fam):
    return fam.load_cls.__name__ + ".load / _from_list"


def _chunk(chunk, prop):
    res = Result(prop)
    keep = _Keep()
    for famname, spec in chunk:
        fam = FAMILIES[famname]
        labels = tuple(r[1] for r in spec.nodes) or ("a",)
        try:
            tree, _ = c05.build(fam, spec)
            if describe(tree).sig() != desc_from_spec(fam, spec).sig():
                res.errors.append(f"precondition: built tree is not the tree of spec {famname} {spec.short()}")
                continue
            for opts in writer_opts(fam):
                diffs = check_writer(fam, tree, labels, opts)
                res.add_case(f"W {famname} {spec.short()} :: {'/'.join(opts)}", nontrivial=len(spec) > 0)
                for clause, text in diffs:
                    w = {"part": "writer", "family": famname, "spec": _spec_json(spec), "opts": list(opts), "clause": clause}
                    keep.add(Violation(prop, clause, func_w(fam), w, clip(f"[{famname}] {spec.short()} with {'/'.join(opts)}: {text}")), len(spec))
            own_keys = {k for r in recs_from_spec(fam, spec) if isinstance(r[1], dict) for k in r[1]}
            for variant in header_variants(fam, labels):
                if any(code in own_keys and variant[1].get(code) != code for code in variant[1].values()):
                    continue  # the header would declare a code that is also one of the entries' own (long) keys: ambiguous by design
                diffs = check_reader(fam, spec, variant)
                res.add_case(f"R {famname} {spec.short()} :: {variant[0]}", nontrivial=len(spec) > 0)
                for clause, text in diffs:
                    w = {"part": "reader", "family": famname, "spec": _spec_json(spec), "variant": variant[0], "clause": clause}
                    keep.add(Violation(prop, clause, func_r(fam), w, clip(f"[{famname}] {spec.short()} header variant {variant[0]}: {text}")), len(spec))
        except Exception:  # noqa: BLE001
            res.errors.append(f"{famname} {spec.short()}: {traceback.format_exc()[-900:]}")
    keep.flush(res)
    return res


def fixed_checks(prop: str) -> Result:
    res = Result(prop)
    try:
        for i in range(len(guide_expectations())):
            res.add_case(f"guide example {i}")
            for clause, text in check_example(i):
                res.violations.append(Violation(prop, clause, "Tree.load", {"part": "example", "index": i, "clause": clause}, clip(text)))
        for cls in (Tree, TypedTree):
            for strict, lst in ((True, MALFORMED), (False, MALFORMED_META)):
                for name, text in lst:
                    res.add_case(f"malformed {cls.__name__} {name}")
                    for clause, t in check_malformed(cls, name, text, strict):
                        w = {"part": "malformed", "cls": cls.__name__, "name": name, "text": text, "strict": strict, "clause": clause}
                        res.violations.append(Violation(prop, clause, f"{cls.__name__}.load", w, clip(t)))
                    # ... also when the caller's file_meta dict still holds a valid header from an earlier load
                    res.add_case(f"malformed {cls.__name__} {name} (re-used file_meta)")
                    for clause, t in check_malformed(cls, name, text, strict, file_meta={"$generator": "nutree/0.0.1", "$format_version": "1.0"}):
                        w = {"part": "malformed", "cls": cls.__name__, "name": name, "text": text, "strict": strict, "clause": clause, "stale_meta": True}
                        res.violations.append(Violation(prop, clause, f"{cls.__name__}.load", w, clip("[file_meta re-used from an earlier load] " + t)))
    except Exception:  # noqa: BLE001
        res.errors.append(traceback.format_exc()[-1200:])
    return res


def run(prop: str, tier: str, only=None) -> Result:
    cases = case_list(tier)
    res = parallel(_chunk, cases, prop, prop=prop, chunks_per_proc=8)
    res.merge(fixed_checks(prop))
    fold_counts(res)
    N = 4 if tier == "quick" else 5
    res.bounds["writer layout (save -> JSON vs. independent encoder of the documented layout)"] = (
        f"{len(cases)} trees (the C05 catalogue: plain/unicode/explicit-id/equal-data string trees <= {N} nodes, typed <= {N}, "
        f"object trees with callback, derived-class, DictWrapper and FileSystemTree mappers <= {N - 1}) x key_map{{default,off,custom}} x "
        f"value_map{{default,off,custom[,custom w/o kind]}} x meta{{None,dict}}, StringIO target; exhaustive"
    )
    res.bounds["reader (independently encoded documents -> load)"] = (
        "the same trees x 6 header variants (+ 2 for typed string families: the plain-tree layout without kinds and with bare strings, which a TypedTree loads with the default kind) (no maps, documented default key map, default keys + kind value list in other order with an unused value, "
        "custom keys + value lists, other short keys, value lists only); 4 literal user-guide documents; "
        f"{len(MALFORMED)} malformed headers (RuntimeError) + {len(MALFORMED_META)} malformed 'meta' members (any rejection) x {{Tree, TypedTree}}"
    )
    return res


def replay(witness: dict, prop: str) -> list:
    part = witness.get("part")
    want = witness.get("clause")
    if part == "example":
        diffs = check_example(witness["index"])
    elif part == "malformed":
        cls = {"Tree": Tree, "TypedTree": TypedTree}[witness["cls"]]
        diffs = check_malformed(cls, witness["name"], witness["text"], witness.get("strict", True), file_meta={"$generator": "nutree/0.0.1", "$format_version": "1.0"} if witness.get("stale_meta") else None)
    else:
        fam = FAMILIES[witness["family"]]
        spec = spec_from_json(witness["spec"])
        labels = tuple(r[1] for r in spec.nodes) or ("a",)
        if part == "writer":
            tree, _ = c05.build(fam, spec)
            diffs = check_writer(fam, tree, labels, tuple(witness["opts"]))
        else:
            variant = next(v for v in header_variants(fam, labels) if v[0] == witness["variant"])
            diffs = check_reader(fam, spec, variant)
    return [(c, t) for c, t in diffs if want is None or c == want]
