"""C10 -- relationship queries agree with the tree's actual shape (bounded tier).

Every read-only relationship query of Node / Tree is evaluated on the real code for every
node (and every ordered pair of nodes) of every enumerated tree and compared with the
answer computed from the raw parent/children structure only (`_parent`, `_children`,
object identity).  Trees: all labelled ordered forests up to a bound (labels repeat under
different parents -> clones, i.e. equal-comparing *nodes*), the `eqpair` variant (two
distinct nodes with equal data, possibly siblings), seeded random larger trees.
"""
from __future__ import annotations

import random
import signal
import traceback

from .. import gen, view
from ..harness import Result, Violation, clip, parallel, seed
from .mut import _spec_json, spec_from_json


class _Timeout(BaseException):
    pass


def _on_alarm(signum, frame):
    raise _Timeout()


class _Abort(Exception):
    """Raised inside a tree check after a time-out (the tree is abandoned)."""


# ------------------------------------------------------------------ small helpers
def _idx(lst, x):
    for i, y in enumerate(lst):
        if y is x:
            return i
    return None


def _same(a, b) -> bool:
    """Two sequences hold the same objects (identity) in the same order."""
    try:
        a = list(a)
    except TypeError:
        return False
    return len(a) == len(b) and all(x is y for x, y in zip(a, b))


def _r(x):
    """Short rendering of an observed / expected value with node identities."""
    if isinstance(x, (list, tuple)):
        return "[" + ", ".join(_r(y) for y in x) + "]"
    if hasattr(x, "_data") and hasattr(x, "_parent"):
        return _LBL.get(id(x), f"<foreign node {x._data!r}>")
    return repr(x)


_LBL: dict = {}


def _label_nodes(tree, nodes, prefix=""):
    _LBL[id(tree._root)] = prefix + "<root>"
    for i, n in enumerate(nodes):
        _LBL[id(n)] = f"{prefix}#{i}({n._data!r})"


class _Mark:
    def __repr__(self):
        return "<appended by the caller>"


class _Ctx:
    """Collects violations of one tree."""

    internal: set = frozenset()

    def __init__(self, prop, wit):
        self.prop = prop
        self.wit = wit
        self.out: list[Violation] = []
        self.current = "?"

    def bad(self, func, clause, text, **at):
        w = dict(self.wit)
        w.update(at)
        w["clause"] = clause
        w["func"] = func
        self.out.append(Violation(self.prop, clause, func, w, clip(text)))

    def call(self, func, fn, **at):
        """Run a library call that must not raise.  Returns (ok, value)."""
        self.current = func
        try:
            return True, fn()
        except _Timeout:
            self.bad(func, "terminates", "call did not return within the time limit", **at)
            raise _Abort()
        except RecursionError as e:
            self.bad(func, "raises nothing", f"raised RecursionError: {e}", **at)
        except Exception as e:  # noqa: BLE001
            self.bad(func, "raises nothing", f"raised {type(e).__name__}: {e}", **at)
        return False, None

    # expectation helpers -------------------------------------------------
    def is_(self, func, clause, fn, expected, **at):
        ok, v = self.call(func, fn, **at)
        if ok and v is not expected:
            self.bad(func, clause, f"returned {_r(v)}, structure says {_r(expected)}", **at)
        return v if ok else None

    def eq(self, func, clause, fn, expected, **at):
        ok, v = self.call(func, fn, **at)
        if ok and not (type(v) is type(expected) and v == expected):
            self.bad(func, clause, f"returned {v!r}, structure says {expected!r}", **at)
        return v if ok else None

    def seq(self, func, clause, fn, expected, **at):
        ok, v = self.call(func, fn, **at)
        if ok and not (isinstance(v, list) and _same(v, expected)):
            self.bad(func, clause, f"returned {_r(v)}, structure says {_r(expected)}", **at)
        elif ok and isinstance(v, list) and id(v) not in self.internal:
            # the caller owns a computed result: what it does to the list must not show in later answers
            # (a node's own child list / clone list, which some queries hand out as it is, is left alone)
            mark = _Mark()
            v.append(mark)
            ok2, v2 = self.call(func, fn, **at)
            if ok2 and isinstance(v2, list) and any(e is mark for e in v2):
                self.bad(func, clause, "the result list is shared between calls: after the caller appended to it, the same query answers with the appended element too", **at)
            for k in range(len(v) - 1, -1, -1):
                if v[k] is mark:
                    del v[k]
        return v if ok else None

    def raises(self, func, clause, fn, exc, **at):
        self.current = func
        try:
            v = fn()
        except _Timeout:
            self.bad(func, "terminates", "call did not return within the time limit", **at)
            raise _Abort()
        except exc:
            return
        except Exception as e:  # noqa: BLE001
            self.bad(func, clause, f"raised {type(e).__name__}: {e}; documented: {exc.__name__}", **at)
            return
        self.bad(func, clause, f"returned {_r(v)}; documented: {exc.__name__}", **at)


# ------------------------------------------------------------------ the oracle (raw structure only)
class Shape:
    """Everything that follows from `_parent` / `_children`, by identity."""

    def __init__(self, tree):
        self.tree = tree
        self.root = tree._root
        self.nodes = view.reachable(tree)
        self.kids = {id(self.root): view.kids(self.root)}
        for n in self.nodes:
            self.kids[id(n)] = view.kids(n)
        self.chain = {}  # id -> [parent, grandparent, ..., root]
        for n in self.nodes:
            c, p = [], n._parent
            while p is not None:
                c.append(p)
                p = p._parent
            self.chain[id(n)] = c
        self.height = {}
        self.size = {}
        self.leaves = {}
        for n in reversed([self.root] + self.nodes):  # children before parents
            ks = self.kids[id(n)]
            self.height[id(n)] = 0 if not ks else 1 + max(self.height[id(k)] for k in ks)
            self.size[id(n)] = sum(1 + self.size[id(k)] for k in ks)
            self.leaves[id(n)] = sum((1 if not self.kids[id(k)] else self.leaves[id(k)]) for k in ks)

    def anc(self, n, add_self=False):
        """Ancestors top-down, without the invisible root."""
        lst = list(reversed(self.chain[id(n)][:-1]))
        return lst + [n] if add_self else lst

    def common(self, a, b):
        la, lb = self.anc(a, True), self.anc(b, True)
        best = None
        for x, y in zip(la, lb):
            if x is y:
                best = x
            else:
                break
        return best


SEPARATORS = (("/", "{node.name}"), ("::", "{node.data!r}"), ("", "<{node.name}>"))


def check_tree(prop, tree, nodes, wit, *, foreign=None, res: Result | None = None, tag="") -> list[Violation]:
    """Evaluate every clause of C10 on `tree`.  `nodes` are the nodes in spec order (used
    for witness indexes).  `foreign`: nodes of a different tree for the cross-tree clause."""
    cx = _Ctx(prop, wit)
    cx.internal = {id(n._children) for n in [tree._root] + view.reachable(tree) if n._children is not None} | {id(lst) for lst in tree._nodes_by_data_id.values()}
    _label_nodes(tree, nodes)
    if foreign:
        _label_nodes(foreign[0]._tree, foreign, prefix="other")
    sh = Shape(tree)
    signal.signal(signal.SIGALRM, _on_alarm)
    signal.setitimer(signal.ITIMER_REAL, 20.0)
    try:
        _check_tree_level(cx, sh, tree)
        for i, n in enumerate(nodes):
            _check_node(cx, sh, n, i)
            if res is not None:
                res.add_case(f"{tag} n{i}", nontrivial=True)
            for j, o in enumerate(nodes):
                _check_pair(cx, sh, n, o, i, j)
                if res is not None:
                    res.add_case(f"{tag} n{i} o{j}", nontrivial=i != j)
            for j, o in enumerate(foreign or ()):
                cx.is_("Node.get_common_ancestor", "ensures result is None for nodes of different trees", lambda: n.get_common_ancestor(o), None, node=i, foreign=j)
                cx.eq("Node.is_descendant_of", "ensures false for a node of another tree", lambda: n.is_descendant_of(o), False, node=i, foreign=j)
                cx.eq("Node.is_ancestor_of", "ensures false for a node of another tree", lambda: n.is_ancestor_of(o), False, node=i, foreign=j)
    except _Abort:
        pass
    except _Timeout:
        cx.bad(cx.current, "terminates", "call did not return within the time limit")
    finally:
        signal.setitimer(signal.ITIMER_REAL, 0)
    return cx.out


def _check_tree_level(cx: _Ctx, sh: Shape, tree):
    top = sh.kids[id(sh.root)]
    cx.seq("Tree.children", "ensures result == top-level nodes", lambda: tree.children, top)
    cx.seq("Tree.get_toplevel_nodes", "ensures result == top-level nodes", lambda: tree.get_toplevel_nodes(), top)
    cx.is_("Tree.first_child", "ensures result is first top-level node or None", lambda: tree.first_child(), top[0] if top else None)
    cx.is_("Tree.last_child", "ensures result is last top-level node or None", lambda: tree.last_child(), top[-1] if top else None)
    cx.eq("Tree.count", "ensures result == number of nodes", lambda: tree.count, len(sh.nodes))
    cx.eq("Tree.__len__", "ensures result == number of nodes", lambda: len(tree), len(sh.nodes))
    cx.eq("Tree.calc_height", "ensures result == maximum depth of all nodes", lambda: tree.calc_height(), sh.height[id(sh.root)])
    cx.eq("Tree.__len__", "ensures an empty tree is falsy (bool(tree) == (count > 0))", lambda: bool(tree), bool(sh.nodes))
    root = sh.root
    cx.eq("Node.is_system_root", "ensures true for the system root", lambda: tree.system_root.is_system_root(), True)
    cx.is_("Tree.system_root", "ensures result is the invisible root", lambda: tree.system_root, root)
    cx.seq("Node.children", "ensures result == children (system root)", lambda: root.children, top)
    cx.eq("Node.calc_depth", "ensures result == 0 for the system root", lambda: root.calc_depth(), 0)
    cx.eq("Node.count_descendants", "ensures result == size (system root)", lambda: root.count_descendants(), len(sh.nodes))
    cx.eq("Node.has_children", "ensures result == (children != []) (system root)", lambda: root.has_children(), bool(top))
    cx.eq("Node.is_leaf", "ensures result == (children == []) (system root)", lambda: root.is_leaf(), not top)


def _check_node(cx: _Ctx, sh: Shape, n, i):
    at = {"node": i}
    root = sh.root
    P = n._parent
    ks = sh.kids[id(n)]
    sibs = sh.kids[id(P)]
    pos = _idx(sibs, n)
    chain = sh.chain[id(n)]
    depth = len(chain)
    is_top = P is root

    # -- parent / up
    cx.is_("Node.parent", "ensures result is the parent (None for top-level nodes)", lambda: n.parent, None if is_top else P, **at)
    ups = {}
    for k in range(1, depth + 1):
        ups[k] = cx.is_("Node.up", "ensures result is the k-th ancestor (system root allowed)", lambda: n.up(k), chain[k - 1], level=k, **at)
    cx.is_("Node.up", "ensures up() == up(1)", lambda: n.up(), chain[0], **at)
    cx.raises("Node.up", "raises ValueError beyond the system root", lambda: n.up(depth + 1), ValueError, level=depth + 1, **at)
    cx.raises("Node.up", "raises ValueError beyond the system root", lambda: n.up(depth + 3), ValueError, level=depth + 3, **at)
    cx.raises("Node.up", "raises ValueError for level < 1", lambda: n.up(0), ValueError, level=0, **at)
    cx.raises("Node.up", "raises ValueError for level < 1", lambda: n.up(-1), ValueError, level=-1, **at)

    # -- children
    o_children = cx.seq("Node.children", "ensures result == children", lambda: n.children, ks, **at)
    cx.seq("Node.get_children", "ensures result == children", lambda: n.get_children(), ks, **at)
    cx.is_("Node.first_child", "ensures result is first child or None", lambda: n.first_child(), ks[0] if ks else None, **at)
    cx.is_("Node.last_child", "ensures result is last child or None", lambda: n.last_child(), ks[-1] if ks else None, **at)
    o_has = cx.eq("Node.has_children", "ensures result == (children != [])", lambda: n.has_children(), bool(ks), **at)
    o_leaf = cx.eq("Node.is_leaf", "ensures result == (children == [])", lambda: n.is_leaf(), not ks, **at)

    # -- siblings
    cx.seq("Node.get_siblings", "ensures result == siblings without self (by identity)", lambda: n.get_siblings(), [s for s in sibs if s is not n], **at)
    cx.seq("Node.get_siblings", "ensures result == siblings without self (by identity)", lambda: n.get_siblings(add_self=False), [s for s in sibs if s is not n], add_self=False, **at)
    cx.seq("Node.get_siblings", "ensures result == all children of the parent (add_self)", lambda: n.get_siblings(add_self=True), sibs, add_self=True, **at)
    o_first = cx.is_("Node.first_sibling", "ensures result is first child of the parent", lambda: n.first_sibling(), sibs[0], **at)
    o_last = cx.is_("Node.last_sibling", "ensures result is last child of the parent", lambda: n.last_sibling(), sibs[-1], **at)
    o_prev = cx.is_("Node.prev_sibling", "ensures result is the sibling at pos-1 (by identity) or None", lambda: n.prev_sibling(), sibs[pos - 1] if pos > 0 else None, **at)
    o_next = cx.is_("Node.next_sibling", "ensures result is the sibling at pos+1 (by identity) or None", lambda: n.next_sibling(), sibs[pos + 1] if pos + 1 < len(sibs) else None, **at)
    o_index = cx.eq("Node.get_index", "ensures result == position in the parent's child list (by identity)", lambda: n.get_index(), pos, **at)
    cx.eq("Node.is_first_sibling", "ensures result == (pos == 0)", lambda: n.is_first_sibling(), pos == 0, **at)
    cx.eq("Node.is_last_sibling", "ensures result == (pos == len-1)", lambda: n.is_last_sibling(), pos == len(sibs) - 1, **at)

    # -- depth / height / counts
    o_depth = cx.eq("Node.depth", "ensures result == number of parent steps to the root (1 for top level)", lambda: n.depth(), depth, **at)
    cx.eq("Node.calc_depth", "ensures result == number of parent steps to the root (1 for top level)", lambda: n.calc_depth(), depth, **at)
    o_height = cx.eq("Node.calc_height", "ensures result == height (0 for leaves)", lambda: n.calc_height(), sh.height[id(n)], **at)
    o_cnt = cx.eq("Node.count_descendants", "ensures result == number of descendants", lambda: n.count_descendants(), sh.size[id(n)], **at)
    cx.eq("Node.count_descendants", "ensures result == number of descendants", lambda: n.count_descendants(leaves_only=False), sh.size[id(n)], leaves_only=False, **at)
    o_lcnt = cx.eq("Node.count_descendants", "ensures result == number of descendant leaves (leaves_only)", lambda: n.count_descendants(leaves_only=True), sh.leaves[id(n)], leaves_only=True, **at)

    # -- flags
    cx.eq("Node.is_system_root", "ensures false for a regular node", lambda: n.is_system_root(), False, **at)
    cx.eq("Node.is_top", "ensures result == (parent is the system root)", lambda: n.is_top(), is_top, **at)
    cx.is_("Node.tree", "ensures result is the owning tree", lambda: n.tree, sh.tree, **at)

    # -- ancestry
    top = chain[-2] if depth >= 2 else n
    o_top = cx.is_("Node.get_top", "ensures result is the top-level ancestor (may be self)", lambda: n.get_top(), top, **at)
    pl = {}
    for add_self in (False, True):
        for bottom_up in (False, True):
            exp = sh.anc(n, add_self)
            if bottom_up:
                exp = list(reversed(exp))
            pl[(add_self, bottom_up)] = cx.seq(
                "Node.get_parent_list", "ensures result == ancestor list (add_self, bottom_up)",
                lambda: n.get_parent_list(add_self=add_self, bottom_up=bottom_up), exp, add_self=add_self, bottom_up=bottom_up, **at,
            )
    cx.seq("Node.get_parent_list", "ensures defaults are add_self=False, bottom_up=False", lambda: n.get_parent_list(), sh.anc(n, False), **at)
    for add_self in (False, True):
        for sep, rp in SEPARATORS:
            exp = sep + sep.join(rp.format(node=p) for p in sh.anc(n, add_self))
            cx.eq("Node.get_path", "ensures result == separator + join(names of the ancestor list)", lambda: n.get_path(add_self=add_self, separator=sep, repr=rp), exp, add_self=add_self, separator=sep, repr=rp, **at)
    exp_path = "/" + "/".join(f"{p._data}" for p in sh.anc(n, True))
    cx.eq("Node.get_path", "ensures defaults are add_self=True, '/', name", lambda: n.get_path(), exp_path, **at)
    cx.eq("Node.path", "ensures result == '/' + '/'.join(names incl. self)", lambda: n.path, exp_path, **at)

    # -- mutual consistency of the *observed* answers
    def consistent(func, clause, cond_fn, text):
        ok, v = cx.call(func, cond_fn, **at)
        if ok and not v:
            cx.bad(func, clause, text, **at)

    if o_next is not None:
        consistent("Node.next_sibling", "consistent: n.next_sibling().prev_sibling() is n", lambda: o_next.prev_sibling() is n, f"next_sibling() is {_r(o_next)} whose prev_sibling() is not {_r(n)}")
    if o_prev is not None:
        consistent("Node.prev_sibling", "consistent: n.prev_sibling().next_sibling() is n", lambda: o_prev.next_sibling() is n, f"prev_sibling() is {_r(o_prev)} whose next_sibling() is not {_r(n)}")
    if o_first is not None:
        consistent("Node.first_sibling", "consistent: n.first_sibling().is_first_sibling()", lambda: o_first.is_first_sibling() and o_first.prev_sibling() is None, f"first_sibling() {_r(o_first)} is not a first sibling")
    if o_last is not None:
        consistent("Node.last_sibling", "consistent: n.last_sibling().is_last_sibling()", lambda: o_last.is_last_sibling() and o_last.next_sibling() is None, f"last_sibling() {_r(o_last)} is not a last sibling")
    if o_index is not None:
        consistent("Node.get_index", "consistent: n.get_siblings(add_self=True)[n.get_index()] is n", lambda: n.get_siblings(add_self=True)[o_index] is n, f"sibling list at get_index()={o_index} is not {_r(n)}")
        consistent("Node.get_index", "consistent: get_index() == 0 <=> is_first_sibling()", lambda: (o_index == 0) == n.is_first_sibling(), "get_index / is_first_sibling disagree")
    if o_children is not None:
        for k, c in enumerate(o_children):
            consistent("Node.children", "consistent: every child c of n has c.parent is n and c.get_index() == position", lambda: c.parent is n and c.get_index() == k and c.up() is n, f"child {k} of {_r(n)}: parent/get_index/up disagree")
        if o_has is not None and o_leaf is not None:
            consistent("Node.has_children", "consistent: has_children == not is_leaf == (children != [])", lambda: o_has == (not o_leaf) == bool(o_children), "has_children / is_leaf / children disagree")
        if o_height is not None:
            consistent("Node.calc_height", "consistent: height == 0 for leaves else 1 + max(height of children)", lambda: o_height == (0 if not o_children else 1 + max(c.calc_height() for c in o_children)), f"calc_height()={o_height} does not follow from the children's heights")
        if o_cnt is not None:
            consistent("Node.count_descendants", "consistent: count == sum(1 + count(child))", lambda: o_cnt == sum(1 + c.count_descendants() for c in o_children), f"count_descendants()={o_cnt} does not follow from the children's counts")
        if o_lcnt is not None:
            consistent("Node.count_descendants", "consistent: leaves == sum(child is leaf ? 1 : leaves(child))", lambda: o_lcnt == sum((1 if c.is_leaf() else c.count_descendants(leaves_only=True)) for c in o_children), f"count_descendants(leaves_only=True)={o_lcnt} does not follow from the children")
    if o_depth is not None:
        consistent("Node.depth", "consistent: depth == len(get_parent_list(add_self=True)) == parent.depth()+1", lambda: o_depth == len(n.get_parent_list(add_self=True)) and o_depth == (1 if n.parent is None else n.parent.depth() + 1), f"depth()={o_depth} disagrees with parent list / parent depth")
        consistent("Node.is_top", "consistent: is_top <=> depth == 1 <=> parent is None <=> get_top() is self", lambda: n.is_top() == (o_depth == 1) == (n.parent is None) == (n.get_top() is n), "is_top / depth / parent / get_top disagree")
    if o_top is not None and pl.get((True, False)):
        consistent("Node.get_top", "consistent: get_top() is get_parent_list(add_self=True)[0]", lambda: pl[(True, False)][0] is o_top and o_top.is_top(), "get_top disagrees with the parent list")
    if pl.get((False, True)) is not None:
        bu = pl[(False, True)]
        consistent("Node.up", "consistent: up(k) is get_parent_list(bottom_up=True)[k-1]", lambda: all(ups.get(k + 1) is bu[k] for k in range(len(bu))), "up(k) disagrees with the bottom-up parent list")


def _check_pair(cx: _Ctx, sh: Shape, n, o, i, j):
    at = {"node": i, "other": j}
    chain_n = sh.chain[id(n)]
    chain_o = sh.chain[id(o)]
    desc = any(p is o for p in chain_n)  # chain never holds n itself; root is never `o`
    ancs = any(p is n for p in chain_o)
    o_desc = cx.eq("Node.is_descendant_of", "ensures result == (other is a proper ancestor of self, by identity)", lambda: n.is_descendant_of(o), desc, **at)
    o_anc = cx.eq("Node.is_ancestor_of", "ensures result == (self is a proper ancestor of other, by identity)", lambda: n.is_ancestor_of(o), ancs, **at)
    exp = sh.common(n, o)
    o_ca = cx.is_("Node.get_common_ancestor", "ensures result is the nearest node containing both (None if only the root does)", lambda: n.get_common_ancestor(o), exp, **at)
    # consistency between the observed answers
    ok, back = cx.call("Node.is_ancestor_of", lambda: o.is_ancestor_of(n), **at)
    if ok and o_desc is not None and back != o_desc:
        cx.bad("Node.is_descendant_of", "consistent: n.is_descendant_of(o) == o.is_ancestor_of(n)", f"{o_desc} vs {back}", **at)
    ok, ca2 = cx.call("Node.get_common_ancestor", lambda: o.get_common_ancestor(n), **at)
    if ok and ca2 is not o_ca and exp is o_ca:
        cx.bad("Node.get_common_ancestor", "consistent: symmetric", f"{_r(o_ca)} vs {_r(ca2)}", **at)
    if o_desc and o_anc:
        cx.bad("Node.is_descendant_of", "consistent: not both ancestor and descendant", "both true", **at)


# ------------------------------------------------------------------ sweeps
OTHER = gen.Spec(((-1, "a", None, None), (0, "b", None, None), (-1, "x", 1, None)))


def _build_foreign():
    t, ns = gen.build(OTHER, name="O")
    return ns


def _chunk(chunk, prop):
    res = Result(prop)
    foreign = _build_foreign()
    for kind, spec in chunk:
        try:
            tree, nodes = gen.build(spec, node_ids="even")  # every other node with a caller-supplied node_id
            bad = view.wf_violations(tree)
            if bad:
                res.errors.append(f"{spec.short()}: built tree is not well-formed: {bad}")
                continue
            wit = {"kind": kind, "spec": _spec_json(spec)}
            tag = f"{kind} {spec.short()}"
            res.add_case(tag, nontrivial=len(nodes) > 0)
            res.violations += check_tree(prop, tree, nodes, wit, foreign=foreign if len(nodes) <= 3 else foreign[:1], res=res, tag=tag)
        except Exception:  # noqa: BLE001
            res.errors.append(f"{spec.short()}: {traceback.format_exc()[-1200:]}")
    _LBL.clear()
    return res


def _random_specs(n_trees: int, max_n: int):
    base = seed() * 1_000_003 + 10
    out = []
    for k in range(n_trees):
        rng = random.Random(base + k)
        n = rng.randint(5, max_n)
        mode = rng.random()
        if mode < 0.6:
            sp = gen.random_spec(rng, n, alphabet=("a", "b", "c", "d"))
        else:
            # equal-comparing data under distinct explicit ids (siblings may be equal)
            sp0 = gen.random_spec(rng, n, alphabet=tuple("abcdefgh"))
            recs = [(p, rng.choice(("x", "y")), i + 1, None) for i, (p, _l, _d, _k) in enumerate(sp0.nodes)]
            sp = gen.Spec(tuple(recs))
        out.append(("random", sp))
    return out


def run(prop: str, tier: str, only=None) -> Result:
    quick = tier == "quick"
    n_plain = 5 if quick else 6
    n_eq = 5 if quick else 6
    n_rand, max_rand = (3000, 8) if quick else (40000, 10)
    items = [("plain", s) for s in gen.plain_specs(n_plain)]
    items += [("eqpair", s) for s in gen.eqpair_specs(n_eq)]
    rnd = _random_specs(n_rand, max_rand)
    n_hist = 3 if quick else 4
    hst = [("history", s) for s in gen.history_specs(gen.plain_specs(n_hist))]
    big = [("big", s) for s in gen.big_specs(seed() + 10, 9 if quick else 60, lo=18, hi=36)]
    total = parallel(_chunk, items + rnd + hst + big, prop, prop=prop)
    total.exhaustive = False
    # typed trees: there the sibling / child / index queries are the kind-aware overrides, whose oracle is C15's -- "for all
    # trees" includes them, so that oracle runs here too (smaller bound) and its findings count for C10
    from . import c15

    typed_items = [("typed", s) for s in gen.typed_specs(3)] + [("flat", s) for s in c15._flat_specs(4, ("k1", "k2"))]
    rt = parallel(c15._chunk, typed_items, prop, prop=prop)
    total.merge(rt)
    total.bounds["the same queries on typed trees (kind-aware overrides: sibling navigation, get_index, is_first/last_sibling, children by kind)"] = (
        "typed forests with <= 3 nodes x {a,b} x kinds {k1,k2} and one parent with 1..4 children of every kind pattern, judged by the oracle of native/props/c15.py")
    b = (
        f"all ordered forests with <= {n_plain} nodes x labelings over {{a,b,c}} (siblings differ, clones under different parents)"
        + f"; equal-data pairs under distinct ids (siblings incl.) in all forests with <= {n_eq} nodes; "
        f"{n_rand} seeded random trees with 5..{max_rand} nodes (40% with equal-comparing data 'x'/'y' under distinct ids; VERIF_SEED={seed()}); "
        f"{len(big)} seeded larger trees with 18..36 nodes (long sibling runs / chains / mixed); {len(hst)} " + "histories: every tree of <= {n} nodes with all accessors evaluated once, then one of remove / remove(keep_children) / move_to / add / remove_children / sort_children / deep copy (native/hist.py), the checks run on the resulting tree".format(n=n_hist) + "; "
        "every node, every ordered pair of nodes, nodes of a second tree for the cross-tree clauses"
    )
    total.bounds[
        "Node/Tree relationship queries (parent, up, children, siblings, first/last/prev/next sibling, get_index, depth, height, "
        "descendant counts, is_* flags, get_top, ancestor/descendant tests, get_parent_list, get_path/path, get_common_ancestor)"
    ] = b
    return total


def replay(witness: dict, prop: str) -> list[tuple[str, str]]:
    if "kind_of_input" in witness:  # a finding of the typed-tree part: C15's oracle
        from . import c15

        return c15.replay(witness, prop)
    spec = spec_from_json(witness["spec"])
    tree, nodes = gen.build(spec, node_ids="even")  # every other node with a caller-supplied node_id
    vs = check_tree(prop, tree, nodes, {"kind": witness.get("kind"), "spec": witness["spec"]}, foreign=_build_foreign())
    out = []
    for v in vs:
        if v.clause == witness.get("clause") and v.func == witness.get("func") and v.witness.get("node") == witness.get("node") and v.witness.get("other") == witness.get("other"):
            out.append((v.clause, v.text))
    return out
