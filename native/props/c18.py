"""C18 -- snapshot operations honour the tree lock (native witness / replay side).

The deductive tier proves the lock discipline from the source; this module shows it on the
real code with *controlled* two/three/four-thread schedules.  Nothing below synchronises
with sleeps: every hand-over is an event, time-outs are only watchdogs (a time-out is a
Violation "terminates", never a pass).

Instrumentation (no change of /repo):
  * nodes are instances of `SpyNode(Node)` / `SpyTypedNode(TypedNode)` (``Tree(factory=...)``)
    whose ``__getattribute__`` logs every read of a structure slot (`_children`, `_parent`,
    `_data`, `_data_id`, `_meta`, `_kind`) -- that intercepts *raw slot reads made by library
    code* as well as the public properties; the invisible root node gets a spying subclass by
    ``tree._root.__class__ = SpyRoot`` (reads of `_children`); the tree itself is a
    `SpyTree(Tree)` that logs reads of the two index dicts.  A read is logged together with
    "is a writer inside `with tree:` right now".
  * `tree._lock` (checked to be the RLock that `Tree.__init__` created) is wrapped by `SpyLock`,
    which first tries a non-blocking acquire and publishes "blocked"/"acquired" -- so the
    driver *knows* when a thread sits in `acquire()` instead of guessing with a sleep.
    The group "blackbox" repeats one case per operation with the untouched RLock and a
    bounded `join()`.

Schedules (A = writer that mutates in two steps inside `with tree:`, B = snapshot operation):
  writer-first   A enters, performs step 1, parks.  B starts.  Required: B logs no structure
                 read and does not finish while A is inside; after A's step 2 + release B
                 finishes and its result equals the operation applied sequentially to the state
                 before both steps or after both steps (never the middle state).
  reader-first   B starts and is parked inside its k-th structure read (k = first, middle,
                 last).  A then tries `with tree:`.  Required: A blocks until B is done (a
                 snapshot operation holds the lock for its whole read phase), B's result is
                 the pre-state.
  two-writers    A inside; second writer A2 and two readers B, B2 queue up; every result is a
                 state between critical sections.
  reentrant      the owner nests `with tree:` (depth 2 and 3) and calls the operation inside,
                 under a watchdog; the lock depth is unchanged by the operation (still held in
                 the outer block, free after leaving it -- probed from another thread).
  exception      a callback of the operation raises: the lock depth is restored.
  stress         free-running writers/readers with a tiny switch interval; every snapshot
                 satisfies the writers' pair invariant (random schedules, not exhaustive).
"""
from __future__ import annotations

import functools
import io
import json
import os
import random
import re
import shutil
import sys
import tempfile
import threading
import time
import traceback
import zipfile

from nutree import Tree
from nutree.node import Node
from nutree.tree import _SystemRootNode
from nutree.typed_tree import TypedNode, TypedTree, _SystemRootTypedNode

from .. import gen, view
from ..harness import Result, Violation, clip, parallel, seed
from .mut import _spec_json, spec_from_json

WD = 5.0  # watchdog for every wait (seconds); reaching it is reported, never silently accepted
_RLOCK_TYPE = type(threading.RLock())


# =========================================================================== instrumentation
class _Watch:
    """Per-case shared state (one case at a time per process)."""

    def __init__(self):
        self.cv = threading.Condition()
        self.reset(None)

    def reset(self, tree):
        self.tree = tree
        self.readers: set = set()  # thread idents whose reads are logged
        self.inside = 0  # number of writers currently inside `with tree:`
        self.log: list = []  # (thread name, what, writer inside?)
        self.flags: set = set()
        self.pause_at = 0
        self.nreads = 0
        self.resume = threading.Event()
        self.results: dict = {}
        self.errors: list = []

    def flag(self, f):
        with self.cv:
            self.flags.add(f)
            self.cv.notify_all()

    def wait(self, pred, timeout=None) -> bool:
        with self.cv:
            return self.cv.wait_for(lambda: pred(self.flags), timeout=WD if timeout is None else timeout)


W = _Watch()
_STRUCT = frozenset(("_children", "_parent", "_data", "_data_id", "_meta", "_kind"))
_oga = object.__getattribute__


def _spy(owner_tree, what):
    w = W
    if owner_tree is not w.tree or owner_tree is None:
        return
    if threading.get_ident() not in w.readers:
        return
    w.nreads += 1
    w.log.append((threading.current_thread().name, what, w.inside > 0))
    if w.pause_at and w.nreads == w.pause_at:
        w.flag("paused")
        w.resume.wait(WD)


def _node_ga(self, name):
    if name in _STRUCT:
        try:
            _spy(_oga(self, "_tree"), name)
        except AttributeError:
            pass
    return _oga(self, name)


def _root_ga(self, name):
    if name == "_children":
        try:
            _spy(_oga(self, "_tree"), "root._children")
        except AttributeError:
            pass
    return _oga(self, name)


def _tree_ga(self, name):
    if name == "_node_by_id" or name == "_nodes_by_data_id":
        _spy(self, "tree." + name)
    return _oga(self, name)


class SpyNode(Node):
    __slots__ = ()
    __getattribute__ = _node_ga


class SpyTypedNode(TypedNode):
    __slots__ = ()
    __getattribute__ = _node_ga


class SpyRoot(_SystemRootNode):
    __getattribute__ = _root_ga


class SpyTypedRoot(_SystemRootTypedNode):
    __getattribute__ = _root_ga


class SpyTree(Tree):
    __getattribute__ = _tree_ga


class SpyTypedTree(TypedTree):
    __getattribute__ = _tree_ga


class SpyLock:
    """Wrapper around the tree's own RLock that publishes whether an acquire had to wait."""

    def __init__(self, inner):
        self.inner = inner

    def acquire(self, blocking=True, timeout=-1):
        name = threading.current_thread().name
        if self.inner.acquire(False):
            W.flag(("acq", name))
            return True
        if not blocking:
            return False
        W.flag(("blocked", name))
        ok = self.inner.acquire(True, timeout)
        W.flag(("acq", name))
        return ok

    def release(self):
        self.inner.release()

    __enter__ = acquire

    def __exit__(self, *a):
        self.release()


def _build(cls_name: str, spec, *, spylock=True):
    """Real tree for `spec` with spying node/root/tree classes.  Returns (tree, nodes, problems)."""
    typed = cls_name == "TypedTree"
    tcls = functools.partial(SpyTypedTree, factory=SpyTypedNode) if typed else functools.partial(SpyTree, factory=SpyNode)
    tree, nodes = gen.build(spec, tree_cls=tcls)
    problems = []
    tree._root.__class__ = SpyTypedRoot if typed else SpyRoot
    lock = tree.__dict__.get("_lock")
    if type(lock) is not _RLOCK_TYPE:
        problems.append(("Tree.__init__ ensures self._lock is a threading.RLock", f"tree._lock is {type(lock).__name__}"))
    if spylock and lock is not None:
        tree._lock = SpyLock(lock)
    return tree, nodes, problems


# =========================================================================== snapshot operations
class _Boom(Exception):
    pass


def _norm_ints(text: str) -> str:
    """Replace every integer token by the index of its first appearance (node ids differ between
    equal trees)."""
    seen: dict = {}

    def sub(m):
        return "#%d" % seen.setdefault(m.group(0), len(seen))

    return re.sub(r"-?\d+", sub, text)


def _shape_of(t):
    return ("typed" if isinstance(t, TypedTree) else "plain", view.shape(t))


_PATH_SEQ = [0]


def _path(ctx, suffix):
    _PATH_SEQ[0] += 1
    return os.path.join(ctx["dir"], f"f{os.getpid()}_{_PATH_SEQ[0]}{suffix}")


def _mapper_nc(node, data):
    data["nc"] = len(node.children)
    return data


def _dot_mapper(node, data):
    data["nc"] = len(node.children)


def _pred_not_b(node):
    return node.data != "b"


def _op_save(tree, ctx, **kw):
    buf = io.StringIO()
    tree.save(buf, **kw)
    return json.loads(buf.getvalue())


def _op_save_path(tree, ctx):
    p = _path(ctx, ".json")
    tree.save(p)
    with open(p, encoding="utf8") as fp:
        return json.load(fp)


def _op_save_zip(tree, ctx):
    p = _path(ctx, ".zip")
    tree.save(p, compression=True)
    with zipfile.ZipFile(p) as zf:
        return json.loads(zf.read(zf.namelist()[0]).decode("utf8"))


def _op_copy(tree, ctx, **kw):
    return _shape_of(tree.copy(**kw))


def _op_filtered(tree, ctx):
    return _shape_of(tree.filtered(_pred_not_b))


def _op_copy_to_tree(tree, ctx):
    other = TypedTree("other") if isinstance(tree, TypedTree) else Tree("other")
    tree.copy_to(other)
    return _shape_of(other)


def _op_copy_to_node(tree, ctx):
    if isinstance(tree, TypedTree):
        other = TypedTree("other")
        tgt = other.add("T", kind="k1")
    else:
        other = Tree("other")
        tgt = other.add("T")
    tree.copy_to(tgt, deep=False)
    return _shape_of(other)


def _op_to_dict_list(tree, ctx, **kw):
    return tree.to_dict_list(**kw)


def _op_dot(tree, ctx, **kw):
    buf = io.StringIO()
    tree.to_dotfile(buf, **kw)
    return _norm_ints(buf.getvalue())


def _op_dot_path(tree, ctx):
    p = _path(ctx, ".gv")
    tree.to_dotfile(p)
    with open(p) as fp:
        return _norm_ints(fp.read())


def _op_with(tree, ctx):
    with tree:
        return _shape_of(tree)


def _raise(*a, **k):
    raise _Boom("callback failure injected by the C18 harness")


# name -> (function under contract, callable, typed-only?)
OPS = {
    "save": ("Tree.save", _op_save, False),
    "save_nomaps": ("Tree.save", functools.partial(_op_save, key_map=False, value_map=False), False),
    "save_mapper": ("Tree.save", functools.partial(_op_save, mapper=_mapper_nc), False),
    "save_vm_empty": ("TypedTree.save", functools.partial(_op_save, value_map={}), True),
    "save_path": ("Tree.save", _op_save_path, False),
    "save_zip": ("Tree.save", _op_save_zip, False),
    "copy": ("Tree.copy", _op_copy, False),
    "copy_pred": ("Tree.copy", functools.partial(_op_copy, predicate=_pred_not_b), False),
    "filtered": ("Tree.filtered", _op_filtered, False),
    "copy_to_tree": ("Tree.copy_to", _op_copy_to_tree, False),
    "copy_to_node": ("Tree.copy_to", _op_copy_to_node, False),
    "to_dict_list": ("Tree.to_dict_list", _op_to_dict_list, False),
    "to_dict_list_mapper": ("Tree.to_dict_list", functools.partial(_op_to_dict_list, mapper=_mapper_nc), False),
    "to_dotfile": ("tree_to_dotfile", _op_dot, False),
    "to_dotfile_nodes": ("tree_to_dotfile", functools.partial(_op_dot, unique_nodes=False, add_root=False, node_mapper=_dot_mapper), False),
    "to_dotfile_path": ("tree_to_dotfile", _op_dot_path, False),
    "with": ("Tree.__enter__", _op_with, False),
}
# operations whose callback raises (group "exception")
XOPS = {
    "save_mapper!": ("Tree.save", functools.partial(_op_save, mapper=_raise), False),
    "to_dict_list_mapper!": ("Tree.to_dict_list", functools.partial(_op_to_dict_list, mapper=_raise), False),
    "copy_pred!": ("Tree.copy", functools.partial(_op_copy, predicate=_raise), False),
    "to_dotfile_mapper!": ("tree_to_dotfile", functools.partial(_op_dot, node_mapper=_raise), False),
}


def _func_of(op: str, cls_name: str) -> str:
    f = (OPS.get(op) or XOPS[op])[0]
    if cls_name == "TypedTree" and f == "Tree.save":
        return "TypedTree.save"
    return f


def _ops_for(cls_name: str, table=OPS):
    return [k for k, v in table.items() if cls_name == "TypedTree" or not v[2]]


_LOCKERRS: list = []  # lock-protocol errors raised by the library during the current case
_BREAKER = None  # cross-process count of watchdog time-outs (multiprocessing.Value), set by run()


def _call(op: str, tree, ctx, boom_ok=False):
    fn = (OPS.get(op) or XOPS[op])[1]
    try:
        return ("ok", fn(tree, ctx))
    except _Boom:
        return ("boom",)
    except RuntimeError as e:
        if "lock" in str(e):  # "cannot release un-acquired lock": the operation released more than it took
            _LOCKERRS.append(f"{op}: RuntimeError({e})")
            return ("lockerr", str(e))
        return ("exc", type(e).__name__)
    except Exception as e:  # noqa: BLE001 -- a refusal (e.g. copy_to of an empty tree) is a result too
        return ("exc", type(e).__name__)


# =========================================================================== writers
MUTS = ("add2", "add_rm", "ren2", "move_add", "clear_add")


def _steps(mut: str, tree, nodes, typed: bool):
    """Two-step mutation through the public API; the middle state is observably different."""

    def kw(k):
        return {"kind": k} if typed else {}

    box = {}
    if mut == "add2":
        return [lambda: box.__setitem__("x", tree.add("x", **kw("k3"))), lambda: box["x"].add("y", **kw("k1"))]
    if mut == "add_rm":
        if len(nodes) < 2:
            return None
        return [lambda: nodes[0].add("x", **kw("k3")), lambda: nodes[-1].remove()]
    if mut == "ren2":
        if not nodes:
            return None
        return [lambda: nodes[0].rename("p"), lambda: nodes[-1].rename("q")]
    if mut == "move_add":
        if not nodes:
            return None
        return [lambda: nodes[-1].move_to(tree, before=True), lambda: tree.add("x", **kw("k3"))]
    if mut == "clear_add":
        if not nodes:
            return None
        return [lambda: tree.clear(), lambda: tree.add("x", **kw("k3"))]
    if mut == "add_uv":  # second writer of the two-writers group
        return [lambda: box.__setitem__("u", tree.add("u", **kw("k2"))), lambda: box["u"].add("v", **kw("k3"))]
    raise ValueError(mut)


def _ref(cls_name, spec, plan, op, ctx):
    """Sequential reference: the operation applied to a fresh equal tree after the given
    (mutation, number-of-steps) prefixes.  Returns None if the mutation is not applicable."""
    tree, nodes, _ = _build(cls_name, spec)
    W.reset(None)
    for mut, nsteps in plan:
        st = _steps(mut, tree, nodes, cls_name == "TypedTree")
        if st is None:
            return None
        try:
            for s in st[:nsteps]:
                s()
        except Exception:  # noqa: BLE001 -- e.g. move refused because of a duplicate sibling id
            return None
    return _call(op, tree, ctx)


def _count_reads(cls_name, spec, op, ctx) -> int:
    tree, _nodes, _ = _build(cls_name, spec)
    W.reset(tree)
    W.readers = {threading.get_ident()}
    _call(op, tree, ctx)
    n = W.nreads
    W.reset(None)
    return n


def _writer(tree, steps, tag, park: bool):
    try:
        with tree:
            W.inside += 1
            try:
                steps[0]()
                if park:
                    W.flag((tag, "mid"))
                    if not W.wait(lambda f: (tag, "go") in f, timeout=6 * WD):
                        W.errors.append(f"writer {tag}: never released by the driver")
                steps[1]()
            finally:
                W.inside -= 1
    except BaseException:  # noqa: BLE001
        W.errors.append(f"writer {tag}: " + traceback.format_exc()[-600:])
    finally:
        W.flag((tag, "done"))


def _reader(tree, op, ctx, tag):
    W.readers.add(threading.get_ident())
    try:
        W.results[tag] = _call(op, tree, ctx)
    except BaseException:  # noqa: BLE001
        W.errors.append(f"reader {tag}: " + traceback.format_exc()[-600:])
    finally:
        W.flag((tag, "done"))


def _thread(name, target, *args):
    t = threading.Thread(target=target, args=args, name=name, daemon=True)
    t.start()
    return t


def _early_reads(tag=None):
    return [(n, w) for (n, w, inside) in W.log if inside and (tag is None or n == tag)]


C_NOREAD = "no structure read by a snapshot operation while another thread is inside `with tree:`"
C_BLOCK = "snapshot operation does not complete while another thread is inside `with tree:`"
C_ATOMIC = "result == operation applied to a state between two critical sections"
C_TERM = "terminates (no deadlock)"
C_DEPTH = "lock depth after the operation == lock depth before it"


# =========================================================================== schedules
def case_writer_first(cls_name, spec, mut, op, ctx, *, spylock=True):
    """Returns (diffs, nontrivial) or None if the mutation is not applicable."""
    refs = [_ref(cls_name, spec, [(mut, k)], op, ctx) for k in (0, 1, 2)]
    if refs[2] is None or refs[1] is None:
        return None
    tree, nodes, diffs = _build(cls_name, spec, spylock=spylock)
    steps = _steps(mut, tree, nodes, cls_name == "TypedTree")
    W.reset(tree)
    ta = _thread("A", _writer, tree, steps, "A", True)
    if not W.wait(lambda f: ("A", "mid") in f or ("A", "done") in f) or ("A", "done") in W.flags:
        W.flag(("A", "go"))
        raise RuntimeError("writer A did not reach its middle state: " + "; ".join(W.errors))
    tb = _thread("B", _reader, tree, op, ctx, "B")
    if spylock:
        settled = W.wait(lambda f: ("blocked", "B") in f or ("B", "done") in f)
    else:  # black box: the untouched RLock, bounded join instead of the lock's own signal
        tb.join(0.12)
        settled = True
    done_early = ("B", "done") in W.flags
    early = _early_reads()
    if not settled:
        diffs.append((C_TERM, f"B neither blocked on the tree lock nor finished within {WD}s while A was inside `with tree:`"))
    if early:
        diffs.append((C_NOREAD, f"while A was inside `with tree:` (after step 1 of {mut}), B's {op} read {len(early)} structure slots: {[w for _n, w in early][:8]}"))
    if done_early:
        diffs.append((C_BLOCK, f"B's {op} returned {clip(W.results.get('B'), 120)} while A was still inside `with tree:`"))
    W.flag(("A", "go"))
    ta.join(WD)
    tb.join(WD)
    if ta.is_alive() or tb.is_alive():
        diffs.append((C_TERM, f"after A released the lock: A alive={ta.is_alive()}, B alive={tb.is_alive()} after {WD}s"))
        return diffs, True
    if W.errors:
        raise RuntimeError("; ".join(W.errors))
    got = W.results.get("B")
    if got != refs[0] and got != refs[2]:
        which = "the middle state" if got == refs[1] else "no state of the writer"
        diffs.append((C_ATOMIC, f"B's {op} returned {clip(got, 160)} = {which}; required {clip(refs[2], 160)} (after both steps) or {clip(refs[0], 120)} (before)"))
    nontrivial = refs[1] != refs[0] and refs[1] != refs[2]
    W.reset(None)
    return diffs, nontrivial


def case_reader_first(cls_name, spec, mut, op, k, ctx):
    ref0 = _ref(cls_name, spec, [], op, ctx)
    ref2 = _ref(cls_name, spec, [(mut, 2)], op, ctx)
    if ref2 is None:
        return None
    tree, nodes, diffs = _build(cls_name, spec)
    steps = _steps(mut, tree, nodes, cls_name == "TypedTree")
    W.reset(tree)
    W.pause_at = k
    tb = _thread("B", _reader, tree, op, ctx, "B")
    if not W.wait(lambda f: "paused" in f or ("B", "done") in f):
        diffs.append((C_TERM, f"B's {op} neither reached its read #{k} nor finished within {WD}s"))
        W.resume.set()
        return diffs, True
    if "paused" not in W.flags:  # fewer than k reads: nothing to interleave
        tb.join(WD)
        W.reset(None)
        return diffs, False
    ta = _thread("A", _writer, tree, steps, "A", True)
    if not W.wait(lambda f: ("blocked", "A") in f or ("A", "mid") in f or ("A", "done") in f):
        diffs.append((C_TERM, f"A neither blocked on nor acquired the tree lock within {WD}s"))
    a_entered = ("A", "mid") in W.flags or ("A", "done") in W.flags
    if a_entered:
        what = W.log[-1][1] if W.log else "?"
        diffs.append((C_NOREAD, f"B's {op} was inside its structure read #{k} ({what}) when A entered `with tree:` and performed step 1 of {mut}: the operation does not hold the lock while it reads"))
    W.resume.set()
    if a_entered:  # B read without the lock; it may now queue up behind A (F35 pattern): let A finish
        W.wait(lambda f: ("B", "done") in f or ("blocked", "B") in f)
        W.flag(("A", "go"))
    if not W.wait(lambda f: ("B", "done") in f):
        diffs.append((C_TERM, f"B's {op} did not finish within {WD}s after being resumed"))
    W.wait(lambda f: ("A", "mid") in f or ("A", "done") in f)
    W.flag(("A", "go"))
    ta.join(WD)
    tb.join(WD)
    if ta.is_alive() or tb.is_alive():
        diffs.append((C_TERM, f"A alive={ta.is_alive()}, B alive={tb.is_alive()} after {WD}s"))
        return diffs, True
    if W.errors:
        raise RuntimeError("; ".join(W.errors))
    early = _early_reads()
    if early and not a_entered:
        diffs.append((C_NOREAD, f"B's {op} read {len(early)} structure slots while A was inside `with tree:`: {[w for _n, w in early][:8]}"))
    got = W.results.get("B")
    if got != ref0 and got != ref2:
        diffs.append((C_ATOMIC, f"B's {op} (parked in read #{k}, writer {mut} queued) returned {clip(got, 160)}; required the pre-state {clip(ref0, 160)}"))
    W.reset(None)
    return diffs, True


def case_two_writers(cls_name, spec, mut, op, op2, ctx):
    plans = {"S0": [], "SA": [(mut, 2)], "SAA2": [(mut, 2), ("add_uv", 2)]}
    refs = {}
    for o in (op, op2):
        for nm, pl in plans.items():
            refs[(o, nm)] = _ref(cls_name, spec, pl, o, ctx)
    if refs[(op, "SA")] is None:
        return None
    tree, nodes, diffs = _build(cls_name, spec)
    typed = cls_name == "TypedTree"
    W.reset(tree)
    ta = _thread("A", _writer, tree, _steps(mut, tree, nodes, typed), "A", True)
    if not W.wait(lambda f: ("A", "mid") in f or ("A", "done") in f) or ("A", "done") in W.flags:
        W.flag(("A", "go"))
        raise RuntimeError("writer A did not reach its middle state: " + "; ".join(W.errors))
    ta2 = _thread("A2", _writer, tree, _steps("add_uv", tree, nodes, typed), "A2", False)
    tb = _thread("B", _reader, tree, op, ctx, "B")
    tb2 = _thread("B2", _reader, tree, op2, ctx, "B2")
    for nm in ("A2", "B", "B2"):
        if not W.wait(lambda f, nm=nm: ("blocked", nm) in f or (nm, "done") in f):
            diffs.append((C_TERM, f"{nm} neither blocked nor finished within {WD}s"))
        if (nm, "done") in W.flags:
            diffs.append((C_BLOCK, f"{nm} finished while A was still inside `with tree:`"))
    early = _early_reads()
    if early:
        diffs.append((C_NOREAD, f"while A was inside `with tree:`: {len(early)} structure reads by {sorted({n for n, _ in early})}: {[w for _n, w in early][:8]}"))
    W.flag(("A", "go"))
    for t in (ta, ta2, tb, tb2):
        t.join(WD)
    if any(t.is_alive() for t in (ta, ta2, tb, tb2)):
        diffs.append((C_TERM, f"threads still alive {WD}s after A released: {[t.name for t in (ta, ta2, tb, tb2) if t.is_alive()]}"))
        return diffs, True
    if W.errors:
        raise RuntimeError("; ".join(W.errors))
    late = [(n, w) for (n, w, inside) in W.log if inside]
    if len(late) > len(early):
        diffs.append((C_NOREAD, f"{len(late) - len(early)} structure reads by a reader while writer A2 was inside `with tree:`: {late[len(early):][:6]}"))
    for tag, o in (("B", op), ("B2", op2)):
        got = W.results.get(tag)
        if got not in (refs[(o, "S0")], refs[(o, "SA")], refs[(o, "SAA2")]):
            diffs.append((C_ATOMIC, f"{tag}'s {o} returned {clip(got, 160)}; required the state after writer A ({clip(refs[(o, 'SA')], 120)}) or after A and A2"))
    W.reset(None)
    return diffs, True


def _probe_free(tree) -> bool:
    """Can *another* thread take the tree lock right now?  (non-blocking, releases again)"""
    out = []

    def probe():
        lock = tree._lock
        ok = lock.acquire(False)
        if ok:
            lock.release()
        out.append(ok)

    t = threading.Thread(target=probe, name="probe", daemon=True)
    t.start()
    t.join(WD)
    return bool(out and out[0])


def _leave(tree, out):
    """`tree.__exit__` of the harness' own `with tree:`; an unbalanced lock shows up here."""
    try:
        tree.__exit__(None, None, None)
    except RuntimeError as e:
        out["unbalanced"] = str(e)


def case_reentrant(cls_name, spec, op, depth, ctx):
    ref0 = _ref(cls_name, spec, [], op, ctx)
    tree, _nodes, diffs = _build(cls_name, spec, spylock=False)
    W.reset(None)
    out = {}

    def body():
        try:
            for _ in range(depth):
                tree.__enter__()
            try:
                out["r_in"] = _call(op, tree, ctx)
                out["held_in"] = not _probe_free(tree)
            finally:
                for _ in range(depth - 1):
                    _leave(tree, out)
            try:
                out["r_outer"] = _call(op, tree, ctx)
                out["held_outer"] = not _probe_free(tree)
            finally:
                _leave(tree, out)
            out["free_after"] = _probe_free(tree)
        except BaseException:  # noqa: BLE001
            out["err"] = traceback.format_exc()[-600:]

    t = _thread("owner", body)
    t.join(WD)
    if t.is_alive():
        diffs.append((C_TERM, f"owner thread nested `with tree:` {depth}x and called {op}: still running after {WD}s (deadlock); progress {sorted(out)}"))
        return diffs, True
    if "err" in out:
        raise RuntimeError(out["err"])
    if "unbalanced" in out:
        diffs.append((C_DEPTH, f"the owner's own `with tree:` around {op} could not be left: {out['unbalanced']} (the operation released the owner's hold)"))
    for key in ("r_in", "r_outer"):
        if out[key] != ref0:
            diffs.append(("re-entrant call returns the same result as an unnested call", f"{op} inside {depth if key == 'r_in' else 1} nested `with tree:` returned {clip(out[key], 160)}; unnested: {clip(ref0, 160)}"))
    if not out["held_in"] or not out["held_outer"]:
        diffs.append((C_DEPTH, f"after {op} returned inside the owner's `with tree:` another thread could take the lock (held after inner call: {out['held_in']}, after outer call: {out['held_outer']})"))
    if not out["free_after"]:
        diffs.append((C_DEPTH, f"after the owner left all `with tree:` blocks (with {op} called inside) the lock is still held"))
    return diffs, True


def case_reentrant_waiting(cls_name, spec, op, op2, ctx):
    """The owner A is inside `with tree:`; another thread B has called `op2` and waits for the tree lock; now A calls `op`
    nested in its section.  A must get through (a snapshot operation takes the tree lock and nothing else that B could be
    holding), then leave; B then runs to completion."""
    tree, _nodes, diffs = _build(cls_name, spec, spylock=True)
    W.reset(tree)
    out = {}
    go = threading.Event()

    def owner():
        try:
            with tree:
                W.flag(("A", "in"))
                go.wait(WD)
                out["r"] = _call(op, tree, ctx)
                W.flag(("A", "called"))
        except BaseException:  # noqa: BLE001
            out["err"] = traceback.format_exc()[-600:]
        finally:
            W.flag(("A", "left"))

    ta = _thread("A", owner)
    if not W.wait(lambda f: ("A", "in") in f):
        raise RuntimeError("owner did not enter its section")
    tb = _thread("B", _reader, tree, op2, ctx, "B")
    W.wait(lambda f: ("blocked", "B") in f or ("B", "done") in f, timeout=2.0)
    go.set()
    ta.join(WD)
    if ta.is_alive():
        diffs.append((C_TERM, f"owner inside `with tree:` called {op} while another thread was waiting in {op2}: still blocked after {WD}s (lock-order deadlock); B alive={tb.is_alive()}"))
        return diffs, True
    tb.join(WD)
    if tb.is_alive():
        diffs.append((C_TERM, f"after the owner left its section the waiting {op2} did not finish within {WD}s"))
    if "err" in out:
        raise RuntimeError(out["err"])
    W.reset(None)
    return diffs, True


def case_exception(cls_name, spec, op, ctx):
    tree, _nodes, diffs = _build(cls_name, spec, spylock=False)
    W.reset(None)
    out = {}

    def body():
        try:
            out["r1"] = _call(op, tree, ctx)
            out["free1"] = _probe_free(tree)
            tree.__enter__()
            try:
                out["r2"] = _call(op, tree, ctx)
                out["held2"] = not _probe_free(tree)
            finally:
                _leave(tree, out)
            out["free2"] = _probe_free(tree)
        except BaseException:  # noqa: BLE001
            out["err"] = traceback.format_exc()[-600:]

    t = _thread("owner", body)
    t.join(WD)
    if t.is_alive():
        diffs.append((C_TERM, f"{op} with a raising callback: still running after {WD}s; progress {sorted(out)}"))
        return diffs, True
    if "err" in out:
        raise RuntimeError(out["err"])
    raised = out["r1"] == ("boom",)
    if "unbalanced" in out:
        diffs.append((C_DEPTH, f"the owner's own `with tree:` around a failing {op} could not be left: {out['unbalanced']}"))
    if not out["free1"]:
        diffs.append((C_DEPTH, f"{op} left through {'an exception of its callback' if raised else 'a normal return'}: the tree lock is still held afterwards"))
    if not out["held2"]:
        diffs.append((C_DEPTH, f"{op} left through {'an exception' if raised else 'a return'} inside the owner's `with tree:`: the owner's lock was released as well"))
    if not out["free2"]:
        diffs.append((C_DEPTH, f"lock still held after the owner's `with tree:` around a failing {op}"))
    return diffs, raised


# =========================================================================== stress
_LAB = re.compile(r"\b([pq]\d+_\d+)\b")


def _labels_of(obj) -> set:
    return set(_LAB.findall(obj if isinstance(obj, str) else json.dumps(obj, default=str)))


def _pairs_ok(labels: set):
    for lab in labels:
        twin = ("q" if lab[0] == "p" else "p") + lab[1:]
        if twin not in labels:
            return lab
    return None


def case_stress(cls_name, sd, n_writers, n_sections, ctx, switch=1e-5, min_snaps=80):
    typed = cls_name == "TypedTree"
    spec = gen.Spec(tuple((-1, f"w{i}", None, ("k1" if typed else None)) for i in range(n_writers)), typed=typed)
    tree, nodes, diffs = _build(cls_name, spec, spylock=False)
    W.reset(None)
    ops = [o for o in _ops_for(cls_name) if o not in ("save_path", "save_zip", "to_dotfile_path")]
    stop = threading.Event()
    bad: list = []
    errs: list = []
    stats = {"snapshots": 0, "raw_inconsistent": 0}

    def kw(k):
        return {"kind": k} if typed else {}

    def writer(i):
        rng = random.Random(sd * 100 + i)
        live = []
        try:
            for j in range(n_sections):
                if stop.is_set():
                    break
                with tree:
                    if len(live) > 4 or (live and rng.random() < 0.3):
                        first, second = live.pop(rng.randrange(len(live)))
                        first.remove()
                        time.sleep(0)
                        second.remove()
                    else:
                        p = nodes[i].add(f"p{i}_{j}", **kw("k1"))
                        time.sleep(0)
                        q = (p if rng.random() < 0.5 else nodes[i]).add(f"q{i}_{j}", **kw("k2"))
                        # removal order: a child before its parent
                        live.append((q, p) if q._parent is p else (p, q))
                time.sleep(0)
        except BaseException:  # noqa: BLE001
            errs.append(traceback.format_exc()[-600:])

    def reader(r):
        rng = random.Random(sd * 100 + 50 + r)
        try:
            while not stop.is_set():
                o = rng.choice(ops)
                res = _call(o, tree, ctx)
                stats["snapshots"] += 1
                lab = _pairs_ok(_labels_of(res))
                if lab is not None:
                    bad.append((o, lab, clip(res, 200)))
        except BaseException:  # noqa: BLE001
            errs.append(traceback.format_exc()[-600:])

    def raw_reader():  # sensitivity probe: reads *without* the lock; expected to see torn states
        try:
            while not stop.is_set():
                labs = set()
                for n in view.reachable(tree):
                    labs.add(n._data)
                if _pairs_ok({x for x in labs if _LAB.fullmatch(x)}) is not None:
                    stats["raw_inconsistent"] += 1
        except Exception:  # noqa: BLE001 -- torn reads may even crash the unlocked walker; that is the point
            stats["raw_inconsistent"] += 1

    old = sys.getswitchinterval()
    sys.setswitchinterval(switch)
    try:
        ws = [_thread(f"W{i}", writer, i) for i in range(n_writers)]
        rs = [_thread(f"R{r}", reader, r) for r in range(2)] + [_thread("raw", raw_reader)]
        deadline = time.time() + 3.0
        while time.time() < deadline and stats["snapshots"] < min_snaps and any(t.is_alive() for t in ws):
            time.sleep(0.005)
        stop.set()
        for t in ws:
            t.join(WD)
        for t in rs:
            t.join(WD)
    finally:
        sys.setswitchinterval(old)
    if any(t.is_alive() for t in ws + rs):
        diffs.append((C_TERM, f"stress run: threads still alive: {[t.name for t in ws + rs if t.is_alive()]}"))
    if errs:
        raise RuntimeError("; ".join(errs[:2]))
    for o, lab, res in bad[:3]:
        diffs.append((C_ATOMIC, f"{o} returned a snapshot containing {lab} without its twin (writers add/remove both inside one `with tree:`): {res}"))
    return diffs, stats


# =========================================================================== driver
def _specs(tier: str):
    out = [("Tree", s) for s in gen.plain_specs(3)]
    if tier == "quick":
        out += [("TypedTree", s) for s in gen.typed_specs(2)]
        # a few typed 3-node trees (chain, clone pair, wide, fork)
        extra = [((-1, "a"), (0, "b"), (1, "c")), ((-1, "a"), (0, "b"), (-1, "b")), ((-1, "a"), (-1, "b"), (-1, "c")), ((-1, "a"), (0, "b"), (0, "c"))]
        out += [("TypedTree", gen.Spec(tuple((p, l, None, k) for (p, l), k in zip(e, ("k1", "k2", "k1"))), typed=True)) for e in extra]
    else:
        out += [("TypedTree", s) for s in gen.typed_specs(3)]
        rng = random.Random(seed() * 7919 + 18)
        out += [("Tree", gen.random_spec(rng, rng.randint(4, 6))) for _ in range(40)]
        out += [("TypedTree", gen.random_spec(rng, rng.randint(4, 6), typed=True)) for _ in range(40)]
    return out


def _items(tier: str, only=None):
    """Work items (group, cls, spec, ...)."""
    items = []
    specs = _specs(tier)
    rng = random.Random(seed() * 104729 + 1801)

    def want(g):
        return only is None or only == g

    for cls_name, spec in specs:
        ops = _ops_for(cls_name)
        for mut in MUTS:
            for op in ops:
                if want("writer-first"):
                    items.append(("writer-first", cls_name, spec, mut, op))
                # for the reader-first schedule the writer only queues up: two writers suffice in quick
                if want("reader-first") and (tier != "quick" or mut in ("add2", "clear_add")):
                    items.append(("reader-first", cls_name, spec, mut, op))
        if want("reentrant"):
            for op in ops:
                for depth in (2, 3):
                    items.append(("reentrant", cls_name, spec, op, depth))
        if want("reentrant-waiting") and len(spec) == 2:
            for op in ops:
                for op2 in ops:
                    if tier != "quick" or op == op2 or (sum(map(ord, op + "|" + op2)) % 3 == 0):
                        items.append(("reentrant-waiting", cls_name, spec, op, op2))
        if want("exception") and len(spec) >= 1:
            for op in _ops_for(cls_name, XOPS):
                items.append(("exception", cls_name, spec, op))
        if want("two-writers") and len(spec) <= 2:
            for mut in ("add2", "ren2"):
                for _ in range(3 if tier == "quick" else 8):
                    op, op2 = rng.choice(ops), rng.choice(ops)
                    items.append(("two-writers", cls_name, spec, mut, op, op2))
    if want("blackbox"):
        bb = {"Tree": gen.Spec(((-1, "a", None, None), (0, "b", None, None))), "TypedTree": gen.Spec(((-1, "a", None, "k1"), (0, "b", None, "k2")), typed=True)}
        for cls_name, spec in bb.items():
            for op in _ops_for(cls_name):
                items.append(("blackbox", cls_name, spec, "add2", op))
    if want("stress"):
        for i in range(16 if tier == "quick" else 96):
            items.append(("stress", ("Tree", "TypedTree")[i % 2], seed() * 1000 + i, 2 + (i // 2) % 2, 400 if tier == "quick" else 1500))
    return items


def _witness(item) -> dict:
    g = item[0]
    w = {"group": g, "cls": item[1]}
    if g == "stress":
        w.update(seed=item[2], writers=item[3], sections=item[4])
        return w
    w["spec"] = _spec_json(item[2])
    if g in ("writer-first", "reader-first", "blackbox"):
        w.update(mut=item[3], op=item[4])
        if len(item) > 5:
            w["k"] = item[5]
    elif g == "reentrant":
        w.update(op=item[3], depth=item[4])
    elif g == "exception":
        w.update(op=item[3])
    elif g == "reentrant-waiting":
        w.update(op=item[3], op2=item[4])
    elif g == "two-writers":
        w.update(mut=item[3], op=item[4], op2=item[5])
    return w


def _item_of(w: dict):
    g = w["group"]
    if g == "stress":
        return (g, w["cls"], w["seed"], w["writers"], w["sections"])
    spec = spec_from_json(w["spec"])
    if g in ("writer-first", "blackbox"):
        return (g, w["cls"], spec, w["mut"], w["op"])
    if g == "reader-first":
        return (g, w["cls"], spec, w["mut"], w["op"], w["k"])
    if g == "reentrant":
        return (g, w["cls"], spec, w["op"], w["depth"])
    if g == "exception":
        return (g, w["cls"], spec, w["op"])
    if g == "reentrant-waiting":
        return (g, w["cls"], spec, w["op"], w["op2"])
    if g == "two-writers":
        return (g, w["cls"], spec, w["mut"], w["op"], w["op2"])
    raise ValueError(g)


def _eval(item, ctx):
    """-> list of (sub_item, diffs, nontrivial, func)."""
    _LOCKERRS.clear()
    outs = _eval0(item, ctx)
    if _LOCKERRS and outs:
        outs[0][1].append((C_DEPTH, f"lock protocol error raised by the library: {sorted(set(_LOCKERRS))[:3]}"))
    _LOCKERRS.clear()
    return outs


def _eval0(item, ctx):
    g, cls_name = item[0], item[1]
    if g == "writer-first" or g == "blackbox":
        _g, _c, spec, mut, op = item
        r = case_writer_first(cls_name, spec, mut, op, ctx, spylock=(g == "writer-first"))
        return [] if r is None else [(item, r[0], r[1], _func_of(op, cls_name))]
    if g == "reader-first":
        spec, mut, op = item[2], item[3], item[4]
        if len(item) > 5:
            ks = [item[5]]
        else:
            n = _count_reads(cls_name, spec, op, ctx)
            if ctx.get("tier") == "thorough":  # every read up to 12, else a spread of 7 positions
                ks = sorted({k for k in (list(range(1, n + 1)) if n <= 12 else (1, 2, n // 3, n // 2, 2 * n // 3, n - 1, n)) if k >= 1})
            else:
                ks = sorted({k for k in (1, (n + 1) // 2, n) if k >= 1})
        out = []
        for k in ks:
            r = case_reader_first(cls_name, spec, mut, op, k, ctx)
            if r is not None:
                out.append((item[:5] + (k,), r[0], r[1], _func_of(op, cls_name)))
        return out
    if g == "reentrant":
        r = case_reentrant(cls_name, item[2], item[3], item[4], ctx)
        return [(item, r[0], r[1], _func_of(item[3], cls_name))]
    if g == "exception":
        r = case_exception(cls_name, item[2], item[3], ctx)
        return [(item, r[0], r[1], _func_of(item[3], cls_name))]
    if g == "reentrant-waiting":
        r = case_reentrant_waiting(cls_name, item[2], item[3], item[4], ctx)
        return [(item, r[0], r[1], _func_of(item[3], cls_name) + " / " + _func_of(item[4], cls_name))]
    if g == "two-writers":
        r = case_two_writers(cls_name, item[2], item[3], item[4], item[5], ctx)
        return [] if r is None else [(item, r[0], r[1], _func_of(item[4], cls_name) + " / " + _func_of(item[5], cls_name))]
    if g == "stress":
        diffs, stats = case_stress(cls_name, item[2], item[3], item[4], ctx, min_snaps=item[4] // 5)
        return [(item, diffs, True, "snapshot operations (free-running)", stats)]
    raise ValueError(g)


def _case_repr(item) -> str:
    parts = [item[0], item[1]]
    for x in item[2:]:
        parts.append(x.short() if isinstance(x, gen.Spec) else str(x))
    return " | ".join(parts)


_POISONED = [False]


def _run_chunk(chunk, prop, tier="quick", scratch_root=None):
    res = Result(prop)
    d = tempfile.mkdtemp(prefix="c18_", dir=scratch_root)
    ctx = {"dir": d, "tier": tier}
    snaps = raw_bad = 0
    try:
        timeouts = 1 if _POISONED[0] else 0  # a worker process that met a deadlock in an earlier chunk stays unusable
        for pos, item in enumerate(chunk):
            # circuit breaker: a leaked lock makes every later wait run into the watchdog
            # (after the first deadlock in this process a thread may hold a lock for good: nothing later here is reliable)
            if timeouts >= 1 or (_BREAKER is not None and _BREAKER.value >= 8):
                res.notes.append(("skipped", len(chunk) - pos))
                break
            try:
                outs = _eval(item, ctx)
            except Exception:  # noqa: BLE001
                res.errors.append(f"{_case_repr(item)}: {traceback.format_exc()[-900:]}")
                W.reset(None)
                continue
            for o in outs:
                sub, diffs, nontrivial, func = o[:4]
                if len(o) > 4:
                    snaps += o[4]["snapshots"]
                    raw_bad += o[4]["raw_inconsistent"]
                res.add_case(_case_repr(sub), nontrivial=nontrivial)
                for clause, text in diffs:
                    res.violations.append(Violation(prop, clause, func, _witness(sub), clip(text)))
                if any(c == C_TERM for c, _t in diffs):
                    timeouts += 1
                    _POISONED[0] = True
                    if _BREAKER is not None:
                        with _BREAKER.get_lock():
                            _BREAKER.value += 1
    finally:
        shutil.rmtree(d, ignore_errors=True)
    if snaps:
        res.notes.append(("stress", snaps, raw_bad))
    return res


def run(prop: str, tier: str, only=None) -> Result:
    global _BREAKER
    import multiprocessing as mp

    _BREAKER = mp.get_context("fork").Value("i", 0)
    items = _items(tier, only)
    # stress items last and spread evenly; everything else in enumeration order
    scratch_root = tempfile.mkdtemp(prefix="c18_run_")  # all per-chunk scratch folders live below; removed here
    try:
        res = parallel(_run_chunk, items, prop, tier, scratch_root, prop=prop, chunks_per_proc=6)
    finally:
        shutil.rmtree(scratch_root, ignore_errors=True)
    snaps = sum(n[1] for n in res.notes if isinstance(n, tuple) and n[0] == "stress")
    raw_bad = sum(n[2] for n in res.notes if isinstance(n, tuple) and n[0] == "stress")
    res.notes = [n for n in res.notes if not (isinstance(n, tuple) and n[0] == "stress")]
    skipped = sum(n[1] for n in res.notes if isinstance(n, tuple) and n[0] == "skipped")
    res.notes = [n for n in res.notes if not (isinstance(n, tuple) and n[0] == "skipped")]
    if skipped:
        res.notes.append(f"circuit breaker: {skipped} cases not evaluated after repeated watchdog time-outs (see the `terminates` violations)")
    if snaps:
        res.notes.append(f"stress: {snaps} snapshots taken by free-running readers all satisfied the writers' pair invariant; "
                         f"sensitivity probe: an unlocked raw walker of the same trees saw {raw_bad} torn states")
    specs_txt = ("all plain trees with <= 3 nodes over labels {a,b,c} (clones incl.); all typed trees with <= 2 nodes over {a,b} x kinds {k1,k2} + 4 typed three-node trees (chain, clone pair, wide, fork)"
                 if tier == "quick" else
                 f"all plain trees with <= 3 nodes over {{a,b,c}} (clones incl.), all typed trees with <= 3 nodes over {{a,b}} x kinds {{k1,k2}}, 80 random 4..6-node plain/typed trees (VERIF_SEED={seed()})")
    res.bounds["controlled schedules (writer-first, reader-first)"] = (
        f"{specs_txt} x two-step writers {list(MUTS)} x operations {list(OPS)} (Tree and TypedTree; TypedTree.save incl. value_map variants); "
        "writer-first: reader started while the writer is parked between its two steps; reader-first: reader parked in its " + ("first / middle / last" if tier == "quick" else "every (<= 12 reads) or 7 spread") + " structure read(s) while the writer queues up"
        + (" (reader-first: writers add2 and clear_add only)" if tier == "quick" else ""))
    res.bounds["reentrant / exception"] = "same trees x every operation x nesting depth 2 and 3 (watchdog %.0fs); the owner calling an operation inside its section while another thread waits in an operation (every pair of equal operations + a third of the mixed pairs in the quick tier, all pairs in the thorough tier; 2-node trees); raising mapper/predicate callbacks for save, to_dict_list, copy(predicate), to_dotfile" % WD
    res.bounds["two-writers"] = "trees with <= 2 nodes x {add2, ren2} x sampled operation pairs: writer A parked inside, writer A2 and readers B, B2 queued"
    res.bounds["blackbox"] = "one 2-node tree per class x every operation with the untouched RLock (bounded join 0.12s instead of lock instrumentation)"
    res.bounds["stress"] = f"{16 if tier == 'quick' else 96} free-running runs (2-3 writers x up to {400 if tier == 'quick' else 1500} critical sections, 2 readers over all operations until {80 if tier == 'quick' else 300} snapshots or 3s, switch interval 1e-5s): random schedules"
    res.exhaustive = False  # thread schedules are not enumerated exhaustively (and the stress group is random)
    res.notes.append("schedules are controlled hand-overs at fixed points (between the writer's two steps; inside the reader's k-th structure read), not all interleavings; mutual exclusion of threading.RLock itself is assumed")
    return res


def replay(witness: dict, prop: str):
    item = _item_of(witness)
    d = tempfile.mkdtemp(prefix="c18_")
    try:
        out = []
        for o in _eval(item, {"dir": d}):
            out += list(o[1])
        return out
    finally:
        shutil.rmtree(d, ignore_errors=True)
