"""C14 -- the nested list-of-dicts form round-trips and mirrors the tree (bounded tier).

For every enumerated small tree (string data without mapper; objects with a pair of inverse
mappers; clones; explicit data_ids; equal data under distinct ids; unicode) on the real code:

  structure   tree.to_dict_list(mapper=) is a list with one dict per node, nested like the tree and in
              child order; "data" == str(data) (or what the mapper made of the dict), "data_id" present
              iff the node's id is not the default hash(data) (and then equal), "children" present iff
              the node has children; node.to_dict() of every node equals its sub-dict; the structure is
              JSON-serialisable.  The expectation is computed from the raw slots.
  round trip  Tree.from_dict(tree.to_dict_list()) -- directly and after json.loads(json.dumps(..)) --
              is a Tree with the same shape, child order, data, custom data_ids and clone groups
              (partition of the nodes by data_id); Node.from_dict() below an existing childless node
              rebuilds the same branch.
  empty       an emptied tree (node added and removed again, cleared, never filled) gives []; a node
              whose children were removed has no "children" member.
"""
from __future__ import annotations

import dataclasses
import json
import traceback

from nutree import Tree

from .. import gen, view
from ..harness import Result, Violation, clip, parallel
from . import c05
from .c05 import Ent, Rec, Desc, describe, render, time_limit, _Timeout, _Keep, fold_counts, UNI
from .mut import _spec_json, spec_from_json


# ---------------------------------------------------------------- mapper pairs
def rec_ser_inplace(node, data):  # modifies the dict in place, returns None (documented style 1)
    data["type"] = "rec"
    data["name"] = node.data.name
    data["size"] = node.data.size


def rec_de_fields(parent, item):
    return Rec(item["name"], item["size"])


def rec_ser_new(node, data):  # returns a new dict (documented style 2)
    new = {"rec": [node.data.name, node.data.size]}
    if "data_id" in data:
        new["data_id"] = data["data_id"]
    return new


def rec_de_list(parent, item):
    name, size = item["rec"]
    return Rec(name, size)


def ent_ser(node, data):
    data["name"] = node.data.name
    data["guid"] = node.data.guid
    return data


def ent_de(parent, item):
    return Ent(item["name"], item["guid"])


@dataclasses.dataclass(frozen=True)
class Bag:
    """Frozen dataclass that is *falsy* (an empty container): what the mapper returns must be taken as the
    node's data whatever its truth value."""

    name: str

    def __len__(self):
        return 0


def bag_ser(node, data):
    data["bag"] = node.data.name


def bag_de(parent, item):
    return Bag(item["bag"])


def _f_bag(obj, base):
    base["bag"] = obj.name
    return base


def rec_ser_guid(node, data):
    """stores the custom id under another key ('guid') instead of 'data_id' ..."""
    data["name"] = node.data.name
    data["size"] = node.data.size
    if "data_id" in data:
        data["guid"] = data.pop("data_id")


def rec_de_guid(parent, item):
    """... and hands it back the documented way: the mapper *sets* item['data_id'] (from_dict reads it afterwards)"""
    if "guid" in item:
        item["data_id"] = item["guid"]
    return Rec(item["name"], item["size"])


def _f_rec_guid(obj, base):
    base.update({"name": obj.name, "size": obj.size})
    if "data_id" in base:
        base["guid"] = base.pop("data_id")
    return base


def _guid_id(tree, data):
    return data.guid if isinstance(data, Ent) else hash(data)


def rec_ser_indata(node, data):
    """keeps the whole object inside the standard 'data' field (an encoded string) and adds no key of its own"""
    data["data"] = f"{node.data.name}|{node.data.size}"


def rec_de_indata(parent, item):
    name, _, size = item["data"].rpartition("|")
    return Rec(name, int(size))


def _f_rec_indata(obj, base):
    base["data"] = f"{obj.name}|{obj.size}"
    return base


class DFam:
    def __init__(self, name, *, new_tree, mk, ser, de, fields, roundtrip=True, guid=False):
        self.name, self.new_tree, self.mk, self.ser, self.de, self.fields, self.roundtrip, self.guid = name, new_tree, mk, ser, de, fields, roundtrip, guid
        self.typed = False


def _f_plain(obj, base):
    return base


def _f_rec_inplace(obj, base):
    base.update({"type": "rec", "name": obj.name, "size": obj.size})
    return base


def _f_rec_new(obj, base):
    new = {"rec": [obj.name, obj.size]}
    if "data_id" in base:
        new["data_id"] = base["data_id"]
    return new


def _f_ent(obj, base):
    base["name"] = obj.name
    base["guid"] = obj.guid
    return base


DFAMS = {
    "str": DFam("str", new_tree=lambda: Tree("T"), mk=c05.mk_str, ser=None, de=None, fields=_f_plain),
    "rec_inplace": DFam("rec_inplace", new_tree=lambda: Tree("T"), mk=c05.mk_rec, ser=rec_ser_inplace, de=rec_de_fields, fields=_f_rec_inplace),
    "rec_new": DFam("rec_new", new_tree=lambda: Tree("T"), mk=c05.mk_rec, ser=rec_ser_new, de=rec_de_list, fields=_f_rec_new),
    "rec_indata": DFam("rec_indata", new_tree=lambda: Tree("T"), mk=c05.mk_rec, ser=rec_ser_indata, de=rec_de_indata, fields=_f_rec_indata),
    "ent": DFam("ent", new_tree=lambda: Tree("T", calc_data_id=_guid_id), mk=c05.mk_ent, ser=ent_ser, de=ent_de, fields=_f_ent, guid=True),
    "rec_guid": DFam("rec_guid", new_tree=lambda: Tree("T"), mk=c05.mk_rec, ser=rec_ser_guid, de=rec_de_guid, fields=_f_rec_guid),
    "bag": DFam("bag", new_tree=lambda: Tree("T"), mk=c05._memo(lambda lab: Bag(lab)), ser=bag_ser, de=bag_de, fields=_f_bag),
    # objects without mapper: only the structure ("data" is the string form) is promised
    "int": DFam("int", new_tree=lambda: Tree("T"), mk=c05._memo(lambda lab: 1000 + sum(ord(c) for c in lab)), ser=None, de=None, fields=_f_plain, roundtrip=False),
    "tuple": DFam("tuple", new_tree=lambda: Tree("T"), mk=c05._memo(lambda lab: (lab, len(lab))), ser=None, de=None, fields=_f_plain, roundtrip=False),
}

S_LIST = "to_dict_list: returns a list with one dict per top-level node, in child order"
S_DATA = "to_dict: 'data' == str(node.data) (or the mapper's output)"
S_ID = "to_dict: 'data_id' present iff data_id != hash(data), and equal to it"
S_CHILDREN = "to_dict: 'children' present iff the node has children; one dict per child, in child order"
S_KEYS = "to_dict: dict carries exactly data[, data_id][, children] plus the mapper's fields"
S_NODE = "Node.to_dict() equals the node's sub-dict of Tree.to_dict_list()"
S_JSON = "to_dict_list: result is JSON-serialisable"
S_EXC = "to_dict_list() raises no exception"
S_EMPTY = "to_dict_list: emptied tree gives []"
R_EXC = "from_dict(to_dict_list()) raises no exception"
R_CLASS = "from_dict: result is a Tree"
R_TREE = "from_dict(to_dict_list()) reproduces the tree"
R_JSON = "from_dict(json.loads(json.dumps(to_dict_list()))) reproduces the tree"
R_NODE = "Node.from_dict() below a childless node rebuilds the branch"
R_PARENT = "from_dict: the mapper is called with the parent node of the node being created"
TIMEOUT = "to_dict_list()/from_dict() terminates"


# ---------------------------------------------------------------- structure
def expected_item(fam: DFam, node) -> dict:
    """Expected dict of one node (without 'children'), from raw slots."""
    base = {"data": str(node._data)}
    try:
        custom = node._data_id != hash(node._data)
    except TypeError:
        custom = True
    if custom:
        base["data_id"] = node._data_id
    return fam.fields(node._data, base)


def diff_item(fam: DFam, node, item, path: str) -> list:
    """Compare the dict `item` with node (recursively)."""
    if not isinstance(item, dict):
        return [(S_LIST, f"{path}: {item!r} is not a dict")]
    exp = expected_item(fam, node)
    out = []
    if "data" in exp and item.get("data") != exp["data"]:
        out.append((S_DATA, f"{path}: 'data' is {item.get('data', '<missing>')!r}, expected {exp['data']!r}"))
    if ("data_id" in item) != ("data_id" in exp) or item.get("data_id") != exp.get("data_id"):
        out.append((S_ID, f"{path}: 'data_id' is {item.get('data_id', '<absent>')!r}, expected {exp.get('data_id', '<absent>')!r} (node data_id {node._data_id!r})"))
    own = {k: v for k, v in item.items() if k != "children"}
    if not out and own != exp:
        out.append((S_KEYS if fam.ser is None or set(own) != set(exp) else S_DATA, f"{path}: dict {clip(own, 150)}, expected {clip(exp, 150)}"))
    kids = view.kids(node)
    ch = item.get("children", None)
    if bool(kids) != ("children" in item):
        out.append((S_CHILDREN, f"{path}: 'children' is {'present' if 'children' in item else 'absent'} ({ch!r}) for a node with {len(kids)} children"))
    elif kids:
        if not isinstance(ch, list) or len(ch) != len(kids):
            out.append((S_CHILDREN, f"{path}: {len(ch) if isinstance(ch, list) else ch!r} child dicts for {len(kids)} children"))
        else:
            for i, (c, ci) in enumerate(zip(kids, ch)):
                out += diff_item(fam, c, ci, f"{path}.{i}")
    return out


def check_structure(fam: DFam, tree) -> tuple:
    """Returns (diffs, dict_list|None)."""
    kw = {"mapper": fam.ser} if fam.ser is not None else {}
    try:
        with time_limit(10):
            lst = tree.to_dict_list(**kw)
    except _Timeout:
        return [(TIMEOUT, "to_dict_list() did not return within 10 s")], None
    except Exception as e:  # noqa: BLE001
        return [(S_EXC, f"to_dict_list() raised {type(e).__name__}: {clip(str(e), 200)}")], None
    top = view.kids(tree._root)
    if not isinstance(lst, list) or len(lst) != len(top):
        return [(S_LIST, f"result {clip(lst, 200)} for {len(top)} top-level nodes")], None
    diffs = []
    for i, (n, item) in enumerate(zip(top, lst)):
        diffs += diff_item(fam, n, item, f"[{i}]")
    try:
        json.dumps(lst)
    except (TypeError, ValueError) as e:
        diffs.append((S_JSON, f"json.dumps failed: {e}"))
    # every node's own to_dict()
    if not diffs:
        stack = list(zip(top, lst))
        while stack:
            n, item = stack.pop()
            try:
                own = n.to_dict(**kw)
            except Exception as e:  # noqa: BLE001
                diffs.append((S_NODE, f"{n._data!r}.to_dict() raised {type(e).__name__}: {e}"))
                break
            if own != item:
                diffs.append((S_NODE, f"{n._data!r}.to_dict() = {clip(own, 150)} != {clip(item, 150)}"))
                break
            stack += list(zip(view.kids(n), item.get("children", [])))
    return diffs, lst


# ---------------------------------------------------------------- round trip
def _strip(diffs):
    return [(c, t) for c, t in diffs if c != c05.CL_SHARED and c != c05.CL_KINDS]


def _below_root(exp: Desc) -> Desc:
    d = Desc()
    d.parents = [-1] + [p + 1 for p in exp.parents]
    d.data = [("str", "root")] + list(exp.data)
    d.ids = [("H",)] + list(exp.ids)
    d.kinds = [None] + list(exp.kinds)
    d.groups = tuple(sorted([(0,)] + [tuple(i + 1 for i in g) for g in exp.groups]))
    d.shared = tuple(True for _ in d.groups)
    return d


def check_roundtrip(fam: DFam, tree, lst) -> list:
    exp = describe(tree)
    rec = c05.ParentRecorder(fam.de) if fam.de is not None else None
    kw = {"mapper": rec} if rec is not None else {}
    diffs = []
    variants = [(R_TREE, lambda: lst)]
    variants.append((R_JSON, lambda: json.loads(json.dumps(lst))))
    for clause, get in variants:
        try:
            with time_limit(10):
                t2 = Tree.from_dict(get(), **kw)
        except _Timeout:
            diffs.append((TIMEOUT, "from_dict() did not return within 10 s"))
            continue
        except Exception as e:  # noqa: BLE001
            diffs.append((R_EXC, f"[{clause}] raised {type(e).__name__}: {clip(str(e), 200)} for {clip(lst, 200)}"))
            continue
        if type(t2) is not Tree:
            diffs.append((R_CLASS, f"result is a {type(t2).__name__}"))
        wf = view.wf_violations(t2)
        if wf:
            diffs.append((clause, "result is not well-formed: " + "; ".join(wf)))
        try:
            got = describe(t2)
        except RuntimeError as e:
            diffs.append((clause, str(e)))
            continue
        for c, t in _strip(c05.compare(exp, got)):
            diffs.append((clause, f"{c}: {t}; dict list {clip(lst, 200)}"))
        if rec is not None:
            diffs += [(R_PARENT, t) for t in rec.misplaced(t2)[:2]]
            rec.calls.clear()
    # Node.from_dict below an existing node
    try:
        with time_limit(10):
            t3 = Tree("T3")
            root = t3.add("root")
            root.from_dict(json.loads(json.dumps(lst)), **kw)
        got = describe(t3)
        for c, t in _strip(c05.compare(_below_root(exp), got)):
            diffs.append((R_NODE, f"{c}: {t}"))
        if rec is not None:
            diffs += [(R_PARENT, "[Node.from_dict] " + t) for t in rec.misplaced(t3)[:2]]
    except _Timeout:
        diffs.append((TIMEOUT, "Node.from_dict() did not return within 10 s"))
    except Exception as e:  # noqa: BLE001
        diffs.append((R_NODE, f"raised {type(e).__name__}: {clip(str(e), 200)}"))
    return diffs


# ---------------------------------------------------------------- emptied trees
def _emptied():
    def never():
        return Tree("E")

    def add_remove():
        t = Tree("E")
        t.add("a").remove()
        return t

    def add_branch_remove():
        t = Tree("E")
        a = t.add("a")
        a.add("b")
        a.remove()
        return t

    def two_removed():
        t = Tree("E")
        a, b = t.add("a"), t.add("b")
        b.remove()
        a.remove()
        return t

    def cleared():
        t = Tree("E")
        t.add("a").add("b")
        t.clear()
        return t

    def delitem():
        t = Tree("E")
        t.add("a")
        del t["a"]
        return t

    def remove_children():
        t = Tree("E")
        t.add("a")
        t.add("b")
        t._root.remove_children()
        return t

    def from_empty():
        return Tree.from_dict([])

    return [never, add_remove, add_branch_remove, two_removed, cleared, delitem, remove_children, from_empty]


def check_emptied(name: str) -> list:
    fn = {f.__name__: f for f in _emptied()}[name]
    t = fn()
    out = []
    for kw in ({}, {"mapper": lambda n, d: d}):
        try:
            r = t.to_dict_list(**kw)
        except Exception as e:  # noqa: BLE001
            out.append((S_EMPTY, f"tree emptied by '{name}': to_dict_list({'mapper' if kw else ''}) raised {type(e).__name__}: {e}"))
            continue
        if r != [] or not isinstance(r, list):
            out.append((S_EMPTY, f"tree emptied by '{name}': to_dict_list() = {r!r}"))
    return out


# ---------------------------------------------------------------- enumeration / driver
def case_list(tier: str):
    N = 4 if tier == "quick" else 5
    out = []
    strs = list(gen.plain_specs(N)) + list(gen.plain_specs(N - 1, alphabet=UNI)) + list(gen.eqpair_specs(N)) + list(gen.explicit_id_specs(N))
    strs += list(c05.idclone_specs(N, ids=("id7", 0, "", "007", "a")))  # "007": a str id that looks like a number stays a str
    out += [("str", s) for s in strs]
    # *different* data filed under one explicit data_id (set_data(new, data_id=same, with_clones=False) / an id hook keyed by
    # a guid leads there): every node keeps its own data, the group is still one clone group
    shared = list(gen.shared_id_specs(N))
    out += [("str", s) for s in shared]
    objs = list(gen.plain_specs(N)) + list(c05.idclone_specs(N, ids=("id7", "1001"))) + list(gen.explicit_id_specs(N - 1))
    for f in ("rec_inplace", "rec_new"):
        out += [(f, s) for s in objs]
    out += [("rec_guid", s) for s in c05.idclone_specs(N - 1, ids=("id7", 0))] + [("rec_guid", s) for s in gen.explicit_id_specs(N - 1)]
    out += [("bag", s) for s in gen.plain_specs(N - 1)] + [("bag", s) for s in c05.idclone_specs(N - 1, ids=("id7", 0))]
    out += [("rec_indata", s) for s in gen.plain_specs(N - 1)] + [("rec_indata", s) for s in c05.idclone_specs(N - 1, ids=("id7", 0))]
    out += [("ent", s) for s in gen.plain_specs(N)]
    out += [("ent", s) for s in c05.idclone_specs(N - 1)]
    for f in ("int", "tuple"):
        out += [(f, s) for s in gen.plain_specs(N - 1)]
        out += [(f, s) for s in gen.explicit_id_specs(2)]
    # trees reached by a history (all accessors evaluated, then one change) and larger trees
    hs = gen.history_specs(gen.plain_specs(N - 1))
    # (a history that keeps an id while the data changes fixes the id's value in the string flavour: string trees only)
    out += [("str", s) for s in hs] + [("rec_inplace", s) for s in hs]
    nb = 6 if tier == "quick" else 40
    out += [("str", s) for s in gen.big_specs(14, nb, lo=18, hi=40)] + [("rec_new", s) for s in gen.big_specs(15, nb, lo=18, hi=40)]
    return out


def evaluate(fam: DFam, spec: gen.Spec, strip_at=None) -> list:
    """All clauses for one tree.  `strip_at`: remove the children of that node first."""
    tree, nodes = c05.build(fam, spec)
    if strip_at is not None:
        nodes[strip_at].remove_children()
    diffs, lst = check_structure(fam, tree)
    if lst is not None and not diffs and fam.roundtrip:
        diffs += check_roundtrip(fam, tree, lst)
    return diffs


def _chunk(chunk, prop):
    res = Result(prop)
    keep = _Keep()
    for famname, spec in chunk:
        fam = DFAMS[famname]
        try:
            tree, _ = c05.build(fam, spec)
            if describe(tree).sig() != c05.desc_from_spec(fam, spec).sig():
                res.errors.append(f"precondition: built tree is not the tree of spec {famname} {spec.short()}")
                continue
            inner = [i for i in range(len(spec)) if any(r[0] == i for r in spec.nodes)]
            for strip_at in [None] + (inner if famname in ("str", "rec_inplace") else []):
                diffs = evaluate(fam, spec, strip_at)
                res.add_case(f"{famname} {spec.short()}" + (f" -children({strip_at})" if strip_at is not None else ""), nontrivial=len(spec) > 0)
                for clause, text in diffs:
                    w = {"part": "tree", "family": famname, "spec": _spec_json(spec), "strip_at": strip_at, "clause": clause}
                    func = "Tree.to_dict_list / Node.to_dict" if clause.startswith(("to_dict", "Node.to_dict")) else "Tree.from_dict / Node.from_dict"
                    keep.add(Violation(prop, clause, func, w, clip(f"[{famname}] {spec.short()}" + (f" after remove_children() of node #{strip_at + 1}" if strip_at is not None else "") + f": {text}")), len(spec))
        except Exception:  # noqa: BLE001
            res.errors.append(f"{famname} {spec.short()}: {traceback.format_exc()[-900:]}")
    keep.flush(res)
    return res


def run(prop: str, tier: str, only=None) -> Result:
    cases = case_list(tier)
    res = parallel(_chunk, cases, prop, prop=prop, chunks_per_proc=8)
    try:
        for fn in _emptied():
            res.add_case(f"emptied {fn.__name__}")
            for clause, text in check_emptied(fn.__name__):
                res.violations.append(Violation(prop, clause, "Tree.to_dict_list", {"part": "emptied", "name": fn.__name__, "clause": clause}, clip(text)))
    except Exception:  # noqa: BLE001
        res.errors.append(traceback.format_exc()[-1200:])
    fold_counts(res)
    N = 4 if tier == "quick" else 5
    res.bounds["Tree.to_dict_list / Node.to_dict / Tree.from_dict / Node.from_dict"] = (
        f"{len(cases)} trees, exhaustive: string trees <= {N} nodes over {{a,b,c}} with clones at every position, unicode labels <= {N - 1}, equal data under ids 1/2 <= {N}, "
        f"one explicit id <= {N}, explicit-id clone groups (ids 'id7', 0, '', '007', and 'a' = the node's own string form) <= {N}; frozen-dataclass trees <= {N} with three inverse mapper pairs "
        f"(in-place / new dict / whole object inside 'data', no extra key) incl. explicit ids; falsy (empty-container) dataclass objects <= {N - 1} incl. explicit-id clone groups; identity-hashed objects keyed by guid (calc_data_id) <= {N}; int and tuple data without mapper <= {N - 1} "
        f"(structure only); each string/dataclass tree also after remove_children() of every inner node; round trip directly, through json.dumps/loads, and "
        f"through Node.from_dict below a childless node; {len(_emptied())} emptied trees"
    )
    return res


def replay(witness: dict, prop: str) -> list:
    want = witness.get("clause")
    if witness.get("part") == "emptied":
        diffs = check_emptied(witness["name"])
    else:
        diffs = evaluate(DFAMS[witness["family"]], spec_from_json(witness["spec"]), witness.get("strip_at"))
    return [(c, t) for c, t in diffs if want is None or c == want]
