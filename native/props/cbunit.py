"""Run-time check of the sidecar contracts of the three callback adapters of nutree.common
(call_mapper, call_predicate, call_traversal_cb) on the real functions, over an enumerated
set of callback behaviours (bounded tier; the same contracts are proved in contracts/callbacks.py).

The adapters sit between every user callback and the library, so each property that is
quantified over callbacks depends on them: call_mapper -> C05 C12 C14 C17, call_predicate -> C08,
call_traversal_cb -> C06.  A case is (function, behaviour-name); the behaviours are listed below.
"""
from __future__ import annotations

import warnings

from nutree import Tree
from nutree.common import SelectBranch, SkipBranch, StopTraversal, call_mapper, call_predicate, call_traversal_cb

from ..harness import Result, Violation, clip

FUNCS = {
    "C05": ("call_mapper",), "C12": ("call_mapper",), "C14": ("call_mapper",), "C17": ("call_mapper",),
    "C08": ("call_predicate",), "C06": ("call_traversal_cb",),
    "C02": ("DictWrapper",),
}
FUNCS["C05"] = FUNCS["C05"] + ("DictWrapper",)

D_CL = "DictWrapper(d) refers to the dict d itself (identity), whatever d holds at that moment; wrappers of one dict are equal and hash alike, wrappers of different dicts are not; DictWrapper(**kw) wraps a new dict of kw"

M_CL = "result == fn(node, data), or data itself when fn is None / returns None"
P_CL = "result == fn(node), a returned control class instantiated, a raised control value returned as an equivalent value (StopIteration(v) as StopTraversal(v))"
T_CL = "result: None -> None, skip -> False, stop -> raises StopTraversal carrying the signal's value; other exceptions propagate"


class _Empty:  # falsy user object
    def __len__(self):
        return 0

    def __repr__(self):
        return "<falsy object>"


def _values():
    return {"0": 0, "empty str": "", "empty tuple": (), "empty list": [], "empty dict": {}, "False": False, "0.0": 0.0, "falsy object": _Empty(),
            "dict": {"a": 1}, "str": "x", "True": True, "object": object(), "int": 7}


class _UserError(Exception):
    pass


def _node():
    t = Tree("T")
    return t.add("n")


def _mapper_cases():
    out = ["fn is None", "returns None", "raises"]
    out += [f"returns {k}" for k in _values()]
    return out


def check_mapper(case: str) -> list:
    node, data, calls = _node(), {"data": "n"}, []
    if case == "fn is None":
        r = call_mapper(None, node, data)
        return [] if r is data else [(M_CL, f"call_mapper(None, node, data) returned {r!r}, required the data object itself")]
    if case == "raises":
        err = _UserError("boom")

        def fn(n, d):
            raise err

        try:
            r = call_mapper(fn, node, data)
        except _UserError as e:
            return [] if e is err else [(M_CL, "the mapper's exception was replaced")]
        except Exception as e:  # noqa: BLE001
            return [(M_CL, f"mapper raised UserError, call_mapper raised {type(e).__name__}: {e}")]
        return [(M_CL, f"mapper raised UserError, call_mapper returned {r!r}")]
    v = None if case == "returns None" else _values()[case[len("returns "):]]

    def fn(n, d):
        calls.append((n, d))
        return v

    try:
        r = call_mapper(fn, node, data)
    except Exception as e:  # noqa: BLE001
        return [(M_CL, f"mapper {case}: call_mapper raised {type(e).__name__}: {e}")]
    out = []
    if len(calls) != 1 or calls[0][0] is not node or calls[0][1] is not data:
        out.append((M_CL, f"mapper {case}: fn was called {len(calls)} times / with other arguments"))
    want = data if v is None else v
    if r is not want:
        out.append((M_CL, f"mapper {case}: call_mapper returned {r!r}, required {want!r}"))
    return out


_CTRL = {
    "SkipBranch": lambda: SkipBranch(), "SkipBranch(and_self=True)": lambda: SkipBranch(and_self=True), "SkipBranch(and_self=False)": lambda: SkipBranch(and_self=False),
    "SelectBranch": lambda: SelectBranch(), "StopTraversal": lambda: StopTraversal(), "StopTraversal(7)": lambda: StopTraversal(7), "StopTraversal('')": lambda: StopTraversal(""),
}
_CLS = {"SkipBranch": SkipBranch, "SelectBranch": SelectBranch, "StopTraversal": StopTraversal}


def _same_ctrl(a, b) -> bool:
    if type(a) is not type(b):
        return False
    if isinstance(a, SkipBranch):
        return a.and_self is b.and_self or a.and_self == b.and_self and type(a.and_self) is type(b.and_self)
    if isinstance(a, StopTraversal):
        return a.value is b.value or a.value == b.value and type(a.value) is type(b.value)
    return True


def _pred_cases():
    out = ["fn is None", "returns None", "raises UserError"]
    out += [f"returns {k}" for k in _values()]
    out += [f"returns class {k}" for k in _CLS]
    out += [f"returns instance {k}" for k in _CTRL]
    out += [f"raises {k}" for k in _CTRL]
    out += ["raises StopIteration", "raises StopIteration(7)"]
    return out


def check_predicate(case: str) -> list:
    node, calls = _node(), []
    if case == "fn is None":
        r = call_predicate(None, node)
        return [] if r is None else [(P_CL, f"call_predicate(None, node) returned {r!r}, required None")]
    mode, _, what = case.partition(" ")
    want_exc = None
    if mode == "returns":
        if what.startswith("class "):
            v = _CLS[what[6:]]
            want = ("ctrl", v())
        elif what.startswith("instance "):
            v = _CTRL[what[9:]]()
            want = ("is", v)
        else:
            v = None if what == "None" else _values()[what]
            want = ("is", v)

        def fn(n):
            calls.append(n)
            return v
    else:
        if what == "UserError":
            exc = _UserError("boom")
            want_exc = exc
            want = None
        elif what.startswith("StopIteration"):
            exc = StopIteration(7) if "7" in what else StopIteration()
            want = ("ctrl", StopTraversal(7) if "7" in what else StopTraversal())
        else:
            exc = _CTRL[what]()
            want = ("ctrl", exc)

        def fn(n):
            calls.append(n)
            raise exc
    try:
        r = call_predicate(fn, node)
    except Exception as e:  # noqa: BLE001
        if want_exc is not None and e is want_exc:
            return []
        return [(P_CL, f"predicate {case}: call_predicate raised {type(e).__name__}: {e}")]
    out = []
    if want_exc is not None:
        return [(P_CL, f"predicate {case}: call_predicate returned {r!r} instead of propagating the error")]
    if len(calls) != 1 or calls[0] is not node:
        out.append((P_CL, f"predicate {case}: fn was called {len(calls)} times / with another argument"))
    if want[0] == "is" and r is not want[1]:
        out.append((P_CL, f"predicate {case}: call_predicate returned {r!r}, required the returned object {want[1]!r}"))
    if want[0] == "ctrl" and not _same_ctrl(r, want[1]):
        out.append((P_CL, f"predicate {case}: call_predicate returned {r!r} {getattr(r, '__dict__', '')}, required {want[1]!r} {want[1].__dict__}"))
    return out


def _trav_cases():
    out = ["returns None", "raises UserError", "returns False"]
    out += [f"returns class {k}" for k in ("SkipBranch", "StopTraversal", "StopIteration")]
    out += [f"returns instance {k}" for k in _CTRL if not k.startswith("Select")] + ["returns instance StopIteration", "returns instance StopIteration(7)"]
    out += [f"raises {k}" for k in _CTRL if not k.startswith("Select")] + ["raises StopIteration", "raises StopIteration(7)"]
    return out


def check_traversal(case: str) -> list:
    node, memo, calls = _node(), {"m": 1}, []
    mode, _, what = case.partition(" ")
    si = {"StopIteration": lambda: StopIteration(), "StopIteration(7)": lambda: StopIteration(7)}
    want = None  # ("ret", v) | ("stop", value) | ("exc", obj)
    if mode == "returns":
        if what == "None":
            v, want = None, ("ret", None)
        elif what == "False":
            v, want = False, ("stop", None)
        elif what.startswith("class "):
            v = {"SkipBranch": SkipBranch, "StopTraversal": StopTraversal, "StopIteration": StopIteration}[what[6:]]
            want = ("ret", False) if v is SkipBranch else ("stop", None)
        else:
            k = what[9:]
            v = si[k]() if k in si else _CTRL[k]()
            want = ("ret", False) if isinstance(v, SkipBranch) else ("stop", v.value)

        def fn(n, m):
            calls.append((n, m))
            return v
    else:
        if what == "UserError":
            exc = _UserError("boom")
            want = ("exc", exc)
        else:
            exc = si[what]() if what in si else _CTRL[what]()
            want = ("ret", False) if isinstance(exc, SkipBranch) else ("stop", exc.value)

        def fn(n, m):
            calls.append((n, m))
            raise exc
    out = []
    with warnings.catch_warnings():
        warnings.simplefilter("ignore")
        try:
            r = call_traversal_cb(fn, node, memo)
            got = ("ret", r)
        except StopTraversal as e:
            got = ("stop", e.value)
        except Exception as e:  # noqa: BLE001
            got = ("exc", e)
    if len(calls) != 1 or calls[0][0] is not node or calls[0][1] is not memo:
        out.append((T_CL, f"callback {case}: fn was called {len(calls)} times / with other arguments"))
    ok = got[0] == want[0] and (got[1] is want[1] or (want[0] != "exc" and got[1] == want[1] and type(got[1]) is type(want[1])))
    if not ok:
        out.append((T_CL, f"callback {case}: call_traversal_cb gave {got[0]} {got[1]!r}, required {want[0]} {want[1]!r}"))
    return out


CHECKS = {"call_mapper": (_mapper_cases, check_mapper), "call_predicate": (_pred_cases, check_predicate), "call_traversal_cb": (_trav_cases, check_traversal)}


def _dw_cases():
    return ["empty dict", "dict filled later", "non-empty dict", "kwargs", "no arguments", "dict and kwargs", "empty dict and kwargs", "not a dict", "lookup through a second wrapper"]


def check_dictwrapper(case: str) -> list:
    from nutree.common import DictWrapper

    out = []

    def same(d, what):
        w1, w2 = DictWrapper(d), DictWrapper(d)
        if w1._dict is not d:
            out.append((D_CL, f"{what}: the wrapper holds {w1._dict!r} (another object), not the dict it was given"))
        if not (w1 == w2 and hash(w1) == hash(w2)):
            out.append((D_CL, f"{what}: two wrappers of one dict are unequal or hash differently"))
        other = DictWrapper(dict(d))
        if w1 == other or hash(w1) == hash(other):
            out.append((D_CL, f"{what}: a wrapper of an equal *copy* compares / hashes equal"))
        return w1

    if case == "empty dict":
        same({}, "DictWrapper({})")
    elif case == "dict filled later":
        d: dict = {}
        w = same(d, "DictWrapper(d) with d still empty")
        d["name"] = "x"
        if w._dict.get("name") != "x" or not (w == DictWrapper(d)):
            out.append((D_CL, "a dict filled in after it was wrapped: the wrapper does not see the new entry / differs from a later wrapper of the same dict"))
    elif case == "non-empty dict":
        same({"name": "a", "n": 0}, "DictWrapper({...})")
    elif case == "kwargs":
        w = DictWrapper(name="a", n=0)
        if w._dict != {"name": "a", "n": 0}:
            out.append((D_CL, f"DictWrapper(name='a', n=0) wraps {w._dict!r}"))
    elif case == "no arguments":
        w1, w2 = DictWrapper(), DictWrapper()
        if w1._dict != {} or w1._dict is w2._dict:
            out.append((D_CL, "DictWrapper() must wrap a new empty dict each time"))
    elif case in ("dict and kwargs", "empty dict and kwargs"):
        try:
            DictWrapper({} if case.startswith("empty") else {"a": 1}, b=2)
            out.append((D_CL, f"{case}: accepted, required ValueError"))
        except ValueError:
            pass
    elif case == "not a dict":
        for bad in ([("a", 1)], "x", 0):
            try:
                DictWrapper(bad)
                out.append((D_CL, f"DictWrapper({bad!r}) accepted, required TypeError"))
            except TypeError:
                pass
    elif case == "lookup through a second wrapper":
        for d0 in ({}, {"name": "r"}):
            t = Tree("T")
            n = t.add("A").add(DictWrapper(d0))
            d0["later"] = 1
            if t.find_first(DictWrapper(d0)) is not n or DictWrapper(d0) not in t or n.data_id != hash(DictWrapper(d0)):
                out.append((D_CL, f"a record wrapped as {'an empty' if len(d0) == 1 else 'a non-empty'} dict is not found through a second wrapper of the same dict"))
    return out


CHECKS["DictWrapper"] = (_dw_cases, check_dictwrapper)


def run_into(res: Result, prop: str):
    for f in FUNCS.get(prop, ()):
        cases, chk = CHECKS[f]
        names = cases()
        for case in names:
            res.add_case(f"cbunit {f} {case}")
            try:
                diffs = chk(case)
            except Exception as e:  # noqa: BLE001
                res.errors.append(f"cbunit {f} {case}: {type(e).__name__}: {e}")
                continue
            for clause, text in diffs:
                res.violations.append(Violation(prop, clause, f"nutree.common.{f}", {"part": "cbunit", "func": f, "case": case, "clause": clause}, clip(text)))
        if f == "DictWrapper":
            res.bounds["nutree.common.DictWrapper"] = f"{len(names)} construction / identity cases (empty dict, dict filled after wrapping, non-empty dict, kwargs, no arguments, both, a non-dict; lookup of a node through a second wrapper of the same dict)"
            continue
        res.bounds[f"nutree.common.{f}"] = f"{len(names)} callback behaviours (fn None; returned None / 13 values incl. 8 falsy ones / control classes and instances with their flags and values; raised control values, StopIteration, a user error)"


def replay(witness: dict) -> list:
    return CHECKS[witness["func"]][1](witness["case"])
