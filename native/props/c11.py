"""C11 -- Tree.diff(other, ordered=, reduce=) marks exactly the one-sided children and
projects back to both inputs (bounded stand-in).

Oracle (from the property statement and docs/sphinx/ug_diff.rst, evaluated on raw slots of
the result; the only library calls are Tree.diff and Tree.copy):

  peers are matched top-down, starting at the two (invisible) roots: a child of a matched
  node is *present on both sides* iff its data occurs among the children of both peers.
  Below every matched triple (p0 in T0, p1 in T1, p2 in the result):

  C2  children(p2) without REMOVED/MOVED_TO  ==  children(p1)           (as multiset of data);
      below an added (one-sided T1) child the result holds a complete copy of T1's branch
  C3  children(p2) without ADDED/MOVED_HERE  ==  children(p0)           (as list of data, in order)
  C4  a child of p2 carries ADDED|MOVED_HERE iff its data is among p1's children only,
      REMOVED|MOVED_TO iff it is among p0's children only, none of the four if on both sides
  C6  ordered=True: a both-sided child carries dc == (i0, i1) iff its index i0 in children(p0)
      differs from its index i1 in children(p1) (no 'dc' otherwise) and p2 has
      'dc_renumbered' iff some child carries an order mark; ordered=False: no order marks
  C5  every MOVED_HERE node has a MOVED_TO node with equal data somewhere in the result
  C7  diff(reduce=True) is the sub-forest of diff(reduce=False) made of the nodes with a
      truthy 'dc' and their ancestors (see check_reduce for the run-independent reading)
  C1  diff(T, T.copy()) has no 'dc' / 'dc_renumbered' / 'dc_cleared' meta anywhere
  C8  view.obs(T0), view.obs(T1) unchanged by the call

Nothing is required of the children of a removed (one-sided T0) node: the statement is silent.
"""
from __future__ import annotations

import random
import signal
import traceback
from collections import Counter

from nutree.diff import DiffClassification as DC

from .. import gen, view
from ..harness import Result, Violation, clip, parallel, seed
from .mut import _spec_json, spec_from_json

FUNC = "Tree.diff"
C_RAISE = "ensures diff() returns a Tree (no exception, terminates)"
C1 = "ensures diff with an identical copy carries no change marks"
C2 = "ensures dropping REMOVED/MOVED_TO nodes yields the second tree's children below every matched node"
C2B = "ensures an added branch is a complete copy of the second tree's branch"
C3 = "ensures dropping ADDED/MOVED_HERE nodes yields the first tree's child list in order below every matched node"
C4 = "ensures ADDED/REMOVED/MOVED marks sit exactly on the one-sided children"
C5 = "ensures every MOVED_HERE node has a MOVED_TO node with the same data"
C6 = "ensures order marks carry the true (old, new) index and the parent is dc_renumbered"
C7 = "ensures reduce=True keeps exactly the marked nodes and their ancestors"
C8 = "ensures neither input tree is modified"

ENUM_MARKS = (DC.ADDED, DC.REMOVED, DC.MOVED_HERE, DC.MOVED_TO)
CONFIGS = ((False, False), (False, True), (True, False), (True, True))  # (ordered, reduce)
CALL_TIMEOUT = 10.0


class _Timeout(BaseException):
    pass


def _on_alarm(signum, frame):
    raise _Timeout()


def _guarded(fn, *a, **kw):
    """Run a library call under an interval timer: (value, None) or (None, text)."""
    old = signal.signal(signal.SIGALRM, _on_alarm)
    signal.setitimer(signal.ITIMER_REAL, CALL_TIMEOUT)
    try:
        return fn(*a, **kw), None
    except _Timeout:
        return None, f"no result after {CALL_TIMEOUT}s (non-termination)"
    except Exception as e:  # noqa: BLE001
        return None, f"{type(e).__name__}: {e}"
    finally:
        signal.setitimer(signal.ITIMER_REAL, 0)
        signal.signal(signal.SIGALRM, old)


# ------------------------------------------------------------------ reading the result
def _dc(n):
    m = n._meta
    return None if not m else m.get("dc")


def _meta(n, key):
    m = n._meta
    return None if not m else m.get(key)


def _is_enum(m, *which):
    return any(m is w or (isinstance(m, DC) and m == w) for w in (which or ENUM_MARKS))


def _all_nodes(tree):
    return view.reachable(tree, limit=5000)


def _fmt_kids(nodes):
    def one(c):
        m = _dc(c)
        if m is None:
            return repr(c._data)
        return f"{c._data!r}<{m.name if isinstance(m, DC) else m}>"

    return "[" + ", ".join(one(c) for c in nodes) + "]"


# ------------------------------------------------------------------ the oracle
def check_full(t0, t1, t2, ordered: bool) -> list[tuple[str, str]]:
    """Clauses C2, C2B, C3, C4, C5, C6 on the unreduced result t2 = t0.diff(t1, ordered=)."""
    out: list[tuple[str, str]] = []

    def added_branch(c1, c2, path):
        k1, k2 = view.kids(c1), view.kids(c2)
        keep = [c for c in k2 if not _is_enum(_dc(c), DC.REMOVED, DC.MOVED_TO)]
        if Counter(repr(c._data) for c in keep) != Counter(repr(c._data) for c in k1):
            out.append((C2B, f"below added node {path}: result has {_fmt_kids(k2)}, second tree has {[c._data for c in k1]}"))
            return
        for c in keep:
            peer = next(x for x in k1 if x._data == c._data)
            added_branch(peer, c, f"{path}/{c._data}")

    def matched(p0, p1, p2, path):
        k0, k1, k2 = view.kids(p0), view.kids(p1), view.kids(p2)
        d0 = [c._data for c in k0]
        d1 = [c._data for c in k1]
        where = f"below {path or '<root>'}"
        # C3: first tree's child list, in order
        seq = [c._data for c in k2 if not _is_enum(_dc(c), DC.ADDED, DC.MOVED_HERE)]
        if seq != d0:
            out.append((C3, f"{where}: result children {_fmt_kids(k2)} without ADDED/MOVED_HERE = {seq}, first tree has {d0}"))
        # C2: second tree's children (multiset)
        bag = [c._data for c in k2 if not _is_enum(_dc(c), DC.REMOVED, DC.MOVED_TO)]
        if Counter(map(repr, bag)) != Counter(map(repr, d1)):
            out.append((C2, f"{where}: result children {_fmt_kids(k2)} without REMOVED/MOVED_TO = {bag}, second tree has {d1}"))
        renumber_expected = False
        seen = set()
        for c2 in k2:
            d, m = c2._data, _dc(c2)
            in0, in1 = d in d0, d in d1
            first = repr(d) not in seen
            seen.add(repr(d))
            if in0 and in1:
                i0, i1 = d0.index(d), d1.index(d)
                if _is_enum(m):
                    out.append((C4, f"{where}: child {d!r} exists on both sides (index {i0} / {i1}) but is marked {m}"))
                elif ordered:
                    if i0 != i1:
                        renumber_expected = True
                        if not (isinstance(m, tuple) and m == (i0, i1)):
                            out.append((C6, f"{where}: child {d!r} moved from index {i0} to {i1}, dc = {m!r} (required {(i0, i1)!r})"))
                    elif m is not None:
                        out.append((C6, f"{where}: child {d!r} keeps index {i0} but carries dc = {m!r}"))
                elif m is not None:
                    cl = C6 if isinstance(m, tuple) else C4
                    out.append((cl, f"{where}: ordered=False, both-sided child {d!r} carries dc = {m!r}"))
                if first:
                    matched(k0[i0], k1[i1], c2, f"{path}/{d}")
            elif in0:
                if not _is_enum(m, DC.REMOVED, DC.MOVED_TO):
                    out.append((C4, f"{where}: child {d!r} exists in the first tree only but dc = {m!r} (required REMOVED or MOVED_TO)"))
            elif in1:
                if not _is_enum(m, DC.ADDED, DC.MOVED_HERE):
                    out.append((C4, f"{where}: child {d!r} exists in the second tree only but dc = {m!r} (required ADDED or MOVED_HERE)"))
                if first:
                    added_branch(k1[d1.index(d)], c2, f"{path}/{d}")
            else:
                out.append((C4, f"{where}: result child {d!r} (dc = {m!r}) exists in neither input"))
        ren = bool(_meta(p2, "dc_renumbered"))
        if ren != renumber_expected:
            out.append((C6, f"{where}: dc_renumbered = {_meta(p2, 'dc_renumbered')!r} but "
                        + ("a child changed its index" if renumber_expected else f"no both-sided child changed its index (ordered={ordered}); first {d0}, second {d1}")))

    matched(t0._root, t1._root, t2._root, "")
    # C5
    nodes = _all_nodes(t2)
    here = [n for n in nodes if _is_enum(_dc(n), DC.MOVED_HERE)]
    away = {repr(n._data) for n in nodes if _is_enum(_dc(n), DC.MOVED_TO)}
    for n in here:
        if repr(n._data) not in away:
            out.append((C5, f"node {n._data!r} is MOVED_HERE but no node with that data is MOVED_TO; result = {view.fmt(t2)}"))
            break
    return out


def check_reduce(full, red) -> list[tuple[str, str]]:
    """C7.  `full` and `red` stem from two separate calls.  Which of several added clones is
    re-classified as MOVED_HERE is not determined by the inputs (the implementation walks a
    set of node ids), and below an added node this decides whether a node is marked at all.
    The clause is therefore evaluated in a form that does not depend on that choice:
      (a) the reduced tree is a sub-forest of the unreduced result (same paths, by data),
      (b) every leaf of the reduced tree carries a truthy 'dc' (only marked nodes and ancestors),
      (c) every node of the unreduced result whose mark is fixed by the inputs (ADDED, REMOVED,
          MOVED_TO, an order tuple, MOVED_HERE directly below a matched node, or MOVED_HERE below an
          added node when that data has only *one* added occurrence -- then there is no choice) is kept,
      (d) a node present in both results carries the same mark in both whenever that mark is fixed by the
          inputs (REMOVED vs MOVED_TO of a first-tree node does not depend on the choice: it is MOVED_TO
          iff the second tree adds its data somewhere)."""
    out = []
    added_occ: dict = {}  # data -> number of second-tree-only occurrences (marked, or anywhere below a marked added node)

    def count_added(n, inside):
        for c in view.kids(n):
            here = inside or _is_enum(_dc(c), DC.ADDED, DC.MOVED_HERE)
            if here:
                added_occ[repr(c._data)] = added_occ.get(repr(c._data), 0) + 1
            count_added(c, here)

    count_added(full._root, False)

    def marked(n):
        return bool(_dc(n))

    def sub(r, f, path):
        fk = {}
        for c in view.kids(f):
            fk.setdefault(repr(c._data), c)
        seen = set()
        for c in view.kids(r):
            key = repr(c._data)
            here = f"{path}/{c._data}"
            if key not in fk or key in seen:
                out.append((C7, f"reduce=True result has node {here} ({'twice' if key in seen else 'not in the unreduced result'}): reduced {view.fmt(red)}, unreduced {view.fmt(full)}"))
                return
            seen.add(key)
            if not view.kids(c) and not marked(c):
                out.append((C7, f"reduce=True kept the unmarked leaf {here}: {view.fmt(red)}"))
                return
            sub(c, fk[key], here)

    def must_keep(f, r, path, in_added):
        rk = {repr(c._data): c for c in view.kids(r)} if r is not None else {}
        for c in view.kids(f):
            m = _dc(c)
            here = f"{path}/{c._data}"
            peer = rk.get(repr(c._data))
            fixed = bool(m) and not (_is_enum(m, DC.MOVED_HERE) and in_added and added_occ.get(repr(c._data), 0) != 1)
            if fixed and peer is None:
                out.append((C7, f"reduce=True dropped the marked node {here} (dc = {m!r}): reduced {view.fmt(red)}, unreduced {view.fmt(full)}"))
                return False
            if peer is not None and _is_enum(m, DC.REMOVED, DC.MOVED_TO) and _dc(peer) != m:
                out.append((C7, f"reduce=True marks {here} as {_dc(peer)!r}, the unreduced result as {m!r}: reduced {view.fmt(red)}, unreduced {view.fmt(full)}"))
                return False
            if not must_keep(c, peer, here, in_added or _is_enum(m, DC.ADDED, DC.MOVED_HERE)):
                return False
        return True

    sub(red._root, full._root, "")
    if not out:
        must_keep(full._root, red._root, "", False)
    return out


def check_no_marks(t2) -> list[tuple[str, str]]:
    for n in [t2._root] + _all_nodes(t2):
        m = n._meta or {}
        bad = [k for k in ("dc", "dc_renumbered", "dc_cleared") if k in m]
        if bad:
            return [(C1, f"node {n._data!r} carries {({k: m[k] for k in bad})!r}; result = {view.fmt(t2)}")]
    return []


def eval_pair(t0, t1, obs0, obs1, ordered: bool, reduce: bool, *, copy_case=False):
    """Evaluate every clause for one (pair, ordered, reduce).  Returns (diffs, modified) where
    diffs = [(clause, text)] and modified tells the caller to rebuild its cached trees."""
    diffs: list[tuple[str, str]] = []
    full, err = _guarded(t0.diff, t1, ordered=ordered, reduce=False)
    modified = False
    if err is None and reduce:
        red, err = _guarded(t0.diff, t1, ordered=ordered, reduce=True)
    if err is not None:
        diffs.append((C_RAISE, err))
    else:
        if not reduce:
            diffs += check_full(t0, t1, full, ordered)
            if copy_case:
                diffs += check_no_marks(full)
        else:
            diffs += check_reduce(full, red)
            if copy_case:
                diffs += check_no_marks(red)
    if view.obs(t0) != obs0:
        modified = True
        diffs.append((C8, f"first tree changed: now {view.fmt(t0)}"))
    if t1 is not t0 and view.obs(t1) != obs1:
        modified = True
        diffs.append((C8, f"second tree changed: now {view.fmt(t1)}"))
    return diffs, modified


# ------------------------------------------------------------------ sweeps
MAX_V_PER_CLAUSE = 12  # witnesses kept per clause and chunk (one frequent finding must not crowd out others)


def _record(res, diffs, wit):
    for clause, text in diffs:
        n = sum(1 for v in res.violations if v.clause == clause)
        if n < MAX_V_PER_CLAUSE:
            res.violations.append(Violation(res.prop, clause, FUNC, dict(wit), clip(text)))


def _pairs_chunk(chunk, prop, specs_b):
    """chunk: first-tree specs; every one is paired with every spec of specs_b."""
    res = Result(prop)
    cache = {}

    def tree_b(j):
        if j not in cache:
            t, _ = gen.build(specs_b[j], name="T1")
            cache[j] = (t, view.obs(t))
        return cache[j]

    for sa in chunk:
        t0, _ = gen.build(sa, name="T0")
        obs0 = view.obs(t0)
        for j, sb in enumerate(specs_b):
            t1, obs1 = tree_b(j)
            for ordered, reduce in CONFIGS:
                try:
                    diffs, modified = eval_pair(t0, t1, obs0, obs1, ordered, reduce)
                except Exception:  # noqa: BLE001
                    res.errors.append(f"{sa.short()} | {sb.short()} o={ordered} r={reduce}: {traceback.format_exc()[-800:]}")
                    continue
                res.add_case(f"{sa.short()}|{sb.short()}|{int(ordered)}{int(reduce)}", nontrivial=sa.nodes != sb.nodes)
                if diffs:
                    _record(res, diffs, {"kind": "pair", "a": _spec_json(sa), "b": _spec_json(sb), "ordered": ordered, "reduce": reduce})
                if modified:
                    t0, _ = gen.build(sa, name="T0")
                    obs0 = view.obs(t0)
                    cache.pop(j, None)
                    t1, obs1 = tree_b(j)
    return res


def _explicit_pairs_chunk(chunk, prop):
    """chunk: (spec_a, spec_b) pairs (sampled / random)."""
    res = Result(prop)
    for sa, sb in chunk:
        t0, _ = gen.build(sa, name="T0")
        t1, _ = gen.build(sb, name="T1")
        obs0, obs1 = view.obs(t0), view.obs(t1)
        for ordered, reduce in CONFIGS:
            try:
                diffs, modified = eval_pair(t0, t1, obs0, obs1, ordered, reduce)
            except Exception:  # noqa: BLE001
                res.errors.append(f"{sa.short()} | {sb.short()} o={ordered} r={reduce}: {traceback.format_exc()[-800:]}")
                continue
            res.add_case(f"{sa.short()}|{sb.short()}|{int(ordered)}{int(reduce)}", nontrivial=sa.nodes != sb.nodes)
            if diffs:
                _record(res, diffs, {"kind": "pair", "a": _spec_json(sa), "b": _spec_json(sb), "ordered": ordered, "reduce": reduce})
            if modified:
                t0, _ = gen.build(sa, name="T0")
                t1, _ = gen.build(sb, name="T1")
                obs0, obs1 = view.obs(t0), view.obs(t1)
    return res


def _premarked_chunk(chunk, prop):
    """Inputs whose nodes already carry metadata under the key the result uses ('dc') -- as a tree does that is itself the
    result of an earlier diff: marks of the result must come from *this* comparison only."""
    from nutree.diff import DiffClassification as DC

    res = Result(prop)
    stale = (DC.ADDED, DC.REMOVED, DC.MOVED_HERE, (1, 0))
    for sa, sb in chunk:
        t0, n0 = gen.build(sa, name="T0")
        t1, n1 = gen.build(sb, name="T1")
        for k, n in enumerate(n0 + n1):
            n.set_meta("dc", stale[k % len(stale)])
            n.set_meta("note", k)
        obs0, obs1 = view.obs(t0), view.obs(t1)
        for ordered, reduce in CONFIGS:
            try:
                diffs, modified = eval_pair(t0, t1, obs0, obs1, ordered, reduce)
            except Exception:  # noqa: BLE001
                res.errors.append(f"premarked {sa.short()} | {sb.short()} o={ordered} r={reduce}: {traceback.format_exc()[-800:]}")
                continue
            res.add_case(f"premarked {sa.short()}|{sb.short()}|{int(ordered)}{int(reduce)}", nontrivial=True)
            if diffs:
                _record(res, [(c, "[inputs carry 'dc' metadata of an earlier diff] " + t) for c, t in diffs], {"kind": "premarked", "a": _spec_json(sa), "b": _spec_json(sb), "ordered": ordered, "reduce": reduce})
            if modified:
                break
    return res


def _copy_chunk(chunk, prop):
    """Clause C1 (and all others) on diff(T, T.copy())."""
    res = Result(prop)
    for sa in chunk:
        t0, _ = gen.build(sa, name="T0")
        t1, err = _guarded(t0.copy)
        if err is not None:
            res.errors.append(f"{sa.short()}: Tree.copy() failed ({err}); C1 not evaluated for this tree")
            continue
        obs0, obs1 = view.obs(t0), view.obs(t1)
        for ordered, reduce in CONFIGS:
            try:
                diffs, _mod = eval_pair(t0, t1, obs0, obs1, ordered, reduce, copy_case=True)
            except Exception:  # noqa: BLE001
                res.errors.append(f"copy {sa.short()} o={ordered} r={reduce}: {traceback.format_exc()[-800:]}")
                continue
            res.add_case(f"copy:{sa.short()}|{int(ordered)}{int(reduce)}", nontrivial=len(sa) > 0)
            if diffs:
                _record(res, diffs, {"kind": "copy", "a": _spec_json(sa), "ordered": ordered, "reduce": reduce})
                break  # inputs may have been modified
    return res


# ------------------------------------------------------------------ random related pairs
RANDOM_ALPHABET = ("a", "b", "c", "d")


def _to_nested(spec):
    ch = gen.children_of([r[0] for r in spec.nodes])

    def r(i):
        return [spec.nodes[i][1], [r(c) for c in ch[i]]]

    return [r(c) for c in ch[-1]]


def _from_nested(forest) -> gen.Spec:
    recs = []

    def walk(lst, p):
        for lab, kids in lst:
            i = len(recs)
            recs.append((p, lab, None, None))
            walk(kids, i)

    walk(forest, -1)
    return gen.Spec(tuple(recs))


def _child_lists(forest):
    """All child lists (the top-level list first)."""
    out = [forest]

    def walk(lst):
        for _lab, kids in lst:
            out.append(kids)
            walk(kids)

    walk(forest)
    return out


def _size(forest):
    return sum(1 + _size(k) for _l, k in forest)


def _contains(node, lst):
    """Is child list `lst` located inside the branch of `node`?"""
    if node[1] is lst:
        return True
    return any(_contains(c, lst) for c in node[1])


def mutate(rng: random.Random, spec, max_nodes: int):
    """Derive a related tree by 1..4 random edits (remove / add leaf / move branch /
    reorder / relabel) that keep sibling labels distinct."""
    forest = _to_nested(spec)
    for _ in range(rng.randint(1, 4)):
        lists = _child_lists(forest)
        nonempty = [l for l in lists if l]
        op = rng.choice(("remove", "add", "add", "move", "move", "shuffle", "relabel"))
        if op == "remove" and nonempty:
            l = rng.choice(nonempty)
            l.pop(rng.randrange(len(l)))
        elif op == "add" and _size(forest) < max_nodes:
            l = rng.choice(lists)
            free = [a for a in RANDOM_ALPHABET if a not in {x[0] for x in l}]
            if free:
                l.insert(rng.randint(0, len(l)), [rng.choice(free), []])
        elif op == "move" and nonempty:
            src = rng.choice(nonempty)
            node = src[rng.randrange(len(src))]
            targets = [l for l in lists if l is not src and not _contains(node, l) and node[0] not in {x[0] for x in l}]
            if targets:
                dst = rng.choice(targets)
                src.remove(node)
                dst.insert(rng.randint(0, len(dst)), node)
        elif op == "shuffle" and nonempty:
            l = rng.choice(nonempty)
            rng.shuffle(l)
        elif op == "relabel" and nonempty:
            l = rng.choice(nonempty)
            node = rng.choice(l)
            free = [a for a in RANDOM_ALPHABET if a not in {x[0] for x in l}]
            if free:
                node[0] = rng.choice(free)
    return _from_nested(forest)


def random_pairs(count: int, max_nodes: int, base_seed: int):
    rng = random.Random(base_seed)
    out = []
    for k in range(count):
        a = gen.random_spec(rng, rng.randint(2, max_nodes), alphabet=RANDOM_ALPHABET)
        if k % 4 == 3:  # unrelated second tree
            b = gen.random_spec(rng, rng.randint(0, max_nodes), alphabet=RANDOM_ALPHABET)
        else:
            b = mutate(rng, a, max_nodes)
        out.append((a, b))
    return out


def moved_into_new_branch_pairs(max_n: int):
    """Targeted pairs: the second tree is the first one with one branch x taken out and re-inserted at depth 1..2 *inside a
    branch that is new* (n[x], n[m[x]], n[m[x] y], m below an existing node ...): the moved node sits below ADDED nodes."""
    import copy

    out = []
    for sa in gen.plain_specs(max_n, min_n=1):
        base = _to_nested(sa)
        for li, lst in enumerate(_child_lists(base)):
            for pos in range(len(lst)):
                f = copy.deepcopy(base)
                src = _child_lists(f)[li]
                x = src.pop(pos)
                if any(lab in ("n", "m", "y") for lab in str(f) ):
                    pass
                for shape in ("n[x]", "n[m[x]]", "n[m[x] y]", "n[y m[x]]"):
                    g = copy.deepcopy(f)
                    xx = copy.deepcopy(x)
                    new = {"n[x]": ["n", [xx]], "n[m[x]]": ["n", [["m", [xx]]]], "n[m[x] y]": ["n", [["m", [xx]], ["y", []]]], "n[y m[x]]": ["n", [["y", []], ["m", [xx]]]]}[shape]
                    g.append(new)  # a new top-level branch
                    out.append((sa, _from_nested(g)))
                    # ... and the same new branch below the first surviving top-level node
                    if g[:-1]:
                        g2 = copy.deepcopy(f)
                        g2[0][1].append(copy.deepcopy(new))
                        out.append((sa, _from_nested(g2)))
    return out


# ------------------------------------------------------------------ entry points
def run(prop: str, tier: str, only=None) -> Result:
    total = Result(prop)
    base = seed() * 1_000_003 + 11
    if tier == "quick":
        abc = list(gen.plain_specs(3))
        ab4 = list(gen.plain_specs(4, alphabet=("a", "b")))
        total.merge(parallel(_pairs_chunk, abc, prop, abc, prop=prop))
        total.merge(parallel(_pairs_chunk, ab4, prop, ab4, prop=prop))
        total.merge(parallel(_copy_chunk, list(gen.plain_specs(4)), prop, prop=prop))
        total.bounds["Tree.diff (all ordered pairs)"] = (
            f"all ordered pairs of labelled forests with <= 3 nodes over {{a,b,c}} ({len(abc)}^2 pairs) and with <= 4 nodes over {{a,b}} "
            f"({len(ab4)}^2 pairs), clones included, x ordered in {{F,T}} x reduce in {{F,T}}; identical-copy clause on every forest <= 4 nodes over {{a,b,c}}"
        )
        rng = random.Random(base + 3)
        abc4 = list(gen.plain_specs(4))
        four = [s for s in abc4 if len(s) == 4]
        samp = [(rng.choice(four), rng.choice(abc4)) if k % 2 else (rng.choice(abc4), rng.choice(four)) for k in range(30000)]
        r = parallel(_explicit_pairs_chunk, samp, prop, prop=prop)
        r.exhaustive = False
        total.merge(r)
        total.bounds["Tree.diff (sampled 4-node pairs)"] = f"{len(samp)} sampled ordered pairs with one 4-node forest and one forest <= 4 nodes over {{a,b,c}} (VERIF_SEED={seed()})"
        n_rand, n_max = 3000, 7
    else:
        abc = list(gen.plain_specs(4))
        total.merge(parallel(_pairs_chunk, abc, prop, abc, prop=prop, chunks_per_proc=8))
        total.merge(parallel(_copy_chunk, list(gen.plain_specs(5)), prop, prop=prop))
        rng = random.Random(base + 5)
        five = list(gen.plain_specs(5, min_n=5))
        upto5 = abc + five
        samp = [(rng.choice(five), rng.choice(upto5)) if k % 2 else (rng.choice(upto5), rng.choice(five)) for k in range(60000)]
        r = parallel(_explicit_pairs_chunk, samp, prop, prop=prop)
        r.exhaustive = False
        total.merge(r)
        total.bounds["Tree.diff (all ordered pairs)"] = (
            f"all ordered pairs of labelled forests with <= 4 nodes over {{a,b,c}} ({len(abc)}^2 pairs), clones included, "
            f"x ordered in {{F,T}} x reduce in {{F,T}}; identical-copy clause on every forest <= 5 nodes"
        )
        total.bounds["Tree.diff (sampled 5-node pairs)"] = f"{len(samp)} sampled ordered pairs with one 5-node forest and one forest <= 5 nodes over {{a,b,c}} (VERIF_SEED={seed()})"
        n_rand, n_max = 40000, 7
    tp = moved_into_new_branch_pairs(3 if tier == "quick" else 4)
    total.merge(parallel(_explicit_pairs_chunk, tp, prop, prop=prop))
    total.bounds["Tree.diff (moves into new branches)"] = f"{len(tp)} pairs: every forest <= {3 if tier == 'quick' else 4} nodes over {{a,b,c}} with each branch taken out and re-inserted at depth 1..2 inside a new branch (n[x], n[m[x]], n[m[x] y], n[y m[x]]) at top level and below the first top-level node"
    # second tree = first tree after a history (all accessors evaluated once, one change through the public API), both directions;
    # the same for larger trees with sampled changes
    hp = []
    for sb in gen.history_specs(gen.plain_specs(3 if tier == "quick" else 4, min_n=1)):
        if sb.hist[1][0] == "setid":
            continue  # the same data under another data_id: whether that is "the same child" is the library's call (it matches by id); the oracle names children by data
        sa = gen.Spec(sb.hist[0])
        hp += [(sa, sb), (sb, sa)]
    nb = 8 if tier == "quick" else 60
    for k, sa in enumerate(gen.big_specs(seed() + 11, nb, lo=16, hi=30)):
        for sb in gen.history_specs([sa], sample=(random.Random(base + 77 + k), 6)):
            if sb.hist[1][0] != "setid":
                hp += [(sa, sb), (sb, sa)]
    rh = parallel(_explicit_pairs_chunk, hp, prop, prop=prop)
    rh.exhaustive = False
    total.merge(rh)
    total.bounds["Tree.diff (tree vs. its own later state)"] = (
        f"{len(hp)} pairs: every forest with 1..{3 if tier == 'quick' else 4} nodes over {{a,b,c}} against each tree reached from it by one change (remove, remove(keep_children), move_to, add, "
        f"remove_children, sort_children, deep copy) after all accessors had been evaluated, both directions; {nb} seeded larger trees with 16..30 nodes x 6 sampled changes (VERIF_SEED={seed()})"
    )
    abc3 = list(gen.plain_specs(3))
    rng_p = random.Random(base + 9)
    pm = [(a, b) for a in abc3 for b in abc3] if tier != "quick" else [(rng_p.choice(abc3), rng_p.choice(abc3)) for _ in range(1500)] + [(a, a) for a in abc3]
    rp = parallel(_premarked_chunk, pm, prop, prop=prop)
    rp.exhaustive = tier != "quick"
    total.merge(rp)
    total.bounds["Tree.diff (inputs that already carry 'dc' metadata)"] = f"{len(pm)} pairs of forests <= 3 nodes over {{a,b,c}} whose nodes all carry stale marks under 'dc' (and another key), x ordered x reduce"
    # very wide sibling lists (child indexes beyond CPython's small-int cache): an identical copy, two children swapped
    # far behind index 256, a child removed near the front (every later index shifts), a child appended
    wide = [(-1, "p", None, None)] + [(0, f"c{k:03d}", None, None) for k in range(300)] + [(300, "leaf", None, None)]
    sw = list(wide)
    sw[271], sw[281] = sw[281], sw[271]
    wp = [(gen.Spec(tuple(wide)), gen.Spec(tuple(wide))), (gen.Spec(tuple(wide)), gen.Spec(tuple(sw))),
          (gen.Spec(tuple(wide)), gen.Spec(tuple(wide[:6] + [(pp if pp <= 5 else pp - 1, lab, d, k) for pp, lab, d, k in wide[7:]]))),
          (gen.Spec(tuple(wide)), gen.Spec(tuple(wide + [(0, "new", None, None)])))]
    rw = parallel(_explicit_pairs_chunk, wp, prop, prop=prop)
    rw.exhaustive = False
    total.merge(rw)
    total.bounds["Tree.diff (very wide sibling lists)"] = "4 pairs over a node with 300 children (identical copy / two children swapped behind index 256 / one removed near the front / one appended), x ordered x reduce"
    pairs = random_pairs(n_rand, n_max, base)
    r = parallel(_explicit_pairs_chunk, pairs, prop, prop=prop)
    r.exhaustive = False
    total.merge(r)
    total.bounds["Tree.diff (random pairs)"] = (
        f"{n_rand} seeded random pairs, first tree 2..{n_max} nodes over {{a,b,c,d}}, second tree derived by 1..4 random edits "
        f"(remove/add/move/reorder/relabel) or (every 4th) unrelated (VERIF_SEED={seed()})"
    )
    return total


def replay(witness: dict, prop: str) -> list[tuple[str, str]]:
    sa = spec_from_json(witness["a"])
    t0, _ = gen.build(sa, name="T0")
    if witness.get("kind") == "premarked":
        r = _premarked_chunk([(sa, spec_from_json(witness["b"]))], prop)
        return [(v.clause, v.text) for v in r.violations if v.witness.get("ordered") == witness.get("ordered") and v.witness.get("reduce") == witness.get("reduce")]
    if witness.get("kind") == "copy":
        t1 = t0.copy()
    else:
        t1, _ = gen.build(spec_from_json(witness["b"]), name="T1")
    diffs, _ = eval_pair(t0, t1, view.obs(t0), view.obs(t1), bool(witness["ordered"]), bool(witness["reduce"]), copy_case=witness.get("kind") == "copy")
    return diffs
